"""C20 - alert state and saved objects follow their definitions exactly.

Part 1 (alerts).  spec/AlertsLaw.tla = the required law (window rule + admissible notifications),
  spec/Alerts.tla = transcription of handleAlertCondition / shouldSendNotification next to the law
  (TLC: they agree on all condition sequences; they differ once a "Config Modified" history row is
  in the window - candidates).  Gen_Alerts exports the action sequences; an in-package harness
  (harness/inpkg/pkg/alerts/alertsHandler) replays them on the REAL handleAlertCondition /
  evaluate*Conditions / notification path against a real sqlite store and a loopback webhook and
  records what happened; spec/Judge_Alerts.tla judges the recorded traces with the law operators.
Part 2 (keyed stores).  spec/KVStore.tla = law + admissible outcomes per operation + restart;
  Gen_KVStore exports histories over 2 tenants x 2-3 keys; sigdrv (harness/sigdrv/kvstore.go)
  replays them through the real handlers of the seven stores, restart = new process on the same
  directory (clean = after what ShutdownSiglensServer calls, crash = SIGKILL), and every read path
  is compared with the model after every step.
"""
import json
import os
import random
import shutil
import time

import vlib

LEVEL = "model_checking"
CLAIMED = True   # set by the lead after review; only claimed checks enter MANIFEST.json

MANIFEST = dict(
    category="model_checking",
    technique="TLA+ law + code transcription of the alert evaluation state machine (TLC exhaustive, law-vs-code difference listing), "
              "TLC-enumerated evaluation/tick/edit/silence sequences replayed on the real alertsHandler (sqlite + loopback webhook) and "
              "judged by a TLA+ trace judge; TLA+ keyed-store law with admissible outcomes, TLC-generated CRUD/restart histories replayed "
              "through the real handlers of seven stores across process restarts",
    text=("spec/AlertsLaw.tla states the window rule (Firing iff last N outcomes held, Pending iff latest held, Normal otherwise) and the "
          "admissible notifications (on entering Firing, repeats only after cool-down, one Normal notification per notified Firing); "
          "spec/Alerts.tla transcribes handleAlertCondition/shouldUpdateAlertStateToFiring/shouldSendNotification and TLC compares both "
          "over all condition sequences of length 7 for N=1..3, cool-down 0/2 ticks, silence and config-edit rows. Every generated "
          "sequence is driven through the real handleAlertCondition with synthetic results of three shapes (records+measure column, "
          "grouped measures, metric series) evaluated by the real evaluate*Conditions for four threshold operators; state and webhook "
          "deliveries after every evaluation are judged by spec/Judge_Alerts.tla. spec/KVStore.tla gives the keyed-store law "
          "(admissible outcome sets, tenant isolation, restart); generated histories (<=6 ops, 2 tenants, repeated names, rename onto "
          "existing, delete missing, unusual names, clean/crash restart anywhere) are replayed on dashboards, folders, saved queries, "
          "index aliases, lookup files, alerts and contact points through their real handlers and compared on every read path."),
    note=("Alert evaluations are driven at handleAlertCondition with synthetic query results; the query execution that produces the "
          "result (evaluateLogAlert's search) is covered by C02/C04. Ticks are realised by moving last_sent_time; a cool-down boundary "
          "is therefore hit with now-lastSent = k minutes + milliseconds (>= vs > is not distinguishable). Results with several values "
          "of which only some satisfy the operator are accepted either way. Silence semantics are not in the statement: while a silence "
          "setting exists owed notifications may be withheld. Lookup files have no tenant dimension in the API. Handlers that take no "
          "tenant argument (alert/contact update, delete, get by id) cannot be probed for cross-tenant access. Histories are sampled "
          "per VERIF_SEED in the quick tier."),
    design_ref="DESIGN.md 4/C20",
)

class Findings:
    """one chk.violation per distinct signature (first reproduction kept), with the number of reproductions"""

    def __init__(self):
        self.by = {}

    def add(self, key, what, rep):
        e = self.by.setdefault(key, [0, what, rep])
        e[0] += 1

    def flush(self, chk):
        chk.cov["violation_counts"] = {k: v[0] for k, v in sorted(self.by.items())}
        for k, (n, what, rep) in sorted(self.by.items()):
            chk.violation(k, "%s  [reproduced in %d replayed cases]" % (what, n), rep)


FIND = Findings()

INPKG_TEST = os.path.join(vlib.VERIF, "harness", "inpkg", "pkg", "alerts", "alertsHandler", "zz_verif_alerts_test.go")
WORKERS = min(6, vlib.NCPU)

# ============================================================================ part 1: alerts

MC_HOLD = ["MC_Alerts_fail_c0", "MC_Alerts_fail_c2", "MC_Alerts_n1_c0", "MC_Alerts_n2_c0", "MC_Alerts_n3_c0", "MC_Alerts_n1_c2", "MC_Alerts_n2_c2", "MC_Alerts_n3_c2",
           "MC_Alerts_sil", "MC_Alerts_sil0"]
MC_DIFF = {"MC_Alerts_edit": "code counts the Config-Modified history row in the window (candidate)",
           "MC_Alerts_short": "model mutant: window one row short", "MC_Alerts_long": "model mutant: window one row long"}


def alerts_model(chk):
    res = vlib.pmap(lambda c: vlib.run_tlc("MC_Alerts", c + ".cfg", workers=2, timeout=900, coverage=(c == "MC_Alerts_sil")),
                    MC_HOLD + list(MC_DIFF), workers=3)
    for name, r in zip(MC_HOLD + list(MC_DIFF), res):
        if name in MC_DIFF:
            if r.error and not r.violated:
                raise vlib.Infra("%s: TLC failed: %s\n%s" % (name, r.error, r.out[-2000:]))
            if "StateLaw" not in r.violated:
                raise vlib.Infra("model sensitivity lost: %s no longer differs from the law" % name)
            chk.add_tlc(name, r, "expected law/code difference: " + MC_DIFF[name])
        else:
            vlib.tlc_must_hold(r, name)
            # UserEdit is exercised by MC_Alerts_edit (its StateLaw counter-example needs the action)
            if name == "MC_Alerts_sil" and [a for a in r.coverage_zero if a != "Alerts!UserEdit"]:
                raise vlib.Infra("vacuous actions in %s: %s" % (name, r.coverage_zero))
            r.coverage_zero = [a for a in r.coverage_zero if a != "Alerts!UserEdit"]
            chk.add_tlc(name, r, "StateLaw/NotifLaw/Bookkeeping: code transcription satisfies the law")
    chk.cov["alerts_law_vs_code"] = {k: v for k, v in MC_DIFF.items()}


def alerts_apalache(chk):
    """window rule for unbounded history length: inductive invariant discharged by Apalache (optional; skipped if it stalls)"""
    import subprocess
    sc = vlib.scratch("c20apa")
    try:
        shutil.copy(os.path.join(vlib.SPEC, "AlertsWindowInd.tla"), sc)
        res = {}
        for name, args in (("base", ["--init=Init", "--length=0"]), ("step", ["--init=IndInit", "--length=1"])):
            t0 = time.time()
            try:
                p = subprocess.run(["apalache-mc", "check", "--cinit=ConstInit", "--inv=IndInv"] + args + ["AlertsWindowInd.tla"],
                                   cwd=sc, stdout=subprocess.PIPE, stderr=subprocess.STDOUT, text=True, timeout=240)
            except (subprocess.TimeoutExpired, OSError) as e:
                chk.cov["apalache_window_rule"] = "skipped (%s)" % type(e).__name__
                return
            if "EXITCODE: OK" not in p.stdout:
                if "NoError" not in p.stdout and ("violat" in p.stdout.lower() or "counterexample" in p.stdout.lower()):
                    raise vlib.Infra("Apalache: inductive invariant of the window rule fails (%s) - model-level, not a code verdict\n%s" % (
                        name, p.stdout[-1500:]))
                chk.cov["apalache_window_rule"] = "skipped (apalache error in %s)" % name
                return
            res[name] = round(time.time() - t0, 1)
        chk.cov["apalache_window_rule"] = {"result": "IndInv inductive for N in 1..4, unbounded history length", "wall_s": res}
    finally:
        vlib.rmtree(sc)


def alerts_behaviours(chk):
    quick = chk.tier == "quick"
    plan = []   # (cfg, sample size or None)
    for n in (1, 2, 3):
        plan.append(("Gen_Alerts_n%d_c0" % n, None))                       # all condition sequences of length 7
        plan.append(("Gen_Alerts_n%d_c2" % n if quick else "Gen_Alerts_n%d_c2_deep" % n, 200 if quick else 6000))
        plan.append(("Gen_Alerts_n%d_edit" % n, None if not quick else 80))
        plan.append(("Gen_Alerts_n%d_sil" % n, 120 if quick else 3000))
        plan.append(("Gen_Alerts_n%d_fail" % n, 100 if quick else None))        # contact point unreachable at <= 2 evaluations
        plan.append(("Gen_Alerts_n%d_fail_c2" % n, 100 if quick else 4000))
    plan.append(("Gen_Alerts_n2_edit2", 100 if quick else 2500))
    plan.append(("Gen_Alerts_n3_edit2", 100 if quick else None))
    gens = vlib.pmap(lambda p: vlib.tlc_generate("Gen_Alerts", p[0] + ".cfg", timeout=1200), plan, workers=4)
    out = []
    for (cfg, k), (behs, r) in zip(plan, gens):
        if not behs:
            raise vlib.Infra("no behaviours from " + cfg)
        chk.add_tlc(cfg, r, "behaviour generation: %d behaviours" % len(behs))
        for b in vlib.sample(behs, k, chk.seed * 1000003 + len(out)):
            b["src"] = cfg
            out.append(b)
    return out


def run_alert_replay(behs, seed, tag="a"):
    """behs: list of dicts with id, n, cool, sil, steps[{a,c}] -> list of traces (same order)."""
    sc = vlib.scratch("c20" + tag)
    try:
        inp, outp = os.path.join(sc, "in.ndjson"), os.path.join(sc, "out.ndjson")
        with open(inp, "w") as f:
            for b in behs:
                f.write(json.dumps({"id": b["id"], "n": b["n"], "cool": b["cool"], "sil": b["sil"],
                                    "seed": seed * 7919 + b["id"],
                                    "steps": [{"a": s["a"], "c": s["c"], "d": s.get("d", "ok")} for s in b["steps"]]}) + "\n")
        rc, out = vlib.go_test_inpkg("pkg/alerts/alertsHandler", [INPKG_TEST], "^TestVerifAlertsReplay$",
                                     env={"VERIF_ALERTS_IN": inp, "VERIF_ALERTS_OUT": outp}, timeout=3000)
        if rc != 0:
            raise vlib.Infra("alert replay harness failed (rc=%s):\n%s" % (rc, out[-4000:]))
        traces = [json.loads(l) for l in open(outp) if l.strip()]
        if len(traces) != len(behs):
            raise vlib.Infra("alert replay harness wrote %d traces for %d behaviours:\n%s" % (len(traces), len(behs), out[-2000:]))
        return traces
    finally:
        vlib.rmtree(sc)


def judge(traces):
    """TLA+ judge over recorded traces -> {id: bad-record or None}; returns (verdicts, TLCResult)."""
    sc = vlib.scratch("c20j")
    try:
        vlib._stage_spec(sc)
        with open(os.path.join(sc, "alert_traces.ndjson"), "w") as f:
            for t in traces:
                f.write(json.dumps({"id": t["id"], "n": t["n"], "cool": t["cool"],
                                    "steps": [{"a": s["a"], "eff": bool(s.get("eff")), "state": s.get("state", ""),
                                               "sent": s["sent"], "d": s.get("d", "ok"), "att": s.get("att", 0),
                                               "neval": s.get("neval", 0), "hstate": s.get("hstate", "")} for s in t["steps"]]}) + "\n")
        r = vlib.run_tlc("Judge_Alerts", "Judge_Alerts.cfg", workers=1, sc=sc, timeout=1800)
        if r.rc != 0:
            raise vlib.Infra("Judge_Alerts failed: %s\n%s" % (r.error, r.out[-3000:]))
        v = {}
        for l in open(os.path.join(sc, "alert_verdicts.ndjson")):
            if l.strip():
                d = json.loads(l)
                v[d["id"]] = d["bad"][0] if d["bad"] else None
        return v, r
    finally:
        vlib.rmtree(sc)


def classify_alert(trace, bad):
    """specific signature of an alert-law failure"""
    n = trace["n"]
    steps = trace["steps"][:bad["step"] - 1]
    rows = [s["a"] for s in steps if s["a"] in ("eval", "edit")]
    window = rows[-(n - 1):] if n > 1 else []
    if bad["kind"] == "state":
        if "edit" in window and bad["law"] == "Firing" and bad["state"] == "Pending":
            return "C20:alert:state:config-edit-row-counted-in-window"
        return "C20:alert:state:law-%s:got-%s" % (bad["law"], bad["state"])
    if bad["kind"] == "history":
        return "C20:alert:history:evaluation-not-recorded"
    if bad["kind"] == "untried":
        return "C20:alert:notif:law-%s:owed-notification-not-attempted" % bad["law"]
    return "C20:alert:notif:law-%s:sent-%s:not-admissible" % (bad["law"], bad["sent"])


def alerts_part(chk):
    alerts_model(chk)
    if chk.tier != "quick" or os.environ.get("VERIF_C20_APALACHE"):
        alerts_apalache(chk)
    behs = alerts_behaviours(chk)
    for i, b in enumerate(behs):
        b["id"] = i
    t0 = time.time()
    if chk.tier == "quick" or len(behs) < 3000:
        traces = run_alert_replay(behs, chk.seed)
    else:
        # warm the build cache with one tiny run, then shard
        run_alert_replay(behs[:1], chk.seed, "w")
        k = 3
        shards = [behs[i::k] for i in range(k)]
        parts = vlib.pmap(lambda sh: run_alert_replay(sh, chk.seed), shards, workers=k)
        traces = [t for p in parts for t in p]
    byid = {t["id"]: t for t in traces}
    chk.cov["alert_replay_wall_s"] = round(time.time() - t0, 1)
    verdicts, jr = judge(traces)
    chk.add_tlc("Judge_Alerts", jr, "TLA+ judge over %d recorded traces" % len(traces))
    drift = 0
    nev = 0
    for b in behs:
        t = byid[b["id"]]
        chk.replayed(1)
        rep = {"kind": "alert", "behaviour": {"n": b["n"], "cool": b["cool"], "sil": b["sil"], "src": b["src"],
                                              "steps": [{"a": s["a"], "c": s["c"], "d": s.get("d", "ok")} for s in b["steps"]]},
               "seed": chk.seed * 7919 + b["id"], "id": b["id"]}
        if t.get("err"):
            e = t["err"]
            if e.startswith("INFRA"):
                raise vlib.Infra("alert harness: " + e)
            key = "C20:alert:panic" if e.startswith("PANIC") else "C20:alert:evaluation-error"
            FIND.add(key, "behaviour %s: %s" % (b["src"], e), rep)
            continue
        exact = True
        for s in t["steps"]:
            if s["a"] != "eval":
                continue
            nev += 1
            chk.count(("alert", b["n"], b["cool"], s.get("shape"), t["op"], s["c"], s.get("d"), s.get("state"), s["sent"]), nontrivial=True)
            if not s["cmp_ok"]:
                FIND.add("C20:alert:condition:%s:%s" % (t["op"], s["shape"]),
                              "condition '%s %s' on %s evaluated to %s, values satisfy it: %s" % (
                                  t["op"], t["thr"], s["detail"], s["eff"], s["c"]), rep)
            if s["eff"] != s["c"]:
                exact = False
        bad = verdicts.get(b["id"])
        if bad:
            key = classify_alert(t, bad)
            ob = t["steps"][bad["step"] - 1]
            what = ("N=%d cool-down=%d: after evaluations %s the law gives state %s / admissible notifications %s, the real alert is %s "
                    "(newest history row %s, evaluation counter %s) and delivered %s (step %d of %s)%s" % (
                        b["n"], b["cool"], ["T" if c else "F" for c in bad["conds"]], bad["law"],
                        sorted(bad["adm"]), bad["state"], ob.get("hstate"), ob.get("neval"), bad["sent"], bad["step"],
                        [s["a"] + (":" + ("T" if s["c"] else "F") + ("!down" if s.get("d") == "fail" else "") if s["a"] == "eval" else "")
                         for s in b["steps"]], ("; handleAlertCondition returned: " + ob["herr"][:160]) if ob.get("herr") else ""))
            FIND.add(key, what, rep)
        elif exact and not any(s["a"] == "edit" for s in b["steps"]):
            # transcription drift: real code vs Alerts.tla (not a verdict).  Histories with a config edit are left out: there the
            # transcription is the pinned (deviating) behaviour and a repaired tree legitimately differs from it
            for ms, rs in zip(b["steps"], t["steps"]):
                if ms["a"] == "eval" and (ms["state"] != rs["state"] or ms["sent"] != rs["sent"]):
                    drift += 1
                    chk.cov.setdefault("transcription_drift_examples", [])
                    if len(chk.cov["transcription_drift_examples"]) < 3:
                        chk.cov["transcription_drift_examples"].append({"model": ms, "real": rs, "src": b["src"]})
                    break
    chk.cov["alert_evaluations"] = nev
    chk.cov["alert_transcription_drift"] = drift
    if traces:
        chk.sample({"kind": "alert-trace", "trace": traces[len(traces) // 2]})
    return drift


# ============================================================================ part 2: keyed stores

ORG = {"t0": 0, "t1": 5}
PLAIN = {"k1": "k1", "k2": "k2"}
NAMESETS = {
    "plain": PLAIN,
    "prefix": {"k1": "ab", "k2": "a"},          # one name is a prefix/substring of the other
    "case": {"k1": "Key", "k2": "key"},
    "unusual": {"k1": "a b&c=d/é?%41 \"q\".json", "k2": "A b&c=d/é?%41 \"q\".json"},
}
ALIAS_KEYS = {"k1": "kvixa|al1", "k2": "kvixa|al2", "k3": "kvixb|al1"}
KINDS = {
    # kind: (generator cfg stem, name sets allowed, has value)
    "dashboard": ("Unique", ["plain", "prefix", "case", "unusual"], True),
    "folder": ("Folder", ["plain", "prefix", "case", "unusual"], False),
    "usq": ("Upsert", ["plain", "prefix", "case", "unusual"], True),
    "alias": ("Alias", ["plain"], False),
    "lookup": ("Lookup", ["plain", "prefix", "case", "unusual"], True),
    "alert": ("Unique", ["plain", "prefix", "case", "unusual"], True),
    "contact": ("Unique", ["plain", "prefix", "case", "unusual"], True),
}
MISSING_ID = "00000000-0000-4000-8000-00000000dead"


def kv_names(kind, nameset):
    if kind == "alias":
        return dict(ALIAS_KEYS)
    m = dict(NAMESETS[nameset])
    if kind == "lookup":
        m = {k: v.replace("/", "_") + ".csv" for k, v in m.items()}
    return m


def kv_val(kind, v):
    if v == 0:
        return None
    if kind == "lookup":
        return "a,b\n" + ("%d,1\n" % v) * (1 + (7 - v) % 4)   # contents of different lengths
    if kind in ("folder", "alias"):
        return ""
    return "v%d" % v


class KvRun:
    """One history on one store kind, on a fresh data directory."""

    def __init__(self, binary, case):
        self.binary, self.case = binary, case
        self.kind, self.names = case["kind"], kv_names(case["kind"], case["nameset"])
        self.rnd = random.Random(case["seed"])
        self.tenants = case["tenants"]
        self.dir = vlib.scratch("c20kv")
        self.dr = None
        self.fails = []     # (key, what)
        self.log = []
        self.drift = 0

    def start(self):
        # cwd = the scratch directory: dashboards resolve "defaultDBs/..." relative to the working directory
        self.dr = vlib.Driver(self.binary, cwd=self.dir)
        self.dr.ok("init", dir=self.dir + "/data/", wait_ms=0)
        self.dr.ok("kv_init", orgs=[ORG[t] for t in self.tenants])

    def snap(self):
        """-> per tenant {name: value} as the store answers, plus anomalies"""
        out, ids, anomalies = {}, {}, []
        for t in self.tenants:
            if self.kind == "lookup" and t != "t0":
                continue
            r = self.dr.ok("kv_snap", kind=self.kind, org=ORG[t], aliases=["al1", "al2"])
            if r.get("err"):
                anomalies.append(("list-error", "%s: %s" % (t, r["err"])))
                out[t], ids[t] = {}, {}
                continue
            if self.kind == "alias":
                out[t] = {"file": r["file_pairs"], "mem": r["mem_pairs"], "getall": r["getall_pairs"],
                          "lookup": r["alias_lookup_pairs"]}
                ids[t] = {}
                continue
            m, im = {}, {}
            for o in r["objs"]:
                nm = o["name"]
                if nm in m:
                    anomalies.append(("duplicate-name", "%s lists two objects named %r" % (t, nm)))
                val = o.get("val")
                if self.kind == "dashboard":
                    val = (val, bool(o.get("fav")))
                m[nm] = val
                im[nm] = o["id"]
                if o.get("get_err"):
                    anomalies.append(("get-fails-for-listed", "%s: %r is listed but get fails: %s" % (t, nm, o["get_err"])))
                if "get_name" in o and o["get_name"] != nm:
                    anomalies.append(("get-differs-from-list", "%s: listed %r, get returns name %r" % (t, nm, o["get_name"])))
                if "get_val" in o and o["get_val"] != o.get("val"):
                    anomalies.append(("get-differs-from-list", "%s: %r listed value %r, get returns %r" % (t, nm, o.get("val"), o["get_val"])))
                if "org" in o and o["org"] != ORG[t]:
                    anomalies.append(("listed-under-wrong-tenant", "%s lists %r which is stored with org %r" % (t, nm, o["org"])))
            if self.kind in ("dashboard", "folder") and sorted(r.get("root_names", [])) != sorted(m):
                anomalies.append(("list-paths-disagree", "%s: list-all %s vs root folder contents %s" % (t, sorted(m), r.get("root_names"))))
            out[t], ids[t] = m, im
        return out, ids, anomalies

    def expect(self, lawt):
        """model tenant map -> what the store must answer"""
        if self.kind == "alias":
            pairs = sorted(self.names[k] for k, v in lawt.items() if v != 0)
            return {"file": pairs, "mem": pairs, "getall": pairs, "lookup": None}
        m = {}
        for k, v in lawt.items():
            if v != 0:
                val = kv_val(self.kind, v)
                m[self.names[k]] = (val, False) if self.kind == "dashboard" else val
        return m

    def same(self, obs, exp):
        if self.kind != "alias":
            return obs == exp
        if obs["file"] != exp["file"] or obs["mem"] != exp["mem"] or obs["getall"] != exp["getall"]:
            return False
        # get-by-alias answers with ONE index of the alias: must be a written pair, and present iff the alias exists
        if not set(obs["lookup"]) <= set(exp["file"]):
            return False
        return {p.split("|")[1] for p in obs["lookup"]} == {p.split("|")[1] for p in exp["file"]}

    def fail(self, key, what):
        self.fails.append(("C20:kv:%s:%s" % (self.kind, key), what))

    def run(self):
        kind = self.kind
        try:
            self.start()
            law = {t: {k: 0 for k in self.names} for t in self.tenants}
            exp = {t: self.expect(law[t]) for t in self.tenants}
            obs, ids, an = self.snap()
            for si, row in enumerate(self.case["steps"]):
                if self.fails:
                    return   # the model state no longer describes this directory: stop at the first finding
                st = row["step"]
                if st["op"] == "restart":
                    if st["clean"]:
                        self.dr.ok("kv_shutdown")
                        self.dr.quit()
                    else:
                        self.dr.kill()
                    self.start()
                    obs, ids, an = self.snap()
                    self.log.append({"op": "restart", "clean": st["clean"], "obs": obs})
                    how = "clean" if st["clean"] else "crash"
                    for a in an:
                        self.fail("restart:" + a[0], a[1])
                    bad = [t for t in obs if not self.same(obs[t], exp[t])]
                    if not bad:
                        continue
                    t = bad[0]
                    e, o = exp[t], obs[t]
                    if kind == "alias" and o["file"] == e["file"] and o["getall"] == e["getall"] and not o["mem"] and e["mem"] and ORG[t] == 0:
                        self.fail("restart:tenant0-aliases-not-reloaded",
                                  "after a %s restart tenant 0's alias->index map is empty (IsAlias/GetAllAliasesAsMapArray answer "
                                  "'no such alias'), written pairs %s" % (how, e["mem"]))
                    elif kind == "alias" and st["clean"] and set(o["file"]) - set(e["file"]) and all(
                            "|".join(reversed(p.split("|"))) in e["file"] for p in set(o["file"]) - set(e["file"])):
                        self.fail("clean-shutdown:inverted-alias-file",
                                  "after a clean shutdown + restart the alias files contain pairs nobody wrote %s "
                                  "(written: %s) - FlushAliasMapToFile wrote alias->index files in the index->alias format" % (
                                      sorted(set(o["file"]) - set(e["file"])), e["file"]))
                    else:
                        self.fail("restart:state-mismatch:" + how, "tenant %s after %s restart: store answers %s, last written state %s" % (
                            t, how, o, e))
                    continue
                t, k, k2 = st["t"], st["k"], st["k2"]
                other = [x for x in self.tenants if x != t]
                name, name2 = self.names[k], self.names[k2]
                val = kv_val(kind, st["v"]) or ""
                args = dict(kind=kind, act=st["op"], org=ORG[t], name=name, name2=name2, val=val)
                foreign = False
                if kind in ("dashboard", "folder", "alert", "contact"):
                    oid = ids.get(t, {}).get(name)
                    if oid is None and st["op"] != "create":
                        # the key is missing in this tenant.  Handlers that take the tenant (dashboards, folders) are probed with
                        # the id of the other tenant's object of that name; alert/contact handlers take no tenant: unknown id
                        if kind in ("dashboard", "folder"):
                            oid = next((ids[o][name] for o in other if name in ids.get(o, {})), None)
                        foreign = oid is not None
                        oid = oid or MISSING_ID
                    args["id"] = oid or ""
                    if st["op"] == "rename" and kind in ("dashboard", "alert", "contact"):
                        cur = obs.get(t, {}).get(name)
                        args["val"] = (cur[0] if isinstance(cur, tuple) else cur) or val   # a rename keeps the value
                if kind == "dashboard" and st["op"] == "update" and foreign and self.rnd.random() < 0.5:
                    args["act"] = "favorite"
                if kind == "alias" and st["op"] == "create" and self.rnd.random() < 0.5:
                    args["post"] = True
                r = self.dr.ok("kv", **args)
                ok = bool(r["ok"])
                obs2, ids2, an = self.snap()
                self.log.append({"op": args["act"], "t": t, "name": name, "name2": name2, "val": args["val"], "foreign": foreign,
                                 "ok": ok, "status": r["status"], "body": r["body"][:200], "obs": obs2})
                for a in an:
                    self.fail(a[0], "after %s(%s,%r): %s" % (st["op"], t, name, a[1]))
                branch = [a for a in st["adm"] if a["ok"] == ok]   # which admissible branch did the store take?
                if ok != st["ok"] and branch:
                    self.drift += 1
                tgt = name2 if st["op"] == "rename" else name
                desc = "%s(%s,%r%s)" % (st["op"], t, name, ("->%r" % name2) if st["op"] == "rename" else "")
                others_same = all(self.same(obs2[o], exp[o]) for o in other if o in obs2)
                if not others_same:
                    o = next(o for o in other if not self.same(obs2[o], exp[o]))
                    if args["act"] == "favorite":
                        self.fail("cross-tenant:favorite-toggles-other-tenants-object",
                                  "tenant %s sent 'favorite' with the id of tenant %s's dashboard %r: accepted (ok=%s) and tenant %s's object "
                                  "changed: %s -> %s" % (t, o, name, ok, o, exp[o], obs2[o]))
                    else:
                        self.fail("other-tenant-disturbed:%s" % st["op"], "%s changed tenant %s: %s -> %s" % (desc, o, exp[o], obs2[o]))
                    continue
                if not branch:
                    # a legal operation was rejected (or an outcome outside the admissible set)
                    if kind in ("alert", "contact") and any(tgt in obs.get(o, {}) for o in other):
                        self.fail("cross-tenant-name-collision:%s-rejected" % st["op"],
                                  "%s is legal in tenant %s but was rejected (%s %s): another tenant has an object named %r" % (
                                      desc, t, r["status"], r["body"][:160], tgt))
                    elif kind == "alias" and ORG[t] != 0 and st["op"] == "create":
                        self.fail("nonzero-tenant:create-rejected", "adding alias %r for tenant org=%d is rejected (%s %s): "
                                  "the tenant's alias directory is never created" % (name, ORG[t], r["status"], r["body"][:120]))
                    else:
                        self.fail("legal-op-rejected:%s" % st["op"], "%s answered ok=%s (%s %s); admissible by the keyed-store law: ok in %s" % (
                            desc, ok, r["status"], r["body"][:160], [a["ok"] for a in st["adm"]]))
                    continue
                want_t = self.expect(branch[0]["after"])
                if args["act"] == "favorite":
                    want_t = exp[t]    # accepted or not, a favourite toggle on a foreign id must leave tenant t's objects alone
                if t in obs2 and not self.same(obs2[t], want_t):
                    unchanged = self.same(obs2[t], exp[t])
                    if kind == "contact" and st["op"] == "create" and ok and unchanged and name in (obs.get(t) or {}):
                        self.fail("create-existing:acked-not-written", "%s of an existing name answered success but the stored value is "
                                  "unchanged (%s): neither rejected nor overwritten" % (desc, obs2[t].get(name)))
                    elif kind == "contact" and st["op"] == "create" and ok and unchanged and any(name in obs.get(o, {}) for o in other):
                        self.fail("cross-tenant-name-collision:create-acked-not-written",
                                  "%s answered success but tenant %s does not list it: another tenant owns that name" % (desc, t))
                    elif kind == "alias" and st["op"] == "create" and ok and unchanged and ORG[t] != 0:
                        self.fail("nonzero-tenant:create-acked-not-written", "adding alias %r for tenant org=%d is acknowledged (%s) but "
                                  "nothing is stored: the tenant's alias directory is never created" % (name, ORG[t], r["status"]))
                    else:
                        self.fail("state-mismatch:%s" % st["op"], "%s ok=%s: store answers %s, keyed-store law says %s" % (
                            desc, ok, obs2.get(t), want_t))
                    continue
                exp[t] = want_t
                obs, ids = obs2, ids2
                if ok != st["ok"]:
                    # the store took another ADMISSIBLE branch than the one the behaviour was generated with (e.g. a legal create
                    # rejected by validation under unusual names): this step was judged on its own admissible outcome, but the
                    # following rows (their admissible sets and `after` maps) were computed for the other branch - stop here
                    self.log.append({"stopped": "admissible branch differs from the generated one at step %d" % (si + 1)})
                    return
        except vlib.DriverDead as e:
            if e.kind == "hang":
                raise vlib.Infra("driver hang in kv replay: %s" % e)
            self.fail("driver-died", str(e))
        finally:
            if self.dr is not None:
                self.dr.quit()
            vlib.rmtree(self.dir)


def kv_case_run(binary, case):
    r = KvRun(binary, case)
    r.run()
    return r


def kv_model(chk):
    for cfg, must in (("MC_KVStore", True), ("MC_KVStore_lax", True), ("MC_KVStore_aliascode", False)):
        r = vlib.run_tlc("MC_KVStore", cfg + ".cfg", workers=4, timeout=900, coverage=(cfg == "MC_KVStore"))
        if must:
            vlib.tlc_must_hold(r, cfg)
            if r.coverage_zero:
                raise vlib.Infra("vacuous actions in %s: %s" % (cfg, r.coverage_zero))
            chk.add_tlc(cfg, r, "ReadsLastWritten/Durable/NothingInvented/Isolation over every admissible outcome branch")
        else:
            if not r.violated:
                raise vlib.Infra("model sensitivity lost: alias-store transcription no longer differs from the law")
            chk.add_tlc(cfg, r, "expected law/code difference: alias map not reloaded for tenant 0, inverted flush (candidate)")


def kv_behaviours(chk):
    quick = chk.tier == "quick"
    stems = sorted(set(v[0] for v in KINDS.values()))
    plan = []
    for s in stems:
        plan.append((s, "deep", "Gen_KVStore_%s_deep" % s, "num=%d" % (40 if quick else 300), 10))
        if s != "Alias":
            plan.append((s, "lax", "Gen_KVStore_%s_lax" % s, "num=%d" % (30 if quick else 150), 6))
        if not quick:
            plan.append((s, "short", "Gen_KVStore_%s" % s, None, None))
    gens = vlib.pmap(lambda p: vlib.tlc_generate("Gen_KVStore", p[2] + ".cfg", timeout=1200, simulate=p[3], depth=p[4],
                                                 seed=chk.seed if p[3] else None), plan, workers=4)
    pool = {}
    for (s, flav, cfg, sim, _), (behs, r) in zip(plan, gens):
        if not behs:
            raise vlib.Infra("no behaviours from " + cfg)
        behs = vlib.dedup(behs)
        chk.add_tlc(cfg + ("/simulate" if sim else ""), r, "behaviour generation: %d distinct histories" % len(behs))
        pool[(s, flav)] = behs
    return pool


def kv_part(chk, binary):
    quick = chk.tier == "quick"
    kv_model(chk)
    pool = kv_behaviours(chk)
    per_kind = 90 if quick else 600
    cases = []
    rnd = random.Random(chk.seed)
    for kind, (stem, namesets, _) in sorted(KINDS.items()):
        strict = pool[(stem, "deep")] + pool.get((stem, "short"), [])
        lax = pool.get((stem, "lax"), [])
        n_lax = per_kind // 5 if lax and "unusual" in namesets else 0
        picks = [(b, rnd.choice([n for n in namesets if n != "unusual"])) for b in vlib.sample(strict, per_kind - n_lax, chk.seed * 31 + len(cases))]
        picks += [(b, "unusual") for b in vlib.sample(lax, n_lax, chk.seed * 37 + len(cases))]
        for b, ns in picks:
            cases.append({"kind": kind, "nameset": ns, "steps": b["steps"], "seed": chk.seed * 104729 + len(cases),
                          "tenants": ["t0"] if kind == "lookup" else ["t0", "t1"]})
    t0 = time.time()
    runs = vlib.pmap(lambda c: kv_case_run(binary, c), cases, workers=WORKERS)
    chk.cov["kv_replay_wall_s"] = round(time.time() - t0, 1)
    drift = 0
    # a signature seen in fewer than 3 histories must reproduce on a fresh directory before it is reported
    # (DESIGN 1: an unreproduced candidate is never a violation)
    keycount = {}
    for r in runs:
        for key in set(k for k, _ in r.fails):
            keycount[key] = keycount.get(key, 0) + 1
    rare = [i for i, r in enumerate(runs) if any(keycount[k] < 3 for k, _ in r.fails)]
    again = vlib.pmap(lambda i: kv_case_run(binary, cases[i]), rare, workers=WORKERS)
    confirmed = {i: set(k for k, _ in r2.fails) for i, r2 in zip(rare, again)}
    unrepro = []
    for idx, (c, r) in enumerate(zip(cases, runs)):
        chk.replayed(1)
        ops = [s["step"]["op"] for s in c["steps"]]
        chk.count(("kv", c["kind"], c["nameset"], tuple(ops)), nontrivial=("restart" in ops and len(ops) > 2))
        drift += r.drift
        seen = set()
        for key, what in r.fails:
            if key in seen:
                continue
            seen.add(key)
            if keycount[key] < 3 and key not in confirmed.get(idx, set()):
                unrepro.append({"key": key, "what": what[:300], "case": c})
                continue
            FIND.add(key, "%s [%s names]: %s" % (c["kind"], c["nameset"], what), {"kind": "kv", "case": c})
    chk.cov["kv_unreproduced_candidates"] = [{"key": u["key"], "what": u["what"]} for u in unrepro[:10]]
    chk.cov["kv_unreproduced_count"] = len(unrepro)
    chk.cov["kv_histories"] = len(cases)
    chk.cov["kv_policy_drift_steps"] = drift
    ex = next((r for r in runs if r.kind == "usq" and len(r.log) > 3), runs[0])
    chk.sample({"kind": "kv-replay", "store": ex.kind, "names": ex.names, "log": ex.log[:6]})


# ============================================================================ entry points

def run(chk):
    binary = vlib.build_driver()
    FIND.by.clear()
    parts = os.environ.get("VERIF_C20_PARTS", "alerts,kv").split(",")   # development aid; default = everything
    drift = alerts_part(chk) if "alerts" in parts else 0
    if "kv" in parts:
        kv_part(chk, binary)
    FIND.flush(chk)
    chk.assumptions += [
        "1 model tick = 1 minute of the code's clock, realised by moving notification_details.last_sent_time into the past",
        "an evaluation is driven at handleAlertCondition with the verdict of the real evaluate*Conditions on a synthetic result; "
        "a result with several values of which only some satisfy the operator counts as whatever the code answered",
        "while a silence setting exists an owed notification may be withheld (the statement does not define silencing)",
        "keyed-store law: an operation on the wrong precondition may be rejected or accepted with the keyed-store effect; with unusual "
        "names a legal operation may be rejected by validation",
        "crash restart = SIGKILL of the driver process (the OS survives); clean restart = FlushAliasMapToFile + alertsHandler.Disconnect first",
    ]
    chk.describe(rule="alerts: every TLC-generated action sequence is replayed on the real package and every evaluation judged by the TLA+ "
                      "law; distinct_nontrivial counts distinct (N, cool-down, result shape, operator, outcome, state, notification) "
                      "evaluation classes. keyed stores: every history is replayed per store on a fresh directory with all read paths "
                      "compared after each step; distinct_nontrivial counts distinct (store, name set, operation sequence) with a restart",
                 exhaustive=False)
    if chk.cov.get("kv_unreproduced_count") and not chk.violations and not chk.known_hits:
        raise vlib.Infra("%d keyed-store candidate(s) did not reproduce on a second run (machine load?): %s" % (
            chk.cov["kv_unreproduced_count"], chk.cov["kv_unreproduced_candidates"][:2]))
    if drift and not chk.violations and not chk.known_hits:
        raise vlib.Infra("SPEC-DRIFT: the real alertsHandler no longer takes the steps spec/Alerts.tla transcribes (%d behaviours differ) "
                         "although every observation satisfies the law; see evidence transcription_drift_examples" % drift)


def replay(chk, path):
    d = json.load(open(path))
    rp = d["replay"]
    print("replaying %s (%s)" % (d["key"], d["what"][:300]))
    if rp["kind"] == "alert":
        b = dict(rp["behaviour"])
        b["id"] = rp["id"]
        sc = vlib.scratch("c20r")
        try:
            inp, outp = os.path.join(sc, "in.ndjson"), os.path.join(sc, "out.ndjson")
            with open(inp, "w") as f:
                f.write(json.dumps({"id": b["id"], "n": b["n"], "cool": b["cool"], "sil": b["sil"], "seed": rp["seed"],
                                    "steps": b["steps"]}) + "\n")
            rc, out = vlib.go_test_inpkg("pkg/alerts/alertsHandler", [INPKG_TEST], "^TestVerifAlertsReplay$",
                                         env={"VERIF_ALERTS_IN": inp, "VERIF_ALERTS_OUT": outp})
            if rc != 0:
                raise vlib.Infra("alert replay harness failed:\n" + out[-3000:])
            traces = [json.loads(l) for l in open(outp) if l.strip()]
        finally:
            vlib.rmtree(sc)
        v, _ = judge(traces)
        for s in traces[0]["steps"]:
            print("  %-9s c=%-5s eff=%-5s deliv=%-4s state=%-8s hist=%-8s neval=%s sent=%-6s att=%s %s %s" % (
                s["a"], s["c"], s.get("eff"), s.get("d"), s.get("state", ""), s.get("hstate", ""), s.get("neval"), s["sent"], s.get("att"),
                s.get("detail", ""), s.get("herr", "")))
        bad = v.get(traces[0]["id"])
        print("law verdict:", json.dumps(bad) if bad else "no law failure reproduced")
        return 1 if bad or traces[0].get("err") else 0
    binary = vlib.build_driver()
    r = kv_case_run(binary, rp["case"])
    for l in r.log:
        print("  ", json.dumps(l)[:600])
    for key, what in r.fails:
        print("FAIL %s :: %s" % (key, what))
    return 1 if r.fails else 0
