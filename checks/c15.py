"""C15 - bulk ingest acknowledges exactly what it stored.

Model: spec/Bulk.tla holds (a) Required(body): the set of admissible outcomes the property statement allows for a
  request body (items in request order, errors flag, stored documents) and (b) a transcription of HandleBulkBody's
  per-line state machine.  TLC compares them for every body of <= MaxLines lines over 13 line classes and proves the
  bodies on which the transcription deviates are exactly four named classes (Characterised) and that the four
  candidate patches remove every deviation (Conforms with Fix* = TRUE).
Binding: every TLC-exported body is concretised (unique marker per line) and posted to the real HandleBulkBody through
  sigdrv `bulk`; the real items are compared position-wise with Required; `flush` + `query *` decides "searchable
  exactly once" per marker; each item is compared with what the same action gets when posted alone ("affects only its
  own item").  The transcription's prediction is compared with the real response as well: a disagreement that is not a
  property violation is SPEC-DRIFT (exit 2).
"""
import json
import os
import random
import re
import time

import vlib

LEVEL = "model_checking"
CLAIMED = True   # set by the lead after review; only claimed checks enter MANIFEST.json

MANIFEST = dict(
    category="model_checking",
    technique="TLA+ spec with the statement's admissible outcomes (Required) and a transcription of HandleBulkBody (Impl); TLC "
              "characterises the deviating bodies exhaustively; every exported body is replayed on the real handler and the "
              "store (flush + search) and compared with Required and with the transcription",
    text=("spec/Bulk.tla: per-line state machine of HandleBulkBody (ReadLine cursor, switch on the action, success / "
          "maxRecordSizeExceeded / overallError / atleastOneSuccess, items, per-index batches) against Required(body), the set of "
          "admissible (items, errors, stored) outcomes of the statement, over 13 line classes (index/create/update/delete/unknown "
          "action, other-index and unstorable-index action, not-JSON, valid / valid-but-column-less / damaged / oversize document, empty line) with and without "
          "final newline. TLC proves Characterised (deviating bodies = 4 named classes) for all bodies <= 4 lines (quick) / 5 lines "
          "(thorough) and Conforms for the patched transcription. All exported bodies (<= 3 lines + seeded sample of 4 in quick; "
          "<= 4 + 10 000 simulated 5-6 line bodies in thorough) are posted to the real handler; items are compared position-wise with "
          "Required, documents are searched by marker after flush, item reports are compared with the stand-alone report of the "
          "same action, and the transcription's prediction is checked against the real response (drift = exit 2)."),
    note=("Observation point is HandleBulkBody's response map (what ProcessBulkRequest serialises when at least one item "
          "succeeded); the HTTP layer replacing an all-failed response by a single error object is not judged. Store-level failure "
          "is induced by an index name no file system accepts (>255 bytes), not by exhausting the 1000 segstore limit. Document "
          "contents are one shape per class with seeded variants, not all JSON. Kibana (.kibana*) indices and the ingest hooks are "
          "not exercised."),
    design_ref="DESIGN.md 4/C15",
)

WORKERS = int(os.environ.get("VERIF_WORKERS", "0")) or min(vlib.NCPU, 8)
MAX_RECORD_SIZE = 63000      # pkg/segment/utils/segconsts.go
LONG_INDEX = "c15-" + "x" * 296
MARK = re.compile(r"^B\d+L\d+$")


# ------------------------------------------------------------------ concretisation

def action_line(kind, index, m, rnd):
    inner = {"_index": index, "_id": m}
    if rnd.random() < 0.3:
        inner = {"_id": m, "_index": index}
    if rnd.random() < 0.2:
        inner["_type"] = "_doc"
    return json.dumps({kind: inner})


def concretise_line(c, m, rnd):
    if c == "IDX":
        return action_line("index", "c15a", m, rnd)
    if c == "IDXB":
        return action_line("index", "c15b", m, rnd)
    if c == "IDXL":
        return action_line("index", LONG_INDEX, m, rnd)
    if c == "CRE":
        return action_line("create", "c15a", m, rnd)
    if c == "UPD":
        return action_line("update", "c15a", m, rnd)
    if c == "DEL":
        return action_line("delete", "c15a", m, rnd)
    if c == "UNK":
        return rnd.choice([json.dumps({"frobnicate": {"_index": "c15a", "_id": m}}),
                           json.dumps({"Index": {"_index": "c15a", "_id": m}}),
                           json.dumps({"index": m, "create": 7}),
                           json.dumps({"unknown": m})])
    if c == "NJ":
        return rnd.choice(["this is not json %s" % m, m, "}{ %s" % m, "<xml>%s</xml>" % m])
    if c == "DOC":
        d = {"lid": m, "v": rnd.randrange(1000), "t": "text %s" % m}
        if rnd.random() < 0.08:     # largest document that must still be accepted
            base = len(json.dumps(dict(d, pad="")))
            d["pad"] = "y" * (MAX_RECORD_SIZE - 1 - base)
        elif rnd.random() < 0.3:
            d["nested"] = {"a": {"b": rnd.randrange(10)}, "l": [1, "two"]}
        return json.dumps(d)
    if c == "NOC":
        # valid documents that have no leaf column after flattening (the timestamp key is not a column); they carry no marker
        return rnd.choice(["{}", json.dumps({"timestamp": int(time.time() * 1000)}), json.dumps({"tags": [], "meta": {}}),
                           json.dumps({"a": {"b": {}}, "l": []}), "{ }"])
    if c == "BAD":
        return rnd.choice(['{"lid":"%s","v":' % m, '["%s"]' % m, '"%s"' % m, '{"lid":"%s","v":{"w":1}' % m])
    if c == "BIG":
        base = len(json.dumps({"lid": m, "pad": ""}))
        n = rnd.choice([MAX_RECORD_SIZE, MAX_RECORD_SIZE, MAX_RECORD_SIZE + 1, MAX_RECORD_SIZE + 5000])
        return json.dumps({"lid": m, "pad": "z" * (n - base)})
    if c == "EMP":
        return ""
    raise vlib.Infra("unknown line class %r" % c)


def concretise(lines, nl, bno, rnd):
    txt = [concretise_line(c, "B%dL%d" % (bno, i + 1), rnd) for i, c in enumerate(lines)]
    return "\n".join(txt) + ("\n" if nl and lines else "")


def item_report(it):
    """real item -> (status, error type)"""
    if not isinstance(it, dict):
        return (None, "not-an-object:%r" % (it,))
    st = it.get("status")
    inner = it.get("index") or it.get("create") or {}
    if st is None and isinstance(inner, dict):
        st = inner.get("status")
    et = None
    if isinstance(inner, dict) and isinstance(inner.get("error"), dict):
        et = inner["error"].get("type")
    return (st, et)


def post(dr, body):
    o = dr.cmd("bulk", org=0, body=body)
    if not o.get("ok"):
        if "PANIC" in str(o.get("err")):
            return {"items": [], "errors": None, "herr": True, "processed": 0, "panic": str(o.get("err"))[:600]}
        raise vlib.Infra("driver op bulk failed: %s" % o.get("err"))
    r = o.get("res") or {}
    resp = r.get("response") or {}
    return {"items": [item_report(i) for i in (resp.get("items") or [])], "errors": resp.get("errors"),
            "herr": "herr" in r, "processed": r.get("processed")}


def stored_markers(dr, t_start, bno, with_long):
    """marker -> count, for records of body bno (markers are unique per line of each body)"""
    out = {}
    anon = 0
    exprs = ["*"] + ([LONG_INDEX] if with_long else [])
    for ex in exprs:
        q = dr.ok("query", org=0, index=ex, text="*", start=t_start, size=5000)
        if "qerr" in q or q.get("hang"):
            raise vlib.Infra("C15 search failed: %s" % q)
        got = {}
        for rec in (q.get("hits") or {}).get("records") or []:
            ms = set(v for v in rec.values() if isinstance(v, str) and MARK.match(v) and v.startswith("B%dL" % bno))
            for m in ms:
                got[m] = got.get(m, 0) + 1
        for m, n in got.items():
            out[m] = max(out.get(m, 0), n)
        if ex == "*":
            # records without any marker: the column-less documents (NOC) of all bodies so far
            anon = sum(1 for rec in (q.get("hits") or {}).get("records") or []
                       if not any(isinstance(v, str) and MARK.match(v) for v in rec.values()))
    return out, anon


# ------------------------------------------------------------------ comparison with Required

def rep(st):
    return "ok" if isinstance(st, int) and st < 300 else "fail"


SIMPLE = ("IDX", "DOC")
ALL_CLASSES = ("IDX", "IDXB", "IDXL", "CRE", "UPD", "DEL", "UNK", "NJ", "DOC", "NOC", "BAD", "BIG", "EMP")
ALL_SHAPES = [(a,) for a in ALL_CLASSES] + [(a, d) for a in ALL_CLASSES for d in ALL_CLASSES]


def judge(b, obs, stored, alone):
    """obs: real response; stored: {line no: count}.  Returns ([], parse) if some admissible outcome matches, else
    (reasons, closest admissible parse); a reason is (key, text).
    Which admissible parse the reasons are stated against only affects the wording/key, never the verdict (a verdict needs
    EVERY admissible parse to fail).  When the real statuses equal the transcription's prediction, the parse that attributes
    items to the same lines as the transcription is used; otherwise the parse with the fewest contradictions."""
    lines = b["lines"]
    items = obs["items"]
    cands = b["required"]
    im = b["impl"]["items"]
    if [i["st"] for i in im] == [i[0] for i in items]:
        f = [s for s in cands if all(s[k]["a"] == im[k]["a"] for k in range(min(len(s), len(im))))]
        if f:
            cands = f
    best = None
    for s in b["required"]:      # the verdict is over ALL admissible parses
        if not _reasons(lines, items, obs, stored, s, alone):
            return [], s
    for s in cands:
        reasons = _reasons(lines, items, obs, stored, s, alone)
        if not reasons:
            return [], s
        rank = (sum(1 for r in reasons if not r[0].startswith("C15:items:")), len(reasons))
        if best is None or rank < best[0]:
            best = (rank, reasons, s)
    return best[1], best[2]


def _reasons(lines, items, obs, stored, s, alone):
    reasons = []
    if len(items) != len(s):
        last = lines[-1] if lines else "-"
        if len(items) == len(s) - 1 and s and s[-1]["d"] == 0 and s[-1]["a"] == len(lines):
            reasons.append(("C15:items:missing-item-for-trailing-action",
                            "%d items for %d actions: the last line (%s) is an action with nothing after it and got no item" % (
                                len(items), len(s), last)))
        else:
            reasons.append(("C15:items:count", "%d items, %d actions in request" % (len(items), len(s))))
    okdocs = set()
    want_anon = 0
    for k in range(min(len(items), len(s))):
        r = rep(items[k][0])
        acls = lines[s[k]["a"] - 1]
        cls = acls + ("+" + lines[s[k]["d"] - 1] if s[k]["d"] else "")
        d = s[k]["d"]
        storefail = acls == "IDXL" and d != 0
        if r not in s[k]["adm"] and not storefail:
            if r == "ok":
                reasons.append(("C15:item:created-for-unstorable", "item %d (%s) reported %s but this action cannot have stored anything" % (k + 1, cls, items[k][0])))
            else:
                reasons.append(("C15:item:failed-for-valid-document", "item %d (%s) reported %s for a valid document" % (k + 1, cls, items[k][0])))
        if r == "ok" and d and lines[d - 1] == "NOC":
            want_anon += 1           # a column-less document: counted below (it has no marker)
        elif r == "ok":
            if d:
                okdocs.add(d)
                n = stored.get(d, 0)
                if n == 0:
                    why = "store-failure" if storefail else "lost"
                    reasons.append(("C15:store:created-but-not-searchable:" + why, "item %d (%s) reported created (%s) but its document is not searchable after flush" % (k + 1, cls, items[k][0])))
                elif n > 1:
                    reasons.append(("C15:store:duplicate", "item %d (%s): document searchable %d times" % (k + 1, cls, n)))
        elif d and stored.get(d, 0) > 0:
            reasons.append(("C15:store:failed-but-searchable", "item %d (%s) reported failed (%s) but its document is searchable" % (k + 1, cls, items[k][0])))
    stray = sorted(set(stored) - okdocs - set(x["d"] for x in s[:len(items)]))
    if stray:
        reasons.append(("C15:store:unacknowledged-document-stored", "line(s) %s (%s) are searchable but belong to no created item" % (
            stray, [lines[i - 1] for i in stray])))
    anon = obs.get("anon", 0)
    if anon < want_anon:
        reasons.append(("C15:store:created-but-not-searchable:column-less", "%d item(s) reported created for documents without any leaf column ({}, only "
                        "the timestamp key, only empty containers), but only %d new record(s) without marker are searchable after flush" % (want_anon, anon)))
    elif anon > want_anon:
        reasons.append(("C15:store:unacknowledged-document-stored", "%d new marker-less record(s) are searchable, %d column-less document(s) were "
                        "acknowledged as created" % (anon, want_anon)))
    failed = sorted(set(i[0] for i in items if rep(i[0]) == "fail"), key=str)
    if bool(obs["errors"]) != bool(failed):
        if failed:
            reasons.append(("C15:errors-flag:false-with-%s-item" % "+".join(str(f) for f in failed),
                            "errors=false although item(s) with status %s failed" % failed))
        else:
            reasons.append(("C15:errors-flag:true-without-failed-item", "errors=true, no failed item"))
    # "affects only its own item": the report of an item equals the report of the same action posted alone
    big_before = False
    for k, t in enumerate(consumed(lines, s, len(items))):
        base = alone.get(t)
        it = items[k]
        if base is not None and tuple(base) != tuple(it):
            cause = "after-oversize" if big_before else "nonlocal"
            reasons.append(("C15:item-status:%s-%s" % (it[0], cause),
                            "item %d (%s) reports %s/%s but the same action posted alone reports %s/%s: another action of the "
                            "request changed it" % (k + 1, "+".join(t), it[0], it[1], base[0], base[1])))
        if len(t) >= 2 and t[0] in ("IDX", "IDXB", "IDXL", "CRE") and t[1] == "BIG":
            big_before = True
    return reasons


def consumed(lines, s, nitems):
    """per real item: the classes of the lines that are the action's own under parse s (action line + its document line;
    an update owns the line after it)"""
    out = []
    for it in s[:nitems]:
        a, d = it["a"], it["d"]
        if d:
            out.append((lines[a - 1], lines[d - 1]))
        elif lines[a - 1] == "UPD" and a < len(lines):
            out.append((lines[a - 1], lines[a]))
        else:
            out.append((lines[a - 1],))
    return out


# ------------------------------------------------------------------ replay of a chunk of bodies on one engine

def run_chunk(binary, chunk):
    d = vlib.scratch("c15")
    dr = None
    res = []
    try:
        dr = vlib.Driver(binary)
        dr.ok("init", dir=d)
        t_start = int(time.time() * 1000) - 3600_000
        prev_anon = 0
        for (bno, seed, b) in chunk:
            rnd = random.Random(seed)
            body = concretise(b["lines"], b["nl"], bno, rnd)
            obs = post(dr, body)
            dr.ok("flush")
            got, anon_total = stored_markers(dr, t_start, bno, "IDXL" in b["lines"])
            stored = {int(m.split("L")[1]): n for m, n in got.items()}
            obs["anon"] = anon_total - prev_anon       # marker-less records that appeared with this body
            prev_anon = anon_total
            res.append((bno, obs, stored))
    except vlib.DriverDead as e:
        if e.kind == "hang" or e.rc in (-15, -9, -2):
            # no answer in time, or the process was killed from outside (SIGTERM/SIGKILL/SIGINT): not the engine's doing
            raise vlib.Infra("engine did not answer in time or was killed from outside (machine load / cleanup?): %s" % e)
        res.append((chunk[len(res)][0], {"died": str(e)}, {}))
    finally:
        if dr is not None:
            dr.quit()
        vlib.rmtree(d)
    return res


def probe_variant(binary):
    """Which of the four candidate patches does the tree under test already contain?  (So that the transcription that
    is checked for drift is the one describing this tree.)"""
    d = vlib.scratch("c15p")
    dr = vlib.Driver(binary)
    try:
        dr.ok("init", dir=d)
        rnd = random.Random(0)
        o1 = post(dr, concretise(["IDX", "BIG"], True, 1, rnd))
        o2 = post(dr, concretise(["IDX", "BIG", "IDX", "BAD"], True, 2, rnd))
        o3 = post(dr, concretise(["IDX"], True, 3, rnd))
        o4 = post(dr, concretise(["IDXL", "DOC"], True, 4, rnd))
        return {"FixErrFlag": bool(o1["errors"]),
                "FixSticky": len(o2["items"]) == 2 and o2["items"][1][0] != 413,
                "FixTrailing": len(o3["items"]) == 1,
                "FixStore": len(o4["items"]) == 1 and rep(o4["items"][0][0]) == "fail"}
    finally:
        dr.quit()
        vlib.rmtree(d)


def standalone_reports(binary, tuples, seed):
    """report of each action (tuple of line classes) when it is the whole request"""
    d = vlib.scratch("c15s")
    dr = vlib.Driver(binary)
    out = {}
    try:
        dr.ok("init", dir=d)
        for i, t in enumerate(sorted(tuples)):
            rnd = random.Random(seed * 31 + i)
            o = post(dr, concretise(list(t), True, 900000 + i, rnd))
            out[t] = o["items"][0] if o["items"] else None
    finally:
        dr.quit()
        vlib.rmtree(d)
    return out


def write_cfg(sc, name, template, flags, maxlines=None):
    txt = open(os.path.join(vlib.SPEC, template)).read()
    for k, v in flags.items():
        txt = re.sub(r"%s = (TRUE|FALSE)" % k, "%s = %s" % (k, "TRUE" if v else "FALSE"), txt)
    if maxlines:
        txt = re.sub(r"MaxLines = \d+", "MaxLines = %d" % maxlines, txt)
    p = os.path.join(sc, name)
    open(p, "w").write(txt)
    return p


def run(chk):
    quick = chk.tier == "quick"
    binary = vlib.build_driver()
    flags = probe_variant(binary)
    chk.cov["code_variant"] = flags
    sc = vlib.scratch("c15cfg")
    try:
        # ---- model
        mc = write_cfg(sc, "MC_Bulk_cur.cfg", "MC_Bulk.cfg", flags, 4 if quick else 5)
        r = vlib.run_tlc("MC_Bulk", "MC_Bulk_cur.cfg", timeout=1500, coverage=quick, extra_files=[mc], workers=WORKERS)
        vlib.tlc_must_hold(r, "Bulk Characterised (deviations of the transcription are exactly the 4 named classes)")
        chk.add_tlc("MC_Bulk", r, "Characterised + TypeOK, all bodies <= %d lines x 12 classes x nl, code variant %s" % (4 if quick else 5, flags))
        r2 = vlib.run_tlc("MC_Bulk", "MC_Bulk_fixed.cfg" if quick else "MC_Bulk_fixed_deep.cfg", timeout=1500, workers=WORKERS)
        vlib.tlc_must_hold(r2, "Bulk Conforms with all four candidate patches")
        chk.add_tlc("MC_Bulk_fixed", r2, "Conforms for the patched transcription (Fix* = TRUE)")
        if not all(flags.values()):
            mu = write_cfg(sc, "MC_Bulk_cur_conf.cfg", "MC_Bulk_unfixed_conforms.cfg", flags)
            r3 = vlib.run_tlc("MC_Bulk", "MC_Bulk_cur_conf.cfg", timeout=600, extra_files=[mu], workers=WORKERS)
            if "Conforms" not in r3.violated:
                raise vlib.Infra("model sensitivity lost: transcription of this tree (%s) no longer violates Conforms" % flags)
            chk.cov["model_candidates"] = "transcription of this tree violates Conforms (candidates, decided by replay)"
        # ---- behaviours
        g = write_cfg(sc, "Gen_Bulk_cur.cfg", "Gen_Bulk.cfg", flags, 4)
        beh, rg = vlib.tlc_generate("Gen_Bulk", "Gen_Bulk_cur.cfg", timeout=1500, extra_files=[g])
        chk.add_tlc("Gen_Bulk", rg, "export of all bodies <= 4 lines")
        if not quick:
            gs = write_cfg(sc, "Gen_Bulk_sim_cur.cfg", "Gen_Bulk_sim.cfg", flags)
            sim, rs = vlib.tlc_generate("Gen_Bulk", "Gen_Bulk_sim_cur.cfg", timeout=900, simulate="num=25000", depth=60,
                                        seed=chk.seed, extra_files=[gs])
            chk.add_tlc("Gen_Bulk_sim", rs, "simulation: bodies of 5-6 lines")
            sim = vlib.dedup([x for x in sim if len(x["lines"]) >= 5], key=lambda x: (tuple(x["lines"]), x["nl"]))
        else:
            sim = []
    finally:
        vlib.rmtree(sc)
    if not beh:
        raise vlib.Infra("no bodies generated")
    if quick:
        short = [b for b in beh if len(b["lines"]) <= 3]
        four = [b for b in beh if len(b["lines"]) == 4]
        # every 4-line body the model flags as deviating shape is rare; sample uniformly + keep interesting ones likelier
        sel = short + vlib.sample(four, 4500, chk.seed)
    else:
        sel = beh + vlib.sample(sim, 10000, chk.seed)
    rnd = random.Random(chk.seed)
    rnd.shuffle(sel)
    jobs = [(i + 1, chk.seed * 1000003 + i, b) for i, b in enumerate(sel)]
    size = 60
    chunks = [jobs[i:i + size] for i in range(0, len(jobs), size)]
    retried = []

    def chunk_with_retry(c):
        # a hang / missing answer under machine load is infrastructure: the chunk is replayed once more on a fresh engine
        try:
            return run_chunk(binary, c)
        except vlib.Infra as e:
            if "hang" not in str(e) and "did not answer" not in str(e):
                raise
            retried.append(str(e)[:200])
            return run_chunk(binary, c)

    results = vlib.pmap(chunk_with_retry, chunks, workers=WORKERS)
    chk.cov["chunks_retried_after_hang"] = len(retried)
    byno = {}
    for rs in results:
        for (bno, obs, stored) in rs:
            byno[bno] = (obs, stored)

    # stand-alone report of every action shape (1 or 2 lines), then judge every body
    alone = standalone_reports(binary, ALL_SHAPES, chk.seed)
    verdicts = {}
    for (bno, seed, b) in jobs:
        if bno not in byno or "died" in byno[bno][0] or "panic" in byno[bno][0]:
            continue
        verdicts[bno], _ = judge(b, byno[bno][0], byno[bno][1], alone)

    found = {}      # key -> (size, text, replay)
    drift = []
    n_dev = 0

    def add(key, text, b, bno, seed, obs, stored):
        size_ = (len(b["lines"]), 0 if b["nl"] else 1, sum({"IDX": 0, "DOC": 1}.get(c, 3) for c in b["lines"]))
        f = found.get(key)
        if f is None or size_ < f["size"]:
            found[key] = {"size": size_, "text": text, "n": (f["n"] if f else 0) + 1,
                          "rp": {"lines": b["lines"], "nl": b["nl"], "bno": bno, "line_seed": seed, "observed": obs,
                                 "stored_lines": stored, "model_dev": b["dev"]}}
        else:
            f["n"] += 1

    for (bno, seed, b) in jobs:
        if bno not in byno:
            continue
        obs, stored = byno[bno]
        chk.replayed(1)
        shape = (tuple(b["lines"]), b["nl"])
        nontrivial = len(b["lines"]) >= 2 and any(c in b["lines"] for c in ("BAD", "BIG", "NJ", "UNK", "DEL", "UPD", "EMP", "IDXL"))
        chk.count(shape, nontrivial=nontrivial)
        if "died" in obs:
            add("C15:engine-died", "engine process died while handling the body: %s" % obs["died"], b, bno, seed, obs, stored)
            continue
        if "panic" in obs:
            add("C15:handler-panic", "HandleBulkBody panicked on body %s: %s" % (b["lines"], obs["panic"][:200]), b, bno, seed, obs, stored)
            continue
        reasons = verdicts[bno]
        seen = set()
        for key, text in reasons:
            if key in seen:
                continue
            seen.add(key)
            add(key, "%s -- body %s%s, items %s, errors=%s" % (text, b["lines"], "" if b["nl"] else " (no final newline)",
                                                            [i[0] for i in obs["items"]], obs["errors"]), b, bno, seed, obs, stored)
        if reasons:
            n_dev += 1
        # conformance of the transcription
        im = b["impl"]
        pred = ([i["st"] for i in im["items"]], bool(im["errors"]), sorted(l for l in im["stored"] if b["lines"][l - 1] != "NOC"),
                sum(1 for l in im["stored"] if b["lines"][l - 1] == "NOC"), bool(im["herr"]))
        real = ([i[0] for i in obs["items"]], bool(obs["errors"]), sorted(k for k, n in stored.items() if n > 0), obs.get("anon", 0), bool(obs["herr"]))
        if pred != real:
            drift.append({"lines": b["lines"], "nl": b["nl"], "predicted": pred, "real": real})
        if len(chk.cov["samples"]) < 3 and len(b["lines"]) >= 3 and nontrivial:
            chk.sample({"lines": b["lines"], "nl": b["nl"], "real_items": obs["items"], "errors": obs["errors"],
                        "stored_lines": stored, "required": b["required"][:2]})

    for key in sorted(found):
        f = found[key]
        chk.violation(key, "%s  [%d bodies with this signature; smallest shown]" % (f["text"], f["n"]), f["rp"])
    chk.cov["bodies_contradicting_statement"] = n_dev
    chk.cov["transcription_mismatches"] = len(drift)
    if drift:
        chk.cov["transcription_mismatch_sample"] = drift[:3]
        if not found:
            raise vlib.Infra("SPEC-DRIFT: HandleBulkBody no longer behaves like spec/Bulk.tla's transcription on %d bodies "
                             "(no property violation observed), e.g. %s" % (len(drift), json.dumps(drift[0])))
    chk.assumptions += [
        "one concrete shape per line class with seeded variants; markers are unique strings found by exact match in any column",
        "store-level failure = index name longer than a file name may be (mkdir fails), standing for every per-index batch error",
        "update is a two-line action, delete a one-line action (Elasticsearch bulk format); a malformed action line may be read "
        "as one or two lines; an empty line may or may not yield an item; without final newline the last action may be rejected",
    ]
    chk.describe(rule="TLC enumerates every body of <= 4 lines over 13 line classes x final newline (and simulates 5-6 line bodies "
                      "in thorough); quick replays all <= 3 lines + a seeded sample of 4500 four-line bodies. distinct_nontrivial = "
                      "distinct (class sequence, newline) bodies of >= 2 lines containing a damaged/oversize/unknown/unsupported/"
                      "empty/unstorable line",
                 exhaustive=not quick)


def replay(chk, path):
    d = json.load(open(path))
    rp = d["replay"]
    binary = vlib.build_driver()
    b = {"lines": rp["lines"], "nl": rp["nl"]}
    res = run_chunk(binary, [(rp["bno"], rp["line_seed"], b)])
    (bno, obs, stored) = res[0]
    body = concretise(rp["lines"], rp["nl"], rp["bno"], random.Random(rp["line_seed"]))
    print("key:", d["key"])
    print("body (%d bytes):" % len(body))
    for ln in body.split("\n"):
        print("   ", ln if len(ln) < 200 else ln[:120] + "...(%d bytes)" % len(ln))
    print("real items:", obs.get("items"), "errors:", obs.get("errors"), "searchable lines:", stored)
    print("recorded  :", rp["observed"].get("items"), rp["observed"].get("errors"), rp["stored_lines"])
    same = [list(i) for i in obs.get("items", [])] == [list(i) for i in rp["observed"].get("items", [])] and \
        obs.get("errors") == rp["observed"].get("errors")
    print("REPRODUCED" if same else "NOT REPRODUCED (behaviour changed)")
    return 1 if same else 0
