"""C12 - trace views agree with the ingested spans.

Model: spec/Traces.tla.  Spans are records [id, trace, span, parent, service, op, status, start, dur]; the four
  views (TraceList, Tree, DepGraph, RED) are pure operators on span sets; a state machine builds every span
  forest in a canonical order, applies at most one malformation (missing parent, second root, root / inner
  parent cycle, self parent, duplicate span id inside a trace - and the two legal oddities: the same span id in
  two traces, a child that starts before its parent) and ingests it in three arrival orders cut into arbitrary
  batches.  TLC checks TreeCoversTrace, TraceListOnce, WindowExcludes, PagesPartition, DepGraphExact, REDEntries,
  BuildIsWellFormed, MalformationBreaksOneTrace, IngestPlanInvariance.
Binding: Gen_Traces exports forests with their expected views (exact for well-formed traces, bounds of the
  admissible set for malformed ones) and ingest plans.  The harness concretises a forest to OTLP protobuf,
  sends it through otlp.ProcessTraceIngest in the plan's order/batching, then calls ProcessSearchTracesRequest,
  ProcessTotalTracesRequest, ProcessGanttChartRequest, ProcessGeneratedDepGraph and ProcessRedTracesIngest
  (+ a search on index red-traces) with synthetic request contexts and compares the JSON bodies.  A few forests
  are replicated ~1100x under fresh ids (many traces / one huge trace) so that the 50-per-page trace list and the
  1000-row paging loops are on the path.  Every view call runs under a 30 s watchdog.
"""
import json
import os
import random
import time

import vlib

LEVEL = "model_checking"
CLAIMED = True

MANIFEST = dict(
    category="model_checking",
    technique="TLA+ spec of the four trace views over span forests incl. malformed forests (TLC exhaustive + simulation) + replay of TLC-generated forests and ingest plans through the OTLP traces handler and the real view handlers",
    text=("spec/Traces.tla defines TraceList(window, page), Tree(trace), DepGraph and RED(service) on span sets and a generator that builds "
          "every forest of <= MaxSpans spans / <= 3 traces / <= 3 services in canonical order, applies at most one malformation "
          "(missing parent, second root, parent cycle with/without root, self parent, duplicate span id in a trace; plus cross-trace "
          "span-id collision and parent/child clock skew, which are legal) and ingests it in 3 orders x all batchings. TLC checks that "
          "a well-formed trace's tree holds every span once beneath its parent, the trace list has every trace rooted in the window "
          "once with counts adding up, pages partition the list, dependency counts = cross-service parent/child pairs, entry spans = "
          "roots + children of cross-service pairs, and that order/batching do not matter. Forests (exhaustive <= 4-5 spans, simulated "
          "5-7 spans) are concretised to OTLP protobuf, ingested via otlp.ProcessTraceIngest per the enumerated plan, and the JSON of "
          "search-traces / total / gantt / generate-dep-graph / RED (red-traces index) is compared with the expected views; malformed "
          "forests are checked against the admissible set {error, partial view without foreign spans} under a 30 s watchdog; a few "
          "forests are replicated ~1100x (thousands of traces, one trace of thousands of spans)."),
    note=("Span start times are set relative to 'now' because the engine searches traces by ingest timestamp; only query windows that "
          "contain the ingest time are used. Relative start/end times, is_anomalous and tags of the gantt view are not compared. RED "
          "rate is accepted as entry-span count divided by 60 (as coded), 300, 5 or 1; a percentile must lie between the two order "
          "statistics around rank p*(n-1)/100 and all percentile answers of a run must follow one usual definition (linear, lower, higher, "
          "nearest, midpoint). ProcessAggregatedDependencyGraphs (stored hourly graphs) and the Jaeger "
          "handlers are not covered."),
    design_ref="DESIGN.md 4/C12, docs/C12.md",
)

WORKERS = min(8, vlib.NCPU)
WATCHDOG = 30
WINDOWS = [("all", -3600_000), ("lo1500", 1500), ("lo2500", 2500)]     # (name, window start in ms relative to the forest's time base)


def write_pick(dirpath, seed, mod, modnone):
    p = os.path.join(dirpath, "TracesPick.tla")
    with open(p, "w") as f:
        f.write("------------------------------ MODULE TracesPick ------------------------------\n"
                "PickSeed == %d\nPickMod == %d\nPickModNone == %d\n"
                "=============================================================================\n" % (seed, mod, modnone))
    return p


def gen_forests(cfg, seed, mod, modnone, simulate=None, depth=None, timeout=1500):
    sc = vlib.scratch("c12pick")
    try:
        p = write_pick(sc, seed, mod, modnone)
        return vlib.tlc_generate("Gen_Traces", cfg, timeout=timeout, extra_files=[p], simulate=simulate, depth=depth,
                                 seed=seed if simulate else None)
    finally:
        vlib.rmtree(sc)


# --------------------------------------------------------------------------- concretisation

def tid_hex(t, r=0):
    return "%08x" % r + "c0ffaa" + "%018x" % t


def sid_hex(s, r=0):
    return "%08x" % r + "ab" + "%06x" % s


def parse_tid(h):
    try:
        if len(h) != 32 or h[8:14] != "c0ffaa":
            return None
        return int(h[:8], 16), int(h[14:], 16)
    except ValueError:
        return None


def parse_sid(h):
    try:
        if len(h) != 16 or h[8:10] != "ab":
            return None
        return int(h[:8], 16), int(h[10:], 16)
    except ValueError:
        return None


STATUS_STR = {"ok": "STATUS_CODE_OK", "error": "STATUS_CODE_ERROR", "unset": "STATUS_CODE_UNSET"}


def concretise(forest, base_ms):
    out = []
    for s in forest["spans"]:
        start_ns = (base_ms + s["start"]) * 1_000_000
        out.append({"trace": tid_hex(s["trace"]), "span": sid_hex(s["span"]), "parent": sid_hex(s["parent"]) if s["parent"] else "",
                    "service": s["service"], "name": "op%d" % s["op"], "status": s["status"],
                    "start": str(start_ns), "end": str(start_ns + s["dur"] * 1_000_000)})
    return out


class Outcome(Exception):
    def __init__(self, kind, detail):
        Exception.__init__(self, detail)
        self.kind, self.detail = kind, detail


def call(dr, op, **kw):
    """one view call under the watchdog; a hang / a process exit become Outcome('hang'|'crash')"""
    try:
        o = dr.cmd(op, timeout=WATCHDOG, **kw)
    except vlib.DriverDead as e:
        raise Outcome("hang" if e.kind == "hang" else "crash", "%s: %s" % (op, e))
    if not o.get("ok"):
        if "PANIC" in str(o.get("err")):
            raise Outcome("panic", "%s: %s" % (op, str(o.get("err"))[:600]))
        raise vlib.Infra("driver op %s failed: %s" % (op, o.get("err")))
    return o.get("res")


def jbody(res):
    try:
        return json.loads(res["body"])
    except (ValueError, TypeError, KeyError):
        return None


# --------------------------------------------------------------------------- comparison of the four views

def check_search(forest, res, wname, wlo, fails, mult=1):
    """res: {status, body}.  mult: span-count multiplier (trace-mode replication)"""
    mk = forest["mal"]["kind"]
    if res["status"] != 200 or jbody(res) is None or "traces" not in (jbody(res) or {}):
        if forest["wf"]:
            fails.append(("search:error-on-wellformed-forest", mk, "search traces (window %s) answered %s %r although every trace is well-formed" % (
                wname, res["status"], res["body"][:200])))
        return None
    listed = jbody(res)["traces"] or []
    seen = {}
    for e in listed:
        pt = parse_tid(e.get("trace_id", ""))
        if pt is None or pt[0] != 0 or pt[1] < 1 or pt[1] > len(forest["traces"]):
            fails.append(("search:unknown-trace", mk, "window %s lists trace %r which was never ingested" % (wname, e.get("trace_id"))))
            continue
        t = pt[1]
        if t in seen:
            fails.append(("search:listed-twice", mk, "window %s lists trace %d twice" % (wname, t)))
        seen[t] = e
    for tr in forest["traces"]:
        t = tr["trace"]
        e = seen.get(t)
        if tr["wf"]:
            root = tr["roots"][0]
            inw = root["start"] >= wlo
            if inw and e is None:
                fails.append(("search:trace-missing", mk, "window %s: well-formed trace %d (root op%d at +%dms) is not listed" % (wname, t, root["op"], root["start"])))
            elif not inw and e is not None:
                fails.append(("search:trace-outside-window", mk, "window %s starts at +%dms but lists trace %d rooted at +%dms" % (wname, wlo, t, root["start"])))
            elif e is not None:
                if e.get("service_name") != root["service"] or e.get("operation_name") != "op%d" % root["op"]:
                    fails.append(("search:root-service-op", mk, "trace %d: listed root %s/%s, root span is %s/op%d" % (
                        t, e.get("service_name"), e.get("operation_name"), root["service"], root["op"])))
                if e.get("span_count") != tr["nspans"] * mult:
                    fails.append(("search:span-count", mk, "trace %d: span_count %r, trace has %d spans" % (t, e.get("span_count"), tr["nspans"] * mult)))
                if e.get("span_errors_count") != tr["nerr"] * mult:
                    fails.append(("search:error-count", mk, "trace %d: span_errors_count %r, trace has %d error spans of %d" % (
                        t, e.get("span_errors_count"), tr["nerr"] * mult, tr["nspans"] * mult)))
        elif e is not None:
            # malformed trace: a partial view is admissible, foreign / invented content is not
            roots = [(r["service"], "op%d" % r["op"]) for r in tr["roots"]]
            if (e.get("service_name"), e.get("operation_name")) not in roots:
                fails.append(("search:malformed-root-not-a-root", mk, "malformed trace %d listed with root %s/%s, its root spans are %s" % (
                    t, e.get("service_name"), e.get("operation_name"), roots)))
            if not (0 <= (e.get("span_count") or 0) <= tr["nspans"]) or not (0 <= (e.get("span_errors_count") or 0) <= tr["nerr"]):
                fails.append(("search:malformed-foreign-counts", mk, "malformed trace %d listed with %r spans / %r errors, it has %d / %d" % (
                    t, e.get("span_count"), e.get("span_errors_count"), tr["nspans"], tr["nerr"])))
    return seen


def check_gantt(forest, tr, res, fails):
    mk = forest["mal"]["kind"]
    t = tr["trace"]
    spans = [s for s in forest["spans"] if s["trace"] == t]
    body = jbody(res)
    if res["status"] != 200 or not isinstance(body, dict):
        if tr["wf"]:
            fails.append(("gantt:error-on-wellformed-trace", mk, "gantt of well-formed trace %d answered %s %r" % (t, res["status"], res["body"][:200])))
        return
    nodes = []          # (span no, op, service, parent span no)

    def walk(n, parent, depth):
        if depth > 10000:
            return
        ps = parse_sid(n.get("span_id", ""))
        nodes.append((ps[1] if ps and ps[0] == 0 else None, n.get("operation_name"), n.get("service_name"), parent, n.get("span_id")))
        for c in (n.get("children") or []):
            walk(c, ps[1] if ps else None, depth + 1)
    walk(body, 0, 0)
    own = {}
    for s in spans:
        own.setdefault((s["span"], "op%d" % s["op"], s["service"]), []).append(s)
    used = set()
    for (sno, op, svc, parent, raw) in nodes:
        cands = own.get((sno, op, svc))
        if not cands:
            fails.append(("gantt:foreign-span", mk, "gantt of trace %d contains span %r (%s/%s) which is no span of that trace" % (t, raw, svc, op)))
            continue
        s = cands[0]
        if s["id"] in used:
            fails.append(("gantt:span-twice", mk, "gantt of trace %d contains span op%d twice" % (t, s["id"])))
        used.add(s["id"])
        if s["parent"] != parent and not (parent == 0 and s["parent"] == 0):
            fails.append(("gantt:wrong-parent", mk, "gantt of trace %d puts op%d beneath span %r, its parent_span_id is %r" % (t, s["id"], parent, s["parent"])))
    if tr["wf"]:
        missing = [s["id"] for s in spans if s["id"] not in used]
        if missing:
            fails.append(("gantt:span-missing", mk, "gantt of well-formed trace %d lacks spans %s (has %d of %d)" % (
                t, ["op%d" % i for i in missing], len(used), len(spans))))


def check_dep(forest, res, fails, mult=1, mk=None):
    mk = mk or forest["mal"]["kind"]
    body = jbody(res)
    exp = {(e["from"], e["to"]): e["n"] * mult for e in forest["dep"]}
    if res["status"] != 200 or not isinstance(body, dict):
        if not exp and res["status"] == 200:
            return          # nothing to report, empty body
        if forest["wf"]:
            fails.append(("depgraph:error-on-wellformed-forest", mk, "dependency graph answered %s %r" % (res["status"], res["body"][:200])))
        return
    got = {}
    for a, m in body.items():
        if isinstance(m, dict):
            for b, n in m.items():
                got[(a, b)] = n
    for e, n in got.items():
        if e not in exp:
            fails.append(("depgraph:invented-edge", mk, "dependency graph has %s->%s (%s); no parent/child pair of one trace crosses these services" % (e[0], e[1], n)))
        elif n > exp[e]:
            fails.append(("depgraph:overcount", mk, "dependency graph counts %s->%s %s times, there are %d such parent/child pairs" % (e[0], e[1], n, exp[e])))
    if forest["wf"]:
        for e, n in exp.items():
            if got.get(e, 0) < n:
                fails.append(("depgraph:undercount", mk, "dependency graph counts %s->%s %s times, there are %d such parent/child pairs" % (
                    e[0], e[1], got.get(e, 0), n)))


def pct_bounds(durs, p):
    d = sorted(durs)
    n = len(d)
    return d[(p * (n - 1)) // 100], d[(p * (n - 1) + 99) // 100]


class Fails(list):
    """failures of one case + the percentile observations (service, p, reported value, lo, hi, frac) that are judged over the
    whole run: see percentile_definitions()"""
    def __init__(self):
        list.__init__(self)
        self.obs = []


PCT_DEFS = {
    "linear": lambda lo, hi, fr: lo + (hi - lo) * fr / 100.0,
    "lower": lambda lo, hi, fr: lo,
    "higher": lambda lo, hi, fr: hi,
    "nearest": lambda lo, hi, fr: lo if fr < 50 else hi,
    "midpoint": lambda lo, hi, fr: (lo + hi) / 2.0,
}


def matching_defs(o):
    return set(name for name, fn in PCT_DEFS.items() if abs(fn(o["lo"], o["hi"], o["frac"]) - o["got"]) <= 1e-6)


def check_red(forest, records, fails, mult=1, mk=None):
    mk = mk or forest["mal"]["kind"]
    by_svc = {}
    for r in records:
        if r.get("service") in by_svc:
            fails.append(("red:service-twice", mk, "two RED records for service %r after one RED run" % r.get("service")))
        by_svc[r.get("service")] = r
    spans = {s["id"]: s for s in forest["spans"]}
    exp = {e["service"]: e for e in forest["red"]}
    for svc, r in by_svc.items():
        if svc not in exp:
            fails.append(("red:unknown-service", mk, "RED record for service %r which no span carries" % svc))
    for svc, e in exp.items():
        r = by_svc.get(svc)
        rate = r.get("rate") if r else 0
        cnts = [rate * k for k in (60, 300, 5, 1)] if r else [0]
        if forest["wf"]:
            want = e["count"] * mult
            if r is None:
                if want > 0:
                    fails.append(("red:service-missing", mk, "no RED record for service %s which has %d entry spans" % (svc, want)))
                continue
            if not any(abs(c - want) < 1e-6 * max(1, want) for c in cnts):
                fails.append(("red:rate", mk, "service %s: rate %r (x60 = %.3f) but it has %d entry spans (%s) of %d spans" % (
                    svc, rate, rate * 60, want, ["op%d" % i for i in e["entries"]], sum(1 for s in forest["spans"] if s["service"] == svc) * mult)))
            if want > 0:
                werr = 100.0 * e["nerr"] / e["count"]
                if abs((r.get("error_rate") or 0) - werr) > 1e-6:
                    fails.append(("red:error-rate", mk, "service %s: error_rate %r, %d of %d entry spans are errors (%.4f%%)" % (
                        svc, r.get("error_rate"), e["nerr"], e["count"], werr)))
                for pe in e["pct"]:
                    lo, hi = (pe["lo"], pe["hi"]) if mult == 1 else pct_bounds([spans[i]["dur"] for i in e["entries"]] * mult, pe["p"])
                    g = r.get("p%d" % pe["p"])
                    if g is None or g < lo - 1e-6 or g > hi + 1e-6:
                        fails.append(("red:percentile", mk, "service %s: p%d = %r, entry span durations %s ms put it in [%s, %s]" % (
                            svc, pe["p"], g, sorted(spans[i]["dur"] for i in e["entries"]), lo, hi)))
                    elif lo != hi and hasattr(fails, "obs"):
                        n_e = e["count"] * mult
                        fails.obs.append({"svc": svc, "p": pe["p"], "got": g, "lo": lo, "hi": hi, "mk": mk,
                                          "frac": pe.get("frac") if mult == 1 else (pe["p"] * (n_e - 1)) % 100,
                                          "durs": sorted(spans[i]["dur"] for i in e["entries"]) if n_e <= 12 else "%d values" % n_e})
        elif r is not None:
            lo_c, hi_c = len(e["def"]), len(e["poss"])
            if not any(lo_c - 1e-6 <= c <= hi_c + 1e-6 for c in cnts):
                fails.append(("red:malformed-rate-out-of-bounds", mk, "service %s: rate %r (x60 = %.3f), between %d and %d of its spans can be entry spans" % (
                    svc, rate, rate * 60, lo_c, hi_c)))
            ds = [spans[i]["dur"] for i in e["poss"]]
            for p in (50, 90, 95, 99):
                g = r.get("p%d" % p)
                if ds and g is not None and not (min(ds) - 1e-6 <= g <= max(ds) + 1e-6):
                    fails.append(("red:malformed-percentile-foreign", mk, "service %s: p%d = %r outside the durations %s of its possible entry spans" % (svc, p, g, sorted(ds))))


# --------------------------------------------------------------------------- one forest on the real engine

def perm_batches(plan, spans):
    arr = [spans[i - 1] for i in plan["arrival"]]
    return arr, plan["batches"]


def replay_forest(binary, case):
    """Returns (fails [(what, malkind, detail)], outcome or None, stats)."""
    forest, plan = case["forest"], case["plan"]
    d = vlib.scratch("c12")
    fails = Fails()
    dr = None
    views = 0
    try:
        dr = vlib.Driver(binary)
        dr.ok("init", dir=d)
        now_ms = int(time.time() * 1000)
        base_ms = now_ms - 60_000
        spans = concretise(forest, base_ms)
        arr, batches = perm_batches(plan, spans)
        if plan["flushEach"]:
            pos = 0
            for n in batches:
                r = call(dr, "tr_ingest", spans=arr[pos:pos + n], batches=[n])
                pos += n
                if r["statuses"] != [200]:
                    fails.append(("ingest:rejected", forest["mal"]["kind"], "OTLP export of %d spans answered %s %s" % (n, r["statuses"], r["bodies"])))
                call(dr, "flush")
        else:
            r = call(dr, "tr_ingest", spans=arr, batches=batches)
            if any(s != 200 for s in r["statuses"]) or r["sent"] != len(arr):
                fails.append(("ingest:rejected", forest["mal"]["kind"], "OTLP export answered %s %s" % (r["statuses"], r["bodies"])))
        call(dr, "flush")
        end = str(now_ms + 3600_000)
        for wname, wlo in WINDOWS[:case.get("nwin", 3)]:
            body = {"searchText": "*", "startEpoch": str(base_ms + wlo), "endEpoch": end, "queryLanguage": "Splunk QL", "page": 1}
            res = call(dr, "tr_search", body=json.dumps(body))
            views += 1
            check_search(forest, res, wname, wlo, fails)
        body = {"searchText": "*", "startEpoch": str(base_ms - 3600_000), "endEpoch": end, "queryLanguage": "Splunk QL"}
        res = call(dr, "tr_total", body=json.dumps(body))
        views += 1
        if forest["wf"] and res["body"].strip() != str(len(forest["traces"])):
            fails.append(("total:count", forest["mal"]["kind"], "total traces = %r, %d traces were ingested" % (res["body"][:50], len(forest["traces"]))))
        for tr in forest["traces"]:
            b = dict(body)
            b["searchText"] = "trace_id=" + tid_hex(tr["trace"])
            res = call(dr, "tr_gantt", body=json.dumps(b))
            views += 1
            check_gantt(forest, tr, res, fails)
        res = call(dr, "tr_depgraph", body=json.dumps(body))
        views += 1
        check_dep(forest, res, fails)
        if time.time() * 1000 - now_ms > 240_000:
            raise vlib.Infra("case took > 4 min before the RED run (machine load): the spans leave RED's 5-minute window")
        call(dr, "tr_red")
        call(dr, "flush")
        r = call(dr, "query", index="red-traces", text="*", start=now_ms - 3600_000, end=now_ms + 3600_000, size=1000)
        views += 1
        recs = ((r or {}).get("hits") or {}).get("records") or []
        check_red(forest, recs, fails)
        return fails, None, views
    except Outcome as o:
        return fails, o, views
    finally:
        if dr is not None:
            try:
                dr.quit()
            except Exception:
                pass
        vlib.rmtree(d)


def replay_large(binary, case):
    """A well-formed forest replicated `reps` times: mode 'forest' = reps x traces, mode 'trace' = every trace reps x as large."""
    forest, reps, mode = case["forest"], case["reps"], case["mode"]
    d = vlib.scratch("c12L")
    fails = Fails()
    dr = None
    views = 0
    mk = "large-" + mode
    try:
        dr = vlib.Driver(binary)
        dr.ok("init", dir=d)
        now_ms = int(time.time() * 1000)
        base_ms = now_ms - 60_000
        spans = concretise(forest, base_ms)
        r = call(dr, "tr_ingest", spans=spans, batches=[len(spans)], replicas=reps, replica_mode=mode, chunk=case.get("chunk", 100))
        if any(s != 200 for s in r["statuses"]) or r["sent"] != len(spans) * reps:
            fails.append(("ingest:rejected", mk, "OTLP export answered %s, sent %s of %d" % (r["statuses"], r["sent"], len(spans) * reps)))
        call(dr, "flush")
        end = str(now_ms + 3600_000)
        body = {"searchText": "*", "startEpoch": str(base_ms - 3600_000), "endEpoch": end, "queryLanguage": "Splunk QL"}
        ntr = len(forest["traces"]) * (reps if mode == "forest" else 1)
        res = call(dr, "tr_total", body=json.dumps(body))
        views += 1
        if res["body"].strip() != str(ntr):
            fails.append(("total:count", mk, "total traces = %r, %d traces were ingested" % (res["body"][:50], ntr)))
        # all pages of the trace list: every trace exactly once, with the right root and counts
        mult = reps if mode == "trace" else 1
        seen = {}
        npages = (ntr + 49) // 50
        for page in range(1, npages + 2):
            b = dict(body)
            b["page"] = page
            res = call(dr, "tr_search", body=json.dumps(b))
            views += 1
            jb = jbody(res)
            if res["status"] != 200 or not isinstance(jb, dict):
                fails.append(("search:error-on-wellformed-forest", mk, "page %d of the trace list answered %s %r" % (page, res["status"], res["body"][:200])))
                break
            lst = jb.get("traces") or []
            if page == npages + 1 and lst:
                fails.append(("search:page-beyond-end", mk, "page %d (beyond the last) lists %d traces" % (page, len(lst))))
            for e in lst:
                pt = parse_tid(e.get("trace_id", ""))
                if pt is None or not (1 <= pt[1] <= len(forest["traces"])) or pt[0] >= (reps if mode == "forest" else 1):
                    fails.append(("search:unknown-trace", mk, "page %d lists trace %r which was never ingested" % (page, e.get("trace_id"))))
                    continue
                if pt in seen:
                    fails.append(("search:listed-twice", mk, "trace %r is on page %d and on page %d" % (e.get("trace_id"), seen[pt], page)))
                seen[pt] = page
                tr = forest["traces"][pt[1] - 1]
                root = tr["roots"][0]
                if e.get("service_name") != root["service"] or e.get("operation_name") != "op%d" % root["op"]:
                    fails.append(("search:root-service-op", mk, "trace %r: listed root %s/%s, root span is %s/op%d" % (
                        e.get("trace_id"), e.get("service_name"), e.get("operation_name"), root["service"], root["op"])))
                if e.get("span_count") != tr["nspans"] * mult or e.get("span_errors_count") != tr["nerr"] * mult:
                    fails.append(("search:span-count", mk, "trace %r: %r spans / %r errors listed, it has %d / %d" % (
                        e.get("trace_id"), e.get("span_count"), e.get("span_errors_count"), tr["nspans"] * mult, tr["nerr"] * mult)))
        if len(seen) != ntr and not any(f[0].startswith("search:error") for f in fails):
            fails.append(("search:trace-missing", mk, "the %d pages of the trace list hold %d of the %d ingested traces" % (npages, len(seen), ntr)))
        # span trees
        rnd = random.Random(case["seed"])
        for tr in forest["traces"]:
            for rr in ([0] if mode == "trace" else sorted(set([0, reps - 1, rnd.randrange(reps)]))):
                b = dict(body)
                b["searchText"] = "trace_id=" + tid_hex(tr["trace"], rr)
                res = call(dr, "tr_gantt", body=json.dumps(b))
                views += 1
                jb = jbody(res)
                if res["status"] != 200 or not isinstance(jb, dict):
                    fails.append(("gantt:error-on-wellformed-trace", mk, "gantt of trace %s answered %s %r" % (tid_hex(tr["trace"], rr), res["status"], res["body"][:200])))
                    continue
                byid = {s["span"]: s for s in forest["spans"] if s["trace"] == tr["trace"]}
                rootspan = tr["roots"][0]
                count = [0]
                seen_nodes = set()
                stack = [(jb, None)]
                while stack:
                    n, par = stack.pop()
                    count[0] += 1
                    ps = parse_sid(n.get("span_id", ""))
                    if ps is None or ps[1] not in byid:
                        fails.append(("gantt:foreign-span", mk, "gantt of %s contains span %r" % (tid_hex(tr["trace"], rr), n.get("span_id"))))
                        continue
                    if ps in seen_nodes:
                        fails.append(("gantt:span-twice", mk, "gantt of %s contains span %r twice" % (tid_hex(tr["trace"], rr), n.get("span_id"))))
                    seen_nodes.add(ps)
                    s = byid[ps[1]]
                    if mode == "forest":
                        want_par = (rr, s["parent"]) if s["parent"] else None
                        if ps[0] != rr:
                            fails.append(("gantt:foreign-span", mk, "gantt of replica %d contains span %r of replica %d" % (rr, n.get("span_id"), ps[0])))
                    else:
                        root_no = [x for x in forest["spans"] if x["id"] == rootspan["id"]][0]["span"]
                        want_par = (ps[0], s["parent"]) if s["parent"] else ((0, root_no) if ps[0] > 0 else None)
                    if par != want_par:
                        fails.append(("gantt:wrong-parent", mk, "gantt of %s puts span %r beneath %r, expected %r" % (tid_hex(tr["trace"], rr), n.get("span_id"), par, want_par)))
                    if n.get("service_name") != s["service"] or n.get("operation_name") != "op%d" % s["op"]:
                        fails.append(("gantt:foreign-span", mk, "span %r shown as %s/%s, ingested as %s/op%d" % (
                            n.get("span_id"), n.get("service_name"), n.get("operation_name"), s["service"], s["op"])))
                    for c in (n.get("children") or []):
                        stack.append((c, ps))
                if count[0] != tr["nspans"] * mult:
                    fails.append(("gantt:span-missing", mk, "gantt of %s holds %d spans, the trace has %d" % (tid_hex(tr["trace"], rr), count[0], tr["nspans"] * mult)))
        # dependency graph: replicas add pairs; in trace mode the replica roots hang beneath the base root (same service: no new pair)
        res = call(dr, "tr_depgraph", body=json.dumps(body))
        views += 1
        check_dep(forest, res, fails, mult=reps, mk=mk)
        # RED
        if time.time() * 1000 - now_ms > 240_000:
            raise vlib.Infra("large case took > 4 min before the RED run (machine load): the spans leave RED's 5-minute window")
        call(dr, "tr_red")
        call(dr, "flush")
        r = call(dr, "query", index="red-traces", text="*", start=now_ms - 3600_000, end=now_ms + 3600_000, size=1000)
        views += 1
        recs = ((r or {}).get("hits") or {}).get("records") or []
        if mode == "forest":
            check_red(forest, recs, fails, mult=reps, mk=mk)
        else:
            # replica roots are children of the base root (same service): they stop being entry spans
            f2 = json.loads(json.dumps(forest))
            spans_by = {s["id"]: s for s in forest["spans"]}
            by_svc = {s["service"]: [] for s in forest["spans"]}
            for e in forest["red"]:
                base_e = e["entries"]
                durs = []
                nerr = 0
                for i in base_e:
                    k = reps if spans_by[i]["parent"] else 1
                    durs += [spans_by[i]["dur"]] * k
                    nerr += k * (1 if spans_by[i]["status"] == "error" else 0)
                by_svc[e["service"]] = (durs, nerr)
            by = {r_.get("service"): r_ for r_ in recs}
            for svc, (durs, nerr) in by_svc.items():
                rec = by.get(svc)
                if not durs:
                    continue
                if rec is None:
                    fails.append(("red:service-missing", mk, "no RED record for service %s which has %d entry spans" % (svc, len(durs))))
                    continue
                if not any(abs(rec.get("rate", 0) * k - len(durs)) < 1e-6 * len(durs) for k in (60, 300, 5, 1)):
                    fails.append(("red:rate", mk, "service %s: rate %r (x60 = %.2f) but it has %d entry spans" % (svc, rec.get("rate"), rec.get("rate", 0) * 60, len(durs))))
                if abs((rec.get("error_rate") or 0) - 100.0 * nerr / len(durs)) > 1e-6:
                    fails.append(("red:error-rate", mk, "service %s: error_rate %r, %d of %d entry spans are errors" % (svc, rec.get("error_rate"), nerr, len(durs))))
                for p in (50, 90, 95, 99):
                    lo, hi = pct_bounds(durs, p)
                    g = rec.get("p%d" % p)
                    if g is None or g < lo - 1e-6 or g > hi + 1e-6:
                        fails.append(("red:percentile", mk, "service %s: p%d = %r, expected within [%s, %s]" % (svc, p, g, lo, hi)))
        return fails, None, views
    except Outcome as o:
        return fails, o, views
    finally:
        if dr is not None:
            try:
                dr.quit()
            except Exception:
                pass
        vlib.rmtree(d)


def run_case(binary, case):
    fn = replay_large if case.get("reps") else replay_forest
    fails, outcome, views = fn(binary, case)
    if outcome is not None and outcome.kind == "hang":
        # a hang must persist at low machine load: run the case once more before it counts
        time.sleep(2)
        fails2, outcome2, _ = fn(binary, case)
        if outcome2 is None or outcome2.kind != "hang":
            outcome = outcome2
            fails = fails2
    return fails, outcome, views


# --------------------------------------------------------------------------- driver

def run(chk):
    quick = chk.tier == "quick"
    if os.environ.get("VERIF_SKIP_MODEL"):        # development switch (mutation runs): binding only
        return run_binding(chk, quick)
    # ---- model
    # the model runs are independent: side by side
    jobs = [("MC_Traces", "MC_Traces.cfg", "build + malformation + every ingest plan, MaxSpans=3: all invariants incl. IngestPlanInvariance"),
            ("MC_Traces_forest", "MC_Traces_forest4.cfg" if quick else "MC_Traces_forest.cfg",
             "every forest with <= %d spans x every malformation: view invariants" % (4 if quick else 5)),
            ("MC_Traces_plan", "MC_Traces_plan.cfg", "every ingest plan for 1..8 spans"),
            ("MC_Traces_globalids", "MC_Traces_globalids.cfg", "")]
    mw = max(2, WORKERS // 2)
    res = vlib.pmap(lambda j: vlib.run_tlc("MC_Traces", j[1], workers=mw, timeout=1500, coverage=(j[1] == "MC_Traces.cfg" and not quick)),
                    jobs, workers=len(jobs))
    for (name, cfg, note), r in zip(jobs[:3], res[:3]):
        vlib.tlc_must_hold(r, name)
        chk.add_tlc(name, r, note)
    r2 = res[3]
    if "BuildIsWellFormed" not in r2.violated:
        raise vlib.Infra("model sensitivity lost: ResolveInTrace=FALSE no longer violates BuildIsWellFormed")
    chk.cov["model_sensitivity"] = "ResolveInTrace=FALSE (parents resolved by span id alone) violates BuildIsWellFormed on cross-trace id collisions (expected)"

    run_binding(chk, quick)


def run_binding(chk, quick):
    # ---- behaviours
    gens = [lambda: gen_forests("Gen_Traces_forest.cfg" if quick else "Gen_Traces_forest_deep.cfg", chk.seed, 300 if quick else 700, 20 if quick else 60),
            lambda: gen_forests("Gen_Traces_forest_sim.cfg", chk.seed, 1, 1, simulate="num=%d" % (150 if quick else 2500), depth=14),
            # RED-rich forests: 6..8 spans, two services, some service with >= 5 entry spans (durations repeat: Durs in Traces.tla)
            lambda: gen_forests("Gen_Traces_forest_red.cfg", chk.seed, 1, 1, simulate="num=%d" % (1500 if quick else 12000), depth=14),
            lambda: vlib.tlc_generate("Gen_Traces", "Gen_Traces_plan.cfg", timeout=600)]
    (f_ex, g1), (f_sim, g2), (f_red, g4), (plans, g3) = vlib.pmap(lambda fn: fn(), gens, workers=len(gens))
    chk.add_tlc("Gen_Traces_forest_red", g4, "well-formed forests with >= 5 entry spans in one service, simulation (%d forests)" % len(f_red))
    chk.add_tlc("Gen_Traces_forest", g1, "forests, exhaustive <= %d spans, seed filter (%d forests)" % (4 if quick else 5, len(f_ex)))
    chk.add_tlc("Gen_Traces_forest_sim", g2, "forests with 5..7 spans, simulation (%d forests)" % len(f_sim))
    chk.add_tlc("Gen_Traces_plan", g3, "ingest plans (%d)" % len(plans))
    if not f_ex or not plans:
        raise vlib.Infra("no behaviours generated (forests=%d sim=%d plans=%d)" % (len(f_ex), len(f_sim), len(plans)))
    forests = vlib.dedup(f_ex + f_sim, key=lambda f: json.dumps(f["spans"], sort_keys=True))
    rnd = random.Random(chk.seed)
    forests.sort(key=lambda f: json.dumps(f["spans"], sort_keys=True))
    rnd.shuffle(forests)
    # stratify: about half well-formed (none / skew / dupacross), the rest spread over the malformations
    by_kind = {}
    for f in forests:
        by_kind.setdefault(f["mal"]["kind"], []).append(f)
    n_total = 150 if quick else 3000
    picked = []
    legal = ["none", "skew", "dupacross"]
    bad = [k for k in sorted(by_kind) if k not in legal]
    quota = {"none": n_total * 30 // 100, "skew": n_total * 8 // 100, "dupacross": n_total * 10 // 100}
    for k in bad:
        quota[k] = (n_total - sum(quota[x] for x in legal)) // max(1, len(bad))
    for k, q in quota.items():
        picked += by_kind.get(k, [])[:q]
    plans_by_n = {}
    for p in plans:
        plans_by_n.setdefault(p["n"], []).append(p)
    for n in plans_by_n:
        plans_by_n[n].sort(key=lambda p: json.dumps(p, sort_keys=True))
    f_red = vlib.dedup(f_red, key=lambda f: json.dumps(f["spans"], sort_keys=True))
    f_red.sort(key=lambda f: json.dumps(f["spans"], sort_keys=True))
    rnd.shuffle(f_red)
    n_red = 24 if quick else 400
    if len(f_red) < min(n_red, 8):
        raise vlib.Infra("too few RED-rich forests generated (%d)" % len(f_red))
    picked += f_red[:n_red]
    cases = []
    for i, f in enumerate(picked):
        cases.append({"idx": i, "forest": f, "plan": rnd.choice(plans_by_n[len(f["spans"])]), "seed": chk.seed * 7919 + i})
    # large replications of well-formed forests
    wf = [f for f in by_kind.get("none", []) if len(f["spans"]) >= 4 and len(f["dep"]) >= 1]
    wf1 = [f for f in wf if len(f["traces"]) == 1] or wf
    larges = []
    for j in range(1 if quick else 5):
        larges.append({"idx": 10000 + 2 * j, "forest": rnd.choice(wf), "reps": 1100, "mode": "forest", "seed": chk.seed * 31 + j, "plan": None})
        larges.append({"idx": 10001 + 2 * j, "forest": rnd.choice(wf1), "reps": 1100 if j else 300, "mode": "trace", "seed": chk.seed * 37 + j, "plan": None})
    # one trace between 500 and 1000 spans (between one and two result pages of the span tree's paging loop)
    f_mid = rnd.choice(wf1)
    larges.append({"idx": 10100, "forest": f_mid, "reps": max(2, 760 // len(f_mid["spans"])), "mode": "trace", "seed": chk.seed * 41, "plan": None})
    cases = larges + cases

    binary = vlib.build_driver()
    results = vlib.pmap(lambda c: run_case(binary, c), cases, workers=WORKERS)
    first, occ = {}, {}
    nviews = 0
    for c, (fails, outcome, views) in zip(cases, results):
        chk.replayed(1)
        nviews += views
        chk.count(n=views)
        f = c["forest"]
        mk = f["mal"]["kind"] if not c.get("reps") else "large-" + c["mode"]
        shape = (len(f["spans"]), len(f["traces"]), mk, tuple(sorted(s["service"] for s in f["spans"])))
        chk.count(("forest",) + shape, nontrivial=len(f["spans"]) >= 3)
        items = [("C12:%s:%s" % (w, m), d) for (w, m, d) in fails]
        if outcome is not None:
            if outcome.kind == "hang":
                if f["wf"]:
                    raise vlib.Infra("view call hung twice on a well-formed forest (machine load?): %s" % outcome.detail)
                items.append(("C12:hang:%s" % mk, "a view did not answer within %d s on a malformed forest, twice: %s" % (WATCHDOG, outcome.detail)))
            else:
                items.append(("C12:%s:%s" % (outcome.kind, mk), "the engine process died / panicked: %s" % outcome.detail))
        for key, detail in items:
            occ[key] = occ.get(key, 0) + 1
            if key not in first:
                first[key] = (detail, {k: v for k, v in c.items()})
    # ---- percentiles: ONE definition for every service and percentile of the run
    obs = []
    for c, (fails, outcome, views) in zip(cases, results):
        for o in getattr(fails, "obs", []):
            o = dict(o)
            o["case"] = c
            o["defs"] = matching_defs(o)
            obs.append(o)
    if obs:
        score = {name: sum(1 for o in obs if name in o["defs"]) for name in PCT_DEFS}
        best = max(sorted(score), key=lambda n: score[n])
        chk.cov["percentile_definition"] = {"observations": len(obs), "matching": score, "engine_uses": best}
        if score[best] * 3 >= len(obs) * 2:        # a clear majority pins the engine's definition; the rest contradict it
            for o in obs:
                if best not in o["defs"]:
                    key = "C12:red:percentile-inconsistent:%s" % o["mk"]
                    occ[key] = occ.get(key, 0) + 1
                    if key not in first:
                        first[key] = ("service %s: p%d = %r for entry span durations %s (order statistics around the rank: %s and %s, rank fraction "
                                      ".%02d); the '%s' definition that explains %d of the %d other percentile answers of this run gives %r" % (
                                          o["svc"], o["p"], o["got"], o["durs"], o["lo"], o["hi"], o["frac"], best, score[best], len(obs) - 1,
                                          PCT_DEFS[best](o["lo"], o["hi"], o["frac"])), {k: v for k, v in o["case"].items()})
    chk.cov["all_violation_keys"] = dict(sorted(occ.items()))
    for key in sorted(first):
        detail, rep = first[key]
        chk.violation(key, "%s  (%d occurrences in this run)" % (detail, occ[key]), rep)
    c0 = cases[-1]
    chk.sample({"kind": "forest+plan", "spans": c0["forest"]["spans"], "malformation": c0["forest"]["mal"], "plan": c0["plan"],
                "expected": {"traces": [{k: v for k, v in t.items() if k in ("trace", "wf", "roots", "nspans", "nerr")} for t in c0["forest"]["traces"]],
                             "dep": c0["forest"]["dep"], "red": c0["forest"]["red"]}})
    chk.cov["view_calls"] = nviews
    chk.cov["cases_by_malformation"] = {k: sum(1 for c in cases if not c.get("reps") and c["forest"]["mal"]["kind"] == k) for k in sorted(quota)}
    chk.cov["large_cases"] = len(larges)
    chk.assumptions += [
        "span start times are placed one minute before 'now' and every query window contains the ingest time (the engine searches by ingest timestamp)",
        "the same span id in two different traces and a child that starts before its parent are legal input (exact views expected); "
        "missing parent, several roots, parent cycles, self parent and a duplicate span id inside one trace are malformed (admissible set)",
        "malformed forests: an error status for a view is accepted; a 200 answer must be a partial view: listed roots are roots of the trace, "
        "counts do not exceed the trace's own spans, tree nodes are spans of the trace beneath their parent id, dependency counts do not exceed the "
        "parent/child pairs inside a trace, RED counts lie between the definite and the possible entry spans",
        "RED rate accepted as count/60 (as coded), /300, /5 or /1; a percentile must lie between the two order statistics around rank p(n-1)/100, and "
        "all percentile answers of a run must follow ONE of the usual definitions (linear, lower, higher, nearest, midpoint): the definition that "
        "explains at least two thirds of the informative answers is taken as the engine's, an answer that contradicts it is a violation",
        "WIP buffers are flushed (driver op flush) before the views are read, as the server's flush timer does within seconds",
    ]
    chk.describe(rule="TLC enumerates all forests <= %d spans (<= 3 traces, <= 3 services, <= 2 error spans) x <= 1 malformation, samples forests of 5-7 "
                      "spans by simulation, and enumerates all ingest plans (3 arrival orders x all batchings x flush-each/flush-once); a VERIF_SEED "
                      "selected, malformation-stratified set is replayed. distinct_nontrivial = distinct (span count, trace count, malformation, "
                      "service multiset) forest shapes with >= 3 spans replayed on the real engine" % (4 if quick else 5),
                 exhaustive=False)


def replay(chk, path):
    d = json.load(open(path))
    case = d["replay"]
    print("key:", d["key"])
    print("what:", d["what"])
    for s in case["forest"]["spans"]:
        print("  span", s)
    print("malformation:", case["forest"]["mal"], "plan:", case.get("plan"), "reps:", case.get("reps"), case.get("mode"))
    binary = vlib.build_driver()
    fails, outcome, views = run_case(binary, case)
    for w, m, det in fails:
        print("REPRODUCED C12:%s:%s :: %s" % (w, m, det))
    if outcome is not None:
        print("OUTCOME", outcome.kind, outcome.detail)
    return 1 if (fails or outcome) else 0
