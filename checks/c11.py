"""C11 - concurrent ingest, flush, rotation and search stay consistent.

Model   spec/Visibility.tla: writer steps (ingest; block becomes searchable; rotation: [agile tree written] -> rotated
        metadata visible -> removed from unrotated info -> reset) against the steps of a query at the grain at which the
        code looks at shared state: unrotated listing, rotated listing, [agile-tree look-up of group-by queries], unrotated
        check, request planning, column readers' own unrotated check and lookup, record fetch's check and lookup.  TLC checks
        NoDup / NoLoss / NoInvent / NoDamage / NoPartialTree / NeverInNeither for every interleaving; each repaired deviation
        of the code stays checkable as a must-violate config (Dedup, Recheck, ReaderFallback, TreeAtomic = FALSE).
Binding (B) TLC-enumerated interleavings (spec/Gen_Visibility.tla) are forced on the real writer and query goroutines with
        blocking hooks (harness op vis_sched), sampled per query form and per window class (which writer step falls into
        which window of the real query of that form) for six query forms; group-by forms run with the persistent-query
        machinery on and primed, so that rotations write agile trees; oracle = the property: ids unique, every event
        searchable before the query began is returned/counted, nothing un-flushed or invented, every record whole, the
        process alive.
        (S) model assumption "what a query takes from the unrotated info is a snapshot": probe unrot_snapshot.
        (C) seeded free-running stress: concurrent bulk ingest on one or two indexes, millisecond flush timers, forced
        rotations and queries (a third of the runs with late-appearing columns, a third with the persistent-query
        machinery on); every answer is checked against the same bounds (known ids), a watchdog detects deadlock, and the
        quiescent contents must equal the sequential result.
"""
import json
import random
import time

import vlib

LEVEL = "model_checking"
CLAIMED = True   # set by the lead after review; only claimed checks enter MANIFEST.json

MANIFEST = dict(
    category="model_checking",
    technique="TLA+ spec of segment / agile-tree visibility during flush and rotation vs the query's listing, planning, reader-open and record-fetch steps (TLC, all interleavings, must-violate configs for every repaired deviation) + forced-schedule replay of TLC interleavings on the real goroutines (stratified per query form and window) + snapshot-assumption probe + seeded concurrent stress checked against the spec's bounds",
    text=("spec/Visibility.tla models when a block/segment is in the unrotated info and/or the rotated metadata, when its agile "
          "tree file is visible, and what a query returns that lists both sets, looks for trees, re-checks 'is it unrotated' "
          "when planning, when opening column readers and when fetching record columns; TLC checks no-duplicate / no-loss / "
          "no-invention / no-damaged-record / no-partial-tree over all interleavings, and the pre-fix variants of four repaired "
          "defects must violate. TLC interleavings are forced on the real flush/rotation and query goroutines through blocking "
          "verifhook points (11 writer/query points) for record, filter, segment-stats, filtered-stats and group-by queries, "
          "sampled so that every window of every query form meets every writer step; answers are checked against the "
          "property. The modelling assumption that a query works on a snapshot of the unrotated info is probed directly. "
          "Free-running concurrent stress (1-2 indexes, millisecond timers, rotations, late-appearing columns, persistent-query "
          "machinery on/off, GOMAXPROCS 1-16) is checked against the same bounds, with a deadlock watchdog, process-death "
          "detection and a final sequential-equivalence check."),
    note=("Data-race freedom in the Go memory model sense is NOT decided (a TLA+ model has atomic actions); the thorough tier "
          "does not use the race detector for the verdict (a one-off -race run of the stress is summarised in DESIGN.md section 5). "
          "One writer stream per index in forced schedules. The metrics store has its own model (spec/MetricsVisibility.tla) and a stress binding (checks/c11_metrics.py), no forced schedules."),
    design_ref="DESIGN.md 4/C11",
)

FORMS = [("*", "records"), ("* | stats count", "count"), ("* | stats count by g", "count_by"), ("* | stats sum(v) by g", "sum_by"),
         ("v>0 | stats count, max(v)", "count_max"), ("g=1", "filter")]


def g_of(i):
    return i % 3


def check_answer(form, resp, lo, hi):
    """lo = number of events searchable before the query began (ids 1..lo must be there),
    hi = number of events flushed by the time everything finished (ids 1..hi may be there). -> list of (kind, what)"""
    bad = []
    kind = form[1]
    if kind in ("records", "filter"):
        ids = [h.get("id") for h in (resp.get("hits", {}).get("records") or [])]
        if kind == "filter":
            wrong = [i for i in ids if isinstance(i, int) and g_of(i) != 1]
            if wrong:
                bad.append(("wrong-match", "ids %s do not satisfy g=1" % wrong[:6]))
        if len(ids) != len(set(ids)):
            dup = sorted(set(i for i in ids if ids.count(i) > 1))
            bad.append(("dup", "events returned more than once: ids %s" % dup[:6]))
        missing = [i for i in range(1, lo + 1) if i not in ids and (kind == "records" or g_of(i) == 1)]
        if missing:
            bad.append(("loss", "events flushed before the search began are missing: ids %s" % missing[:6]))
        extra = [i for i in ids if not (isinstance(i, int) and 1 <= i <= hi)]
        if extra:
            bad.append(("invent", "ids that were never flushed: %s" % extra[:6]))
        return bad
    rows = resp.get("measure") or []

    def val(row, k):
        v = row["MeasureVal"].get(k)
        try:
            return float(v)
        except (TypeError, ValueError):
            return None
    if kind in ("count", "count_max"):
        if len(rows) != 1 and not (lo == 0 and len(rows) == 0):
            bad.append(("shape", "expected one row, got %d" % len(rows)))
            return bad
        c = val(rows[0], "count(*)") if rows else 0
        if c is None or c < lo:
            bad.append(("loss", "count(*)=%s but %d events were flushed before the search began" % (c, lo)))
        elif c > hi:
            bad.append(("dup", "count(*)=%s but only %d events were ever flushed" % (c, hi)))
        if kind == "count_max" and rows and c is not None and lo <= c <= hi:
            m = val(rows[0], "max(v)")
            if m is not None and not (lo <= m <= hi and m == c):
                # v = id, ids are flushed in order: max(v) must equal the number of events counted
                bad.append(("inconsistent", "count(*)=%s but max(v)=%s (ids are consecutive from 1)" % (c, m)))
        return bad
    # group by g
    got = {}
    for r in rows:
        key = r["GroupByValues"][0]
        if key in got:
            bad.append(("dup", "group %s appears twice" % key))
        got[key] = r
    for g in range(3):
        members_lo = [i for i in range(1, lo + 1) if g_of(i) == g]
        members_hi = [i for i in range(1, hi + 1) if g_of(i) == g]
        r = got.get(str(g))
        if kind == "count_by":
            c = val(r, "count(*)") if r else 0
            if c < len(members_lo):
                bad.append(("loss", "group %d count=%s, %d flushed before the search began" % (g, c, len(members_lo))))
            elif c > len(members_hi):
                bad.append(("dup", "group %d count=%s, only %d ever flushed" % (g, c, len(members_hi))))
        else:
            sv = val(r, "sum(v)") if r else 0
            if sv is None or sv < sum(members_lo):
                bad.append(("loss", "group %d sum=%s < %d" % (g, sv, sum(members_lo))))
            elif sv > sum(members_hi):
                bad.append(("dup", "group %d sum=%s > %d" % (g, sv, sum(members_hi))))
    return bad


def force(binary, steps, form):
    d = vlib.scratch("c11f")
    dr = None
    try:
        dr = vlib.Driver(binary)
        # group-by forms run with the persistent-query machinery on and primed, so that the rotations of the schedule write
        # an agile tree (production default; the other forms never look at trees)
        tree = form[1] in ("count_by", "sum_by")
        dr.ok("init", dir=d, pqs=tree)
        dr.ok("hook_start")
        return dr.ok("vis_sched", steps=steps, text=form[0], prime=tree, timeout=120)
    finally:
        if dr is not None:
            dr.quit()
        vlib.rmtree(d)


def overlaps(steps):
    i, j = steps.index("q.snapU"), steps.index("q.search")   # q.search = the last query step
    return any(s.startswith(("rot.", "flush.")) for s in steps[i:j])


def run(chk):
    quick = chk.tier == "quick"
    r = vlib.run_tlc("Visibility", "MC_Visibility.cfg", timeout=900, coverage=True)
    vlib.tlc_must_hold(r, "Visibility")
    chk.add_tlc("MC_Visibility", r, "NoDup NoLoss NoInvent NoDamage NoPartialTree NeverInNeither; 4 events, 2 flushes, 2 rotations, one query")
    r2 = vlib.run_tlc("Visibility", "MC_Visibility_nodedup.cfg", timeout=600)
    if "NoDup" not in r2.violated:
        raise vlib.Infra("model sensitivity lost: Visibility without de-duplication no longer violates NoDup")
    r3 = vlib.run_tlc("Visibility", "MC_Visibility_norecheck.cfg", timeout=600)
    if "NoLoss" not in r3.violated:
        raise vlib.Infra("model sensitivity lost: Visibility without the re-check no longer violates NoLoss")
    r6 = vlib.run_tlc("Visibility", "MC_Visibility_notreeatomic.cfg", timeout=600)
    if "NoPartialTree" not in r6.violated:
        raise vlib.Infra("model sensitivity lost: Visibility with a non-atomic tree file no longer violates NoPartialTree")
    r7 = vlib.run_tlc("Visibility", "MC_Visibility_notree.cfg", timeout=600)
    vlib.tlc_must_hold(r7, "Visibility without agile trees")
    chk.add_tlc("MC_Visibility_notree", r7, "same invariants, rotations without an agile tree")
    r4 = vlib.run_tlc("Visibility", "MC_Visibility_noreaderfallback.cfg", timeout=600)
    r5 = vlib.run_tlc("Visibility", "MC_Visibility_noreaderfallback_damage.cfg", timeout=600)
    if "NoLoss" not in r4.violated or "NoDamage" not in r5.violated:
        raise vlib.Infra("model sensitivity lost: Visibility without the readers' fallback no longer violates NoLoss / NoDamage")
    chk.cov["model_sensitivity"] = ("Dedup=FALSE violates NoDup, Recheck=FALSE violates NoLoss, ReaderFallback=FALSE violates NoLoss "
                                    "and NoDamage in the model; each was reproduced on the code before its fix: commit by forced "
                                    "interleavings")
    beh, rg = vlib.tlc_generate("Gen_Visibility", "Gen_Visibility.cfg" if quick else "Gen_Visibility_deep.cfg", timeout=1200)
    chk.add_tlc("Gen_Visibility", rg, "interleaving generation")
    scheds = sorted(set(tuple(b["steps"]) for b in beh))
    inter = [s for s in scheds if overlaps(s)]
    rest = [s for s in scheds if not overlaps(s)]
    # stratify.  The class of an interleaving for a query form is the set of (window, writer step) pairs, a window being the
    # point at which the REAL query of that form is parked when the writer step happens (a form that never reaches a point
    # is parked at the last one it does reach, and is finished after its last one), so that every window of every form is
    # forced with every writer step.
    order = ["q.snapU", "q.snapR", "q.tree", "q.check", "q.plan", "q.open", "q.fetch"]
    full = {**dict(zip(order, order)), "q.tree": "q.check"}       # q.tree and q.check park at the same point
    park = {"records": full, "filter": full,
            "count_by": {**full, "q.fetch": None}, "sum_by": {**full, "q.fetch": None},
            "count_max": {"q.snapU": "q.snapU", "q.snapR": "q.snapR", "q.tree": "q.open", "q.check": "q.open", "q.plan": "q.open", "q.open": "q.open",
                          "q.fetch": None},
            "count": {"q.snapU": "q.snapU", "q.snapR": "q.snapR"}}

    def klass(st, kind):
        last, out = None, set()
        for x in st:
            if x.startswith("q."):
                last = park[kind].get(x) if x != "q.search" else None
            elif last and x in ("flush.vis", "rot.tree", "rot.segmeta", "rot.meta", "rot.remove") and (x != "rot.tree" or kind in ("count_by", "sum_by")):
                out.add((last, x))
        return tuple(sorted(out))
    rnd = random.Random(chk.seed)
    jobs = []
    ncls = {}
    for form in FORMS:
        by_class = {}
        for st in inter:
            by_class.setdefault(klass(st, form[1]), []).append(st)
        ncls[form[1]] = len(by_class)
        small = sorted(k for k in by_class if 1 <= len(k) <= 2)
        big = sorted(k for k in by_class if len(k) > 2)
        per = 1 if quick else 6
        for k in small + vlib.sample(big, 12 if quick else len(big), chk.seed):
            jobs += [(st, form) for st in vlib.sample(by_class[k], per if k in small or quick else 2, chk.seed)]
    chk.cov["interleaving_classes"] = ncls
    extra = vlib.sample(inter, 30 if quick else 1500, chk.seed) + vlib.sample(rest, 10 if quick else 100, chk.seed)
    jobs += [(st, FORMS[(i + chk.seed) % len(FORMS)]) for i, st in enumerate(extra)]
    binary = vlib.build_driver()

    def one(job):
        try:
            return force(binary, list(job[0]), job[1])
        except vlib.DriverDead as e:
            return e
    results = vlib.pmap(one, jobs, workers=10)
    forced_full = 0
    for (s, form), res in zip(jobs, results):
        if isinstance(res, vlib.DriverDead):
            if res.kind == "hang":
                raise vlib.Infra("forced schedule did not answer: %s" % res)
            chk.violation("C11:crash:forced-schedule", "engine died under forced interleaving %s / %s: %s" % (list(s), form[0], res),
                          {"steps": list(s), "query": form[0]})
            continue
        full = res["forced"] == res["of"]
        forced_full += full
        chk.replayed(1)
        chk.count(("sched", s, form[1]), nontrivial=full and overlaps(s))
        rep = {"steps": list(s), "query": form[0], "forced": res["forced"], "infeasible": res["infeasible"],
               "visible_before_query": res["visible_before_query"], "flushed_visible": res["flushed_visible"]}
        if res["visible_before_query"] < 0:
            continue      # the query step was never reached
        if not res["answered"]:
            if full:
                chk.violation("C11:deadlock:forced-schedule", "query never answered under forced interleaving %s (%s)" % (list(s), form[0]), rep)
            continue
        if "qerr" in res:
            chk.violation("C11:error:" + form[1], "query %r failed during concurrent flush/rotation: %s" % (form[0], res["qerr"][:300]), rep)
            continue
        resp = res.get("resp") or {}
        rep["answer"] = {"records": [h.get("id") for h in (resp.get("hits", {}).get("records") or [])],
                         "measure": [(m["GroupByValues"], m["MeasureVal"]) for m in (resp.get("measure") or [])]}
        for kind, what in check_answer(form, resp, res["visible_before_query"], res["flushed_visible"]):
            chk.violation("C11:%s:%s" % (kind, form[1]), "forced interleaving %s, query %r: %s" % (list(s), form[0], what), rep)
        if len(chk.cov["samples"]) < 3 and full and overlaps(s):
            chk.sample({"kind": "forced-interleaving", **rep})
    chk.cov["forced"] = {"schedules_in_model": len(scheds), "overlapping": len(inter), "forced": len(jobs), "fully_forced": forced_full}
    if forced_full < len(jobs) * 0.5:
        raise vlib.Infra("only %d of %d interleavings could be forced: hooks moved?" % (forced_full, len(jobs)))

    # model assumption: what a query takes from the unrotated info (QPlan / QOpenGet / QFetchGet) is a snapshot - the
    # spec's query steps read `segs` once and keep the value.  In the code that holds only if the tables handed out are
    # copies; a live map shared with the flush path is an unsynchronised read/write (fatal "concurrent map read and map
    # write" in Go).
    d = vlib.scratch("c11snap")
    dr = None
    try:
        dr = vlib.Driver(binary)
        dr.ok("init", dir=d)
        snap = dr.ok("unrot_snapshot", new_cols=3)
    finally:
        if dr is not None:
            dr.quit()
        vlib.rmtree(d)
    chk.replayed(1)
    chk.count(("snapshot-assumption",), nontrivial=True)
    for name, b4, aft in zip(snap["names"], snap["before"], snap["after"]):
        if b4 != aft:
            chk.violation("C11:race:unrotated-table-shared:" + name,
                          "the %s a query took from the unrotated info changed under it when a later flush added columns "
                          "(%d -> %d entries): queries read the writer's live map without a lock (data race; Go aborts the process "
                          "with 'concurrent map read and map write')" % (name, b4, aft), snap)
    chk.cov["snapshot_assumption"] = snap

    import c11_stress
    import c11_twoindex
    import c11_metrics
    c11_twoindex.run(chk, binary)
    c11_metrics.run(chk, binary)
    c11_stress.run(chk, binary)
    chk.assumptions += [
        "events are ingested with consecutive ids, so 'flushed before the search began' is a prefix 1..lo",
        "a forced interleaving parks the writer while it holds segstore.Lock / allSegStoresLock; queries do not need them",
        "data races (Go memory model) are not decided by this check",
    ]
    chk.describe(rule="TLC enumerates every interleaving of writer steps (ingest 1-2, flush visible/end, rotation meta/remove/end) "
                      "with the query's eight steps (two listings, unrotated check, planning, reader open check/lookup, record-fetch check/lookup); a seeded sample (quick) or all (thorough) of those where the query overlaps a "
                      "flush or rotation is forced on the real goroutines, rotating over 6 query forms; non-trivial = fully forced "
                      "and overlapping", exhaustive=False)


def replay(chk, path):
    d = json.load(open(path))
    print(json.dumps(d, indent=1)[:5000])
    return 0
