"""C09 - metric queries compute PromQL-consistent answers.

Model: spec/MetricsQuery.tla.  Select / Agg / BinVec / BinScalar are pure operators over label maps
  on a tiny alphabet and integer values on a small time grid (avg and "/" are exact rationals); the
  storage layout (blocks, segments, restart) is a state machine and a query is answered "physically"
  (per segment tags tree -> blocks -> merge by series).  TLC checks AvgIsSumOverCount,
  MinLeAvgLeMax, ByAllIsIdentity, WithoutIsByComplement, SelectExact, BinaryMatchesLabelSets and
  LayoutInvariance(Sel) exhaustively on small constants.
Binding: Gen_MetricsQuery exports (a) scenarios = series set + value grid + every query of the query
  set as PromQL text with the expected instant vector per grid timestamp, (b) layout histories
  (ingest order with interleaved BlockFlush / SegRotate / Restart).  The harness pairs them, replays a
  history on the real engine (OpenTSDB put, mblockflush, msizerotate + metadata refresh, shutdown
  rotation + new process) and runs the PromQL texts through ConvertPromQLToMetricsQuery +
  ExecuteMultipleMetricsQuery after every layout operation, on the open data and again after the
  final rotation + restart; group identity is compared by label set, values within 1e-9 relative.
"""
import json
import math
import os
import random
import signal
import threading
import time

import vlib

LEVEL = "model_checking"
CLAIMED = True   # set by the lead after review; only claimed checks enter MANIFEST.json

MANIFEST = dict(
    category="model_checking",
    technique="TLA+ spec of PromQL selector / aggregation / vector-matching semantics and of the metrics storage layout (TLC exhaustive) + replay of TLC-generated (series set, value grid, layout history, PromQL text, expected vector) on the real engine across block flush, segment rotation and restart",
    text=("spec/MetricsQuery.tla defines Select (=, !=, =~, !~ over literal/alternation/prefix/suffix/.*/.+ patterns, missing label = empty "
          "string), Agg (sum/min/max/avg/count, by/without), vector arithmetic with default/on/ignoring/group_left matching and scalar "
          "arithmetic on a tiny label alphabet and an integer value grid (exact rationals for avg and /), plus the block/segment layout as "
          "a state machine with a physical evaluation (per-segment tags tree, blocks, merge by series). TLC checks avg = sum/count, "
          "min <= avg <= max, by(all) = identity, without(L) = by(rest), negated matchers are complements, binary results pair equal match "
          "keys exactly once, and layout invariance. Gen_MetricsQuery exports scenarios (series, grid, ~380 PromQL texts with expected "
          "vectors) and layout histories; each pair is replayed on the real engine via OpenTSDB put, mblockflush / msizerotate / shutdown "
          "rotation + restart, and every query is run through ConvertPromQLToMetricsQuery + ExecuteMultipleMetricsQuery on open and on "
          "rotated data. A long-series family (2-3 series x 12 or 20 samples, 42 queries, histories that split a series at every position "
          "into parts of 1..11 samples over blocks, segments and process lives) compares every sample of raw selectors and aggregations."),
    note=("Samples sit on the step grid (one sample per series and evaluation timestamp), so lookback/staleness and downsampling inside a "
          "step are not exercised. Regex restricted to literal, alternation, prefix.*, .*suffix, .*, .+. Values are small integers. "
          "Metric-name regex selectors, range functions, comparison/logical operators, topk/quantile/stddev are out of scope. Result metric "
          "names are only compared for plain selectors. Universes X (missing labels) and S (label key that is a suffix of another) and the "
          "same-key / without-all probes report under their own violation keys."),
    design_ref="DESIGN.md 4/C09, docs/C09.md",
)

T0 = 1_700_000_040          # multiple of 60: every step below puts T0 on the step grid
WORKERS = min(8, vlib.NCPU)


# --------------------------------------------------------------------------- generation

def write_pick(dirpath, seed, mod, modl):
    p = os.path.join(dirpath, "MetricsQueryPick.tla")
    with open(p, "w") as f:
        f.write("--------------------------- MODULE MetricsQueryPick ---------------------------\n"
                "PickSeed == %d\nPickMod == %d\nPickModL == %d\n"
                "=============================================================================\n" % (seed, mod, modl))
    return p


def tlc_generate_pick(cfg, seed, mod, modl=20, timeout=1500):
    """vlib.tlc_generate stages spec/ and then copies extra_files over it: the seed-derived
    MetricsQueryPick.tla replaces the default one."""
    # ScenHash multiplies the scenario part by (PickSeed + 3): a modulus that shares a factor with it would make the
    # filter (partly) independent of the scenario - all or nothing.  Move to the next modulus coprime to it.
    while mod > 1 and math.gcd(seed + 3, mod) > 1:
        mod += 1
    sc = vlib.scratch("c09pick")
    try:
        p = write_pick(sc, seed, mod, modl)
        return vlib.tlc_generate("Gen_MetricsQuery", cfg, timeout=timeout, extra_files=[p])
    finally:
        vlib.rmtree(sc)


# --------------------------------------------------------------------------- oracle helpers

def pairs_to_dict(p):
    return {e["k"]: e["v"] for e in (p or [])}


def lkey(d):
    return tuple(sorted(d.items()))


def parse_gid(gid):
    """'m{a:x,b:p,' -> ('m', {'a':'x','b':'p'})"""
    i = gid.find("{")
    if i < 0:
        return gid, {}
    name, rest = gid[:i], gid[i + 1:]
    labels = {}
    for part in rest.split(","):
        if not part:
            continue
        k, _, v = part.partition(":")
        labels[k] = v
    return name, labels


def mkey_of(vm, labels):
    if vm["mode"] == "on":
        return {k: v for k, v in labels.items() if k in vm["keys"]}
    if vm["mode"] == "ignoring":
        return {k: v for k, v in labels.items() if k not in vm["keys"]}
    return dict(labels)


def sel_cls(sel):
    ms = sel["ms"]
    keys = [m["key"] for m in ms]
    if len(set(keys)) < len(keys):
        return "same-key-twice"
    if not ms:
        return "all"
    return "+".join(sorted("%s%s" % (m["op"], "" if m["op"] in ("=", "!=") else m["pat"]["kind"]) for m in ms))


def agg_cls(o, nkeys):
    g = o["g"]
    mode = g["mode"]
    if mode == "without" and len(g["keys"]) >= nkeys > 0:
        mode = "without-all"
    elif mode in ("by", "without") and not g["keys"]:
        mode = mode + "-none"
    s = sel_cls(o["sel"])
    return "%s:%s%s" % (o["aop"], mode, "" if s == "all" else "(" + s + ")")


def query_class(ast, nkeys):
    """query class used in violation keys and for counting distinct non-trivial cases"""
    l, r = ast["l"], ast["r"]
    if ast["kind"] == "vec":
        return "sel:" + sel_cls(l["sel"]) if l["aop"] == "none" else "agg:" + agg_cls(l, nkeys)
    if ast["kind"] == "bin":
        vm = ast["vm"]
        return "bin:%s:%s%s:%s~%s" % (ast["op"], vm["mode"], ":group_left" if vm["card"] == "left" else "",
                                      "agg" if l["aop"] != "none" else "sel", "agg" if r["aop"] != "none" else "sel")
    return "scalar:%s:%s:%s" % (ast["op"], "c-left" if ast["cleft"] else "c-right", "agg" if l["aop"] != "none" else "sel")


def value_keys(sel):
    return sorted(set(m["key"] for m in sel["ms"]))


def root_cause(ast, univ, nkeys):
    """Constructs that the real engine is known (docs/C09.md, 'Suspected genuine defects') to answer differently get a
    violation key of their own, so that each defect is one signature; everything else is keyed by query class."""
    ops = [ast["l"]] + ([ast["r"]] if ast["kind"] == "bin" else [])
    for o in ops:
        keys = [m["key"] for m in o["sel"]["ms"]]
        if len(set(keys)) < len(keys):
            return "same-label-matched-twice"
    for o in ops:
        g = o["g"]
        if o["aop"] != "none" and g["mode"] == "without" and len(g["keys"]) >= nkeys > 0:
            return "without-all-labels"
        if o["aop"] == "count" and g["mode"] == "without" and not g["keys"]:
            return "count-without-empty-list"
    if univ == "X":
        return "missing-label"
    if univ == "S":
        return "label-key-suffix-of-another"
    if univ == "D" and ast["kind"] == "bin" and ast["vm"]["mode"] != "default":
        return "label-value-nonword-char"
    if ast["kind"] == "bin" and ast["vm"]["mode"] == "default" and ast["l"]["aop"] == "none" and ast["r"]["aop"] == "none" \
            and value_keys(ast["l"]["sel"]) != value_keys(ast["r"]["sel"]):
        return "binop-label-order"
    return None


def expected_map(q, tlist):
    """-> {identity: {t: (num, den)}}; identity depends on what the statement fixes for this query kind"""
    ast = q["ast"]
    by_mkey = ast["kind"] == "bin" and ast["vm"]["mode"] != "default" and ast["vm"]["card"] == "one"
    named = ast["kind"] == "vec" and ast["l"]["aop"] == "none"
    out = {}
    for t in tlist:
        for e in q["expect"][t]:
            lab = pairs_to_dict(e["mkey"] if by_mkey else e["labels"])
            ident = (e["name"] if named else "", lkey(lab))
            out.setdefault(ident, {})[t] = (e["num"], e["den"])
    return out, by_mkey, named


def compare(q, res, tlist, ts_of, all_grid_ts):
    """res: driver result of mquery.  Returns list of (what, detail)."""
    ast = q["ast"]
    bad = []
    if "qerr" in res:
        return [("error", "query rejected: %s" % res["qerr"])]
    if res.get("errs"):
        return [("error", "query failed: %s" % res["errs"])]
    exp, by_mkey, named = expected_map(q, tlist)
    got = {}
    for gid, pts in res.get("series", {}).items():
        name, labels = parse_gid(gid)
        if by_mkey:
            labels = mkey_of(ast["vm"], labels)
        ident = (name if named else "", lkey(labels))
        for p in pts:
            ts = p[0]
            if ts not in all_grid_ts:
                bad.append(("extra-timestamp", "%s has a point at %d which is no ingested grid timestamp" % (gid, ts)))
                continue
            t = all_grid_ts[ts]
            if t not in tlist:
                continue
            if t in got.get(ident, {}):
                bad.append(("duplicate-group", "two result series map to the same identity %s at t=%d" % (ident, t)))
            got.setdefault(ident, {})[t] = p[2]
    for ident, tv in exp.items():
        for t, (num, den) in tv.items():
            if den == 0:
                continue
            g = got.get(ident, {}).get(t)
            if g is None:
                bad.append(("missing", "expected %s at t=%d = %s/%s, not returned" % (fmt_ident(ident), t, num, den)))
                continue
            want = num / den
            if not isinstance(g, (int, float)) or abs(g - want) > 1e-9 * max(1.0, abs(want)):
                bad.append(("value", "%s at t=%d: got %r, expected %s/%s = %r" % (fmt_ident(ident), t, g, num, den, want)))
    for ident, tv in got.items():
        for t in tv:
            if t not in exp.get(ident, {}):
                bad.append(("extra", "returned %s at t=%d (= %r) which the query must not return" % (fmt_ident(ident), t, tv[t])))
    return bad


def fmt_ident(ident):
    return "%s{%s}" % (ident[0], ",".join("%s=%s" % kv for kv in ident[1]))


# --------------------------------------------------------------------------- one case on the real engine

class EnginePanic(Exception):
    """the engine code panicked inside a query (the driver recovers it so that it can be reported); the query it was running
    stays registered as running, so the process is not used any further: the case ends with this violation"""


def run_case(binary, case):
    """Replays one (scenario, layout history) pair.  Returns dict(fails=[(key, detail, query text, stage)], n=queries run,
    classes=set of (class, stagekind) compared with a non-empty expectation)."""
    scen, hist, step, univ = case["scen"], case["hist"], case["step"], case["univ"]
    series, values, queries = scen["series"], scen["values"], scen["queries"]
    nt = len(values[0])
    nkeys = len(set(k for s in series for k in s["labels"]))
    rnd = random.Random(case["seed"])
    d = vlib.scratch("c09")
    env = {"SIGDRV_GOMAXPROCS": str(case["procs"])} if case.get("procs") else None
    fails, classes = [], set()
    nrun = [0]
    dr = None
    errlog = os.path.join(d, "stderr.log")
    cur = {"q": None, "stage": None, "dumped": False}

    def mquery(**kw):
        """mquery with a goroutine dump (SIGQUIT) if the engine has not answered after 60 s: a query that normally
        takes ~10 ms and stalls for a minute is worth a look even if the final classification is 'machine load'"""
        cur["q"] = kw.get("promql")
        proc = dr.p

        def dump():
            cur["dumped"] = True
            try:
                proc.send_signal(signal.SIGQUIT)
            except Exception:
                pass
        tm = threading.Timer(60, dump)
        tm.start()
        try:
            o = dr.cmd("mquery", **kw)
        finally:
            tm.cancel()
        if not o.get("ok"):
            err = str(o.get("err"))
            if err.startswith("PANIC"):
                # the engine code panicked while answering (the driver recovers it; the server's handler would not answer)
                where = [l.strip() for l in err.splitlines() if "/pkg/" in l][:2]
                raise EnginePanic(err.splitlines()[0] + " at " + " <- ".join(where))
            raise vlib.Infra("driver op mquery failed: %s" % err[:2000])
        return o.get("res")

    ts_of = {t: T0 + t * step for t in range(nt)}
    grid_ts = {v: k for k, v in ts_of.items()}
    ingested = set()
    runnable = [q for q in queries if q["defined"]]
    # windows: (start, end) -> timestamps inside
    windows = {"full": (T0 - step, T0 + (nt + 1) * step, list(range(nt))),
               "tight": (ts_of[min(1, nt - 1)], ts_of[nt - 1], list(range(min(1, nt - 1), nt)))}

    def put(rows):
        if not rows:
            return
        body = json.dumps([{"metric": series[i]["name"], "tags": series[i]["labels"], "timestamp": ts_of[t],
                            "value": values[i][t]} for (i, t) in rows])
        r = dr.ok("otsdb", body=body)
        if r["failed"] != 0 or r["ok"] != len(rows):
            fails.append(("C09:%s:ingest-rejected" % univ, "otsdb put accepted %s of %d" % (r, len(rows)), "", "ingest"))
        ingested.update(rows)
        open_seg.update(rows)

    def complete_ts():
        return [t for t in range(nt) if all((i, t) in ingested for i in range(len(series)))]

    sized = [False]     # a size-driven segment rotation happened in this process life

    def check(stage, kind, qs, collect=None, window="full"):
        if sized[0]:
            # Once a tags-tree base directory has a rotated segment, queries read the tags trees from disk; series that are
            # new since then become visible with the next tags-tree flush (timeBasedTagsTreeFlush, every 60 s).  Like the 5 s
            # metadata refresh this is the engine's visibility period, not a wrong answer: run one timer iteration.
            dr.ok("mtagsflush")
        start, end, wts = windows[window]
        tl = [t for t in complete_ts() if t in wts]
        seen_ts = {ts: t for ts, t in grid_ts.items() if any((i, t) in ingested for i in range(len(series)))}
        out = []
        for q in qs:
            cur["stage"] = stage
            res = mquery(promql=q["text"], start=start, end=end, step=step)
            nrun[0] += 1
            cls = query_class(q["ast"], nkeys)
            bad = compare(q, res, tl, ts_of, seen_ts)
            if any(q["expect"][t] for t in tl):
                classes.add((univ, cls, kind))
            seen = set()
            for what, detail in bad:
                if what in seen:
                    continue
                seen.add(what)
                rc = root_cause(q["ast"], univ, nkeys)
                key = "C09:%s:%s:%s" % (rc, cls.split(":")[0], what) if rc else "C09:%s:%s:%s@%s" % (univ, cls, what, kind)
                out.append((key, "[%s, window=%s, step=%d] %s :: %s" % (stage, window, step, q["text"], detail), q["text"], stage))
        if collect is not None:
            collect.extend(out)
        else:
            fails.extend(out)
        return out

    open_seg = set()        # datapoints ingested into the currently open segment

    def rotated_visible(points):
        """Is the segment that was just size-rotated known to the query side?  Asked with single-sample windows (the last
        sample of every series in that segment): such an answer comes from exactly one place, so it is independent of how
        the engine joins the parts of a series - a defect in the joining shows up in the checks, not as a time-out here."""
        dr.ok("mtagsflush")
        last = {}
        for (i, t) in points:
            last[i] = max(t, last.get(i, -1))
        for i, t in sorted(last.items()):
            res = mquery(promql=series[i]["name"], start=ts_of[t], end=ts_of[t], step=step)
            want = (series[i]["name"], lkey(series[i]["labels"]))
            if not any(parse_gid(gid)[0] == want[0] and lkey(parse_gid(gid)[1]) == want[1] and any(p[0] == ts_of[t] for p in pts)
                       for gid, pts in res.get("series", {}).items()):
                return False
        return True

    def subset(n):
        return runnable if len(runnable) <= n else rnd.sample(runnable, n)

    try:
        dr = vlib.Driver(binary, env=env, stderr_path=errlog)
        dr.ok("init", dir=d)
        pending = []
        nstage = 0
        for a in hist:
            if a["a"] == "ingest":
                pending.append((a["i"] - 1, a["t"]))
                continue
            put(pending)
            pending = []
            nstage += 1
            if a["a"] == "blockflush":
                dr.ok("mblockflush")
                check("after-blockflush-%d" % nstage, "flushed", subset(case["nsub"]))
            elif a["a"] == "segrotate":
                dr.ok("msizerotate", block_bytes=1, seg_bytes=1)
                sized[0] = True
                just_rotated = set(open_seg)
                open_seg.clear()
                # the rotated segment becomes query-visible through the 5 s metadata refresh loop: poll until the last sample of
                # every series in it is returned (40 s without success is an infrastructure error: timing dependent)
                t_end = time.time() + 40
                while not rotated_visible(just_rotated):
                    if time.time() > t_end:
                        # timing dependent (5 s refresh loop on a possibly overloaded machine): never a verdict
                        raise vlib.Infra("size-rotated metrics segment not query-visible 40 s after the rotation (machine load?)")
                    time.sleep(0.5)
                check("after-segrotate-%d" % nstage, "segrotated", subset(case["nsub"]))
            elif a["a"] == "restart":
                dr.ok("mrotate")
                dr.quit()
                dr = vlib.Driver(binary, env=env, stderr_path=errlog)
                dr.ok("init", dir=d, wait_ms=400)
                sized[0] = False
                open_seg.clear()
                check("after-restart-%d" % nstage, "restarted", subset(case["nsub"]))
        put(pending)
        full = runnable if case["full"] else subset(case["nsub"] * 2)
        check("final-open", "open", full)
        check("final-open-tight", "open", subset(max(8, case["nsub"] // 3)), window="tight")
        dr.ok("mrotate")
        dr.quit()
        dr = vlib.Driver(binary, env=env, stderr_path=errlog)
        dr.ok("init", dir=d, wait_ms=400)
        sized[0] = False
        check("final-rotated", "rotated", full)
        check("final-rotated-tight", "rotated", subset(max(8, case["nsub"] // 3)), window="tight")
    except EnginePanic as e:
        qast = [q["ast"] for q in queries if q["text"] == cur["q"]]
        cls = query_class(qast[0], nkeys) if qast else "probe"
        fails.append(("C09:%s:%s:panic" % (univ, cls), "[%s, step=%d, layout %s] %s :: the engine panicked while answering: %s" % (
            cur["stage"], step, [a["a"] for a in hist if a["a"] != "ingest"], cur["q"], e), cur["q"] if qast else "", cur["stage"] or "?"))
    except vlib.DriverDead as e:
        if e.kind == "hang" or cur["dumped"]:
            keep = os.path.join(vlib.SCRATCH_ROOT, "c09-stall-%d.log" % case["idx"])
            try:
                with open(errlog, "rb") as f:
                    open(keep, "wb").write(f.read()[-400000:])
            except OSError:
                keep = "(no stderr)"
            raise vlib.Infra("engine did not answer a query within 60 s (machine load?): case %d, stage %s, query %r, layout %s; goroutine dump in %s" % (
                case["idx"], cur["stage"], cur["q"], [a["a"] for a in hist if a["a"] != "ingest"], keep))
        fails.append(("C09:%s:driver-died" % univ, "engine process died during a metrics scenario: %s" % e, "", "?"))
    finally:
        if dr is not None:
            dr.quit()
        vlib.rmtree(d)
    return {"fails": fails, "n": nrun[0], "classes": classes}


def slim_case(case, qtext):
    """replay object: the case with only the failing query"""
    c = dict(case)
    sc = dict(case["scen"])
    sc["queries"] = [q for q in case["scen"]["queries"] if q["text"] == qtext] if qtext else []
    c["scen"] = sc
    return c


# --------------------------------------------------------------------------- driver

def run(chk):
    quick = chk.tier == "quick"
    if os.environ.get("VERIF_SKIP_MODEL"):        # development switch (mutation runs): binding only
        return run_binding(chk, quick)
    # ---- model
    # (coverage was run once per config while building the check: no vacuous action; it doubles the TLC time, so the
    #  quick tier runs without it and the thorough tier with it)
    # the four model runs are independent: run them side by side (wall time of the quick tier)
    mw = max(2, WORKERS // 2)
    jobs = [("MC_MetricsQuery.cfg" if quick else "MC_MetricsQuery_deep.cfg", 1500, not quick),
            ("MC_MetricsQuery_X.cfg", 900, False),
            ("MC_MetricsQuery_Lq.cfg" if quick else "MC_MetricsQuery_L.cfg", 1200, False),
            ("MC_MetricsQuery_noreg.cfg", 600, False),
            ("MC_MetricsQuery_R.cfg", 900, False)]
    r, rx, rl, r2, rr = vlib.pmap(lambda j: vlib.run_tlc("MC_MetricsQuery", j[0], workers=mw, timeout=j[1], coverage=j[2]), jobs, workers=len(jobs))
    vlib.tlc_must_hold(rr, "MetricsQuery exhaustive (regular-expression forms)")
    chk.add_tlc("MC_MetricsQuery_R", rr, "SelectExact (negated matcher = complement) and the other invariants on universe R: anchors, escape classes, "
                "escaped dot, counted repetition, character class, empty pattern, each as =~ and !~")
    vlib.tlc_must_hold(r, "MetricsQuery exhaustive")
    chk.add_tlc("MC_MetricsQuery", r, "TypeOK NoLossNoDup TagsCover LayoutInvariance(Sel) AvgIsSumOverCount MinLeAvgLeMax ByAllIsIdentity "
                "WithoutIsByComplement SelectExact BinaryMatchesLabelSets; universe H, NT=%d, MaxOps=%d" % ((2, 2) if quick else (2, 3)))
    vlib.tlc_must_hold(rx, "MetricsQuery exhaustive (missing labels)")
    chk.add_tlc("MC_MetricsQuery_X", rx, "same invariants on the universe with missing labels")
    vlib.tlc_must_hold(rl, "MetricsQuery exhaustive (long series)")
    chk.add_tlc("MC_MetricsQuery_L", rl, "NoLossNoDup TagsCover LayoutInvariance(Sel) with 12 samples per series: every split of a series over blocks, "
                "segments and process lives with <= 2 layout operations")
    if "LayoutInvarianceSel" not in r2.violated:
        raise vlib.Infra("model sensitivity lost: RegisterPerSegment=FALSE no longer violates LayoutInvarianceSel")
    chk.cov["model_sensitivity"] = "RegisterPerSegment=FALSE violates LayoutInvarianceSel (expected)"

    run_binding(chk, quick)


def run_binding(chk, quick):
    # ---- behaviours
    modH, modX, modS, modD = (37, 1, 1, 1) if quick else (5, 1, 1, 1)      # the small universes are emitted completely
    # (generation runs are single-worker TLC runs, independent of each other: side by side)
    gens = [("Gen_MetricsQuery_scenH.cfg", modH, 20), ("Gen_MetricsQuery_scenX.cfg", modX, 20), ("Gen_MetricsQuery_scenS.cfg", modS, 20),
            ("Gen_MetricsQuery_scenD.cfg", modD, 20),
            ("Gen_MetricsQuery_layout.cfg" if quick else "Gen_MetricsQuery_layout_deep.cfg", 1, 20),
            # long-series family: few series, 12 (thorough: also 20) samples each, histories that split them at every point
            ("Gen_MetricsQuery_scenL.cfg", 11 if quick else 3, 20), ("Gen_MetricsQuery_layoutL.cfg", 1, 20 if quick else 4),
            # universe R: regular-expression forms beyond alternation / dot-star (anchors, \\d \\w, \\., {n}, [..], empty)
            ("Gen_MetricsQuery_scenR.cfg", 1, 20)]      # 127 scenarios, all written; the cases are sampled from them by seed
    if not quick:
        gens += [("Gen_MetricsQuery_scenL20.cfg", 7, 20), ("Gen_MetricsQuery_layoutL20.cfg", 1, 40)]
    out = vlib.pmap(lambda g: tlc_generate_pick(g[0], chk.seed, g[1], modl=g[2]), gens, workers=len(gens))
    (scenH, gh), (scenX, gx), (scenS, gs), (scenD, gd), (lays, gl), (scenL, gL), (laysL, glL), (scenR, gR) = out[:8]
    chk.add_tlc("Gen_MetricsQuery_scenR", gR, "scenario generation, regular-expression universe (%d)" % len(scenR))
    if not scenR:
        raise vlib.Infra("no scenarios generated for universe R")
    chk.add_tlc("Gen_MetricsQuery_scenL", gL, "scenario generation, long series NT=12 (%d)" % len(scenL))
    chk.add_tlc("Gen_MetricsQuery_layoutL", glL, "layout histories for 12 samples per series (%d after the seed filter)" % len(laysL))
    if not quick:
        (scenL20, gL20), (laysL20, glL20) = out[8:10]
        chk.add_tlc("Gen_MetricsQuery_scenL20", gL20, "scenario generation, long series NT=20 (%d)" % len(scenL20))
        chk.add_tlc("Gen_MetricsQuery_layoutL20", glL20, "layout histories for 20 samples per series (%d after the seed filter)" % len(laysL20))
        scenL, laysL = scenL + scenL20, laysL + laysL20
    if not scenL or not laysL:
        raise vlib.Infra("no long-series behaviours generated (scenarios=%d layouts=%d)" % (len(scenL), len(laysL)))
    lays = lays + laysL
    chk.add_tlc("Gen_MetricsQuery_scenH", gh, "scenario generation, homogeneous universe (%d scenarios after the seed filter)" % len(scenH))
    chk.add_tlc("Gen_MetricsQuery_scenX", gx, "scenario generation, missing-label universe (%d)" % len(scenX))
    chk.add_tlc("Gen_MetricsQuery_scenS", gs, "scenario generation, suffix-key universe (%d)" % len(scenS))
    chk.add_tlc("Gen_MetricsQuery_scenD", gd, "scenario generation, universe with '-' in label values (%d)" % len(scenD))
    chk.add_tlc("Gen_MetricsQuery_layout", gl, "layout histories (%d)" % len(lays))
    if not scenH or not lays or not scenX or not scenS or not scenD:
        raise vlib.Infra("no behaviours generated (H=%d X=%d S=%d layouts=%d)" % (len(scenH), len(scenX), len(scenS), len(lays)))

    rnd = random.Random(chk.seed)
    nH, nX, nS, nD, nL, nR = (18, 6, 4, 3, 14, 5) if quick else (260, 40, 20, 12, 120, 40)
    lay_by_n = {}
    for l in lays:
        lay_by_n.setdefault((l["n"], l["nt"]), []).append(l)
    for n in lay_by_n:
        lay_by_n[n].sort(key=lambda l: json.dumps(l, sort_keys=True))

    def pick_layout(n, i, want_seg):
        pool = lay_by_n.get(n)
        if not pool:
            raise vlib.Infra("no layout history for %d series x %d timestamps" % n)
        # segment rotations cost >= 5 s wall each (metadata refresh): ration them
        pool2 = [l for l in pool if any(a["a"] == "segrotate" for a in l["hist"]) == want_seg and
                 (want_seg or l["nops"] >= 1 or i % 7 == 0)]
        return rnd.choice(pool2 or pool)

    cases = []
    idx = 0
    for univ, scens, n, nsub in (("H", scenH, nH, 48 if quick else 120), ("X", scenX, nX, 40), ("S", scenS, nS, 40),
                                  ("D", scenD, nD, 40), ("L", scenL, nL, 64), ("R", scenR, nR, 110)):
        scens = sorted(scens, key=lambda s: json.dumps(s["idx"]) + s["grid"])
        chosen = vlib.sample(scens, n, chk.seed * 31 + len(univ))
        if len(chosen) < n:
            chosen = chosen + [rnd.choice(scens) for _ in range(n - len(chosen))]
        for j, sc in enumerate(chosen):
            want_seg = (idx % (6 if quick else 4) == 3)
            lay = pick_layout((len(sc["series"]), len(sc["values"][0])), idx, want_seg)
            cases.append({"idx": idx, "univ": univ, "scen": sc, "hist": lay["hist"], "order": lay["order"],
                          "step": rnd.choice([1, 5, 10, 60]), "procs": rnd.choice([0, 0, 1, 2, 4]),
                          "seed": chk.seed * 7919 + idx, "nsub": nsub, "full": univ != "H" or not quick or j % 2 == 0})
            idx += 1

    binary = vlib.build_driver()
    results = vlib.pmap(lambda c: run_case(binary, c), cases, workers=WORKERS)
    nq = 0
    first, occurrences = {}, {}
    for c, res in zip(cases, results):
        chk.replayed(1)
        nq += res["n"]
        chk.count(n=res["n"])
        for cl in res["classes"]:
            chk.count(("q",) + cl, nontrivial=True, n=0)
        for key, detail, qtext, stage in res["fails"]:
            occurrences[key] = occurrences.get(key, 0) + 1
            if key not in first:
                first[key] = (detail, slim_case(c, qtext))
    chk.cov["all_violation_keys"] = dict(sorted(occurrences.items()))
    for key in sorted(first):       # one violation per signature, with the first (smallest case index) reproduction
        detail, rep = first[key]
        chk.violation(key, "%s  (%d occurrences in this run)" % (detail, occurrences[key]), rep)
    c0 = cases[0]
    chk.sample({"kind": "scenario+layout", "series": c0["scen"]["series"], "values": c0["scen"]["values"], "step": c0["step"],
                "layout": [a["a"] if a["a"] != "ingest" else "i%d@%d" % (a["i"], a["t"]) for a in c0["hist"]],
                "queries": [{"promql": q["text"], "expect_t0": q["expect"][0]} for q in c0["scen"]["queries"][:4]]})
    chk.cov["queries_run"] = nq
    chk.cov["cases"] = {"H": nH, "X": nX, "S": nS, "D": nD, "L": nL, "R": nR}
    chk.assumptions += [
        "every sample lies on the step grid and every series has exactly one sample per evaluation timestamp that is compared "
        "(timestamps whose ingest round is incomplete at a stage are not compared): lookback/staleness never decides an answer",
        "values are small integers; avg and / are compared against exact rationals within 1e-9 relative",
        "result identity: plain selectors by (metric name, label set); aggregations, scalar and vector arithmetic by label set only "
        "(the statement does not fix the metric name of derived vectors); on()/ignoring() one-to-one results by their match key",
        "queries whose vector matching is not well defined (duplicate match keys on a 'one' side) are not run",
        "a size-rotated segment is allowed the engine's metadata refresh period (polled up to 40 s, then exit 2) before it must be visible; after a "
        "size rotation every check is preceded by one iteration of the 60 s tags-tree flush timer (series that are new since the rotation "
        "are invisible until then - bounded staleness, reported in docs/C09.md as an observation, not a violation)",
    ]
    chk.describe(rule="TLC enumerates scenarios (3-4 series over {m,n} x a in {x,y,xy} x b in {p,q}; 3 value grids; ~380 queries each) and layout "
                    "histories (2 ingest orders x positions of <= MaxOps BlockFlush/SegRotate/Restart); a VERIF_SEED-selected set of "
                    "pairs is replayed. distinct_nontrivial = distinct (universe, query class, stage kind) triples that were compared "
                    "against a non-empty expected vector on the real engine",
                 exhaustive=False)


def replay(chk, path):
    d = json.load(open(path))
    case = d["replay"]
    print("key:", d["key"])
    print("what:", d["what"])
    print("series:", json.dumps(case["scen"]["series"]))
    print("values:", case["scen"]["values"], "step:", case["step"])
    print("layout:", [a["a"] if a["a"] != "ingest" else "i%d@%d" % (a["i"], a["t"]) for a in case["hist"]])
    case = dict(case)
    case["full"] = True
    binary = vlib.build_driver()
    res = run_case(binary, case)
    for key, detail, qtext, stage in res["fails"]:
        print("REPRODUCED", key, "::", detail)
    return 1 if res["fails"] else 0
