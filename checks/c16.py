"""C16 - all ingest protocols preserve event content and time.

Model: spec/Protocols.tla is deliberately thin: it states the preservation law (Stored keeps the probe value with its
  kind and level, identifiers, body, nothing of a sibling event; time(Stored) = arrival iff the event has no time,
  else ToMillis(event time)) and enumerates protocol x value kind x attribute level x ids x time unit x position.
Binding: for every enumerated case the harness builds the concrete payload of that protocol (ES bulk and single doc,
  Splunk HEC, Loki push JSON and protobuf, OTLP logs/traces/metrics protobuf, OpenTSDB put, Prometheus remote write
  snappy+protobuf), calls the real handler with a synthetic RequestCtx, flushes, searches / runs a selector query and
  compares the stored event with the logical one; the same logical values go through every protocol that can express
  them (cross-protocol agreement).
"""
import base64
import json
import os
import re
import struct
import time

import vlib

LEVEL = "model_checking"
CLAIMED = True   # set by the lead after review; only claimed checks enter MANIFEST.json

MANIFEST = dict(
    category="model_checking",
    technique="thin TLA+ spec (preservation law + enumeration of protocol x event class x time unit, TLC-checked and exported); "
              "every case is encoded in its protocol, pushed through the real handler function, flushed, queried back and "
              "compared with the logical event; cross-protocol agreement on the same logical values",
    text=("spec/Protocols.tla states the law Stored(Deliver(p, e, arrival)) keeps fields/attributes (record, resource, scope)/ids/body "
          "and time = IF e.time = none THEN arrival ELSE ToMillis(e.time), and TLC enumerates the 1 236 expressible cases of "
          "10 protocols x 11 value kinds (string, unicode/escapes, 'NaN' substring, int, negative, float, bool, >2^53 int, "
          "nested, array, nested members named like reserved top-level keys; 7 metric kinds) x attribute level x trace/span ids x time unit (none, s, fractional s, ms, ns, ns string, "
          "RFC3339) x request shape (alone; or between two mates - distinct logical events with their own marker, body, ids, values, time and "
          "attribute keys - in the same scope/stream/body, in sibling scopes/streams with disjoint scope attribute keys, in sibling "
          "resources with disjoint resource attribute keys; body lengths shrink, stay or grow along the request). EVERY event of a "
          "request is compared with ITS logical event; a metric series must carry exactly its own datapoint + scope + resource "
          "attributes; remote write sends two samples per series. Each case is "
          "encoded as ES bulk, ES single doc, Splunk HEC JSON, Loki push JSON, Loki push protobuf+snappy, OTLP logs, OTLP traces, "
          "OTLP metrics (protobuf), OpenTSDB put JSON, Prometheus remote write (protobuf+snappy), delivered to the handler's "
          "processing function, flushed and read back by search / PromQL selector; stored value (typed), attribute presence, "
          "ids, body, sibling contamination, multiplicity and time are compared; thorough repeats with 5 value seeds."),
    note=("The spec is thin by design: no state space worth the name (1 237 states); the evidence is the real-handler replay and the "
          "cross-protocol oracle. Per protocol only the time units that protocol defines are exercised (ES: s/ms/RFC3339, HEC: "
          "epoch seconds with fraction, Loki/OTLP: ns, OpenTSDB: s/ms, remote write: ms). Metrics stores keep whole seconds; that "
          "truncation is accepted. Attribute KEY normalisation of metrics ([^a-zA-Z0-9_] -> _) is accepted. One value per kind "
          "per seed, not all values; span events/links and histogram/summary metric points are not compared; gzip bodies are "
          "exercised only for OTLP logs."),
    design_ref="DESIGN.md 4/C16",
)

WORKERS = int(os.environ.get("VERIF_WORKERS", "0")) or min(vlib.NCPU, 8)
BASE_MS = 1_700_000_000_000
SHAPE_RANK = {"single": 0, "same_scope": 1, "sibling_scopes": 2, "sibling_resources": 3}
MARKER = re.compile(r"^c\d+s\d+$")
KEY = "pk"      # the probe attribute is named pk_<kind> so that a column never mixes value kinds


def key_of(e):
    return "%s_%s" % (KEY, e["kind"])
LOG_INDEX = {"es_bulk": "c16es", "es_doc": "c16doc", "splunk_hec": "c16hec", "loki_json": "loki-index", "loki_pb": "loki-index",
             "otlp_logs": "c16otl", "otlp_traces": "traces"}


def f2hex(f):
    return "%016x" % struct.unpack(">Q", struct.pack(">d", float(f)))[0]


# ------------------------------------------------------------------ the logical event of a case

def logical(case, n, seed):
    """n: ordinal of the case (unique); returns the logical event"""
    k = case["kind"]
    eid = "c%ds%d" % (n, seed)
    v = {
        "str": "hello world %s" % eid, "unicode": "héllo \"q\" \\ 世界 /%s" % eid, "empty": "", "nansub": "BaNaNa-%s" % eid,
        "int": 42 + n + 1000 * seed, "neg": -17 - n - 1000 * seed, "float": 2.3 + n / 4.0 + seed, "bool": (n + seed) % 2 == 0,
        "bigint": 9007199254740993 + 2 * (n + 1000 * seed), "nested": {"a": {"b": "deep-%s" % eid}}, "array": [1, "two-%s" % eid],
        "reserved": {"timestamp": "ts-%s" % eid, "_index": "ix-%s" % eid, "_id": "id-%s" % eid, "_type": "ty-%s" % eid, "time": 1000 + n,
                     "index": "in-%s" % eid, "host": "ho-%s" % eid, "source": "so-%s" % eid,
                     "sub": {"timestamp": {"deep": "d-%s" % eid, "timestamp": n + 7}, "_index": "six-%s" % eid}},
        "m_int": 42 + n, "m_frac": 3.7 + n + seed, "m_neg": -2.25 - n - seed, "m_big": 1e15 + n * 7 + seed, "m_small": 1.5e-9 * (n + 1 + seed),
        "m_tagnan": 1.0 + n, "m_tagunicode": 2.0 + n, "m_tagescapes": 3.0 + n,
    }[k]
    tag = {"m_tagnan": "BaNaNa-%s" % eid, "m_tagunicode": "héllo-世-%s" % eid, "m_tagescapes": 'q"uo\\te&<t>-%s' % eid}.get(k, "v-%s" % eid)
    ev_ms = BASE_MS + n * 1000 + 123 + 7 * seed
    e = {"eid": eid, "kind": k, "value": v, "tag": tag, "level": case["level"], "ids": case["ids"], "unit": case["time"],
         "pos": case["pos"], "body": "line of %s" % eid,
         "trace_id": "%032x" % (0xa1b2c3d4e5f60718293a4b5c6d7e8f90 + n), "span_id": "%016x" % (0x1122334455667788 + n)}
    u = case["time"]
    if u == "none":
        e["want_ms"] = None
    elif u in ("s", "s_str"):
        e["want_ms"] = (ev_ms // 1000) * 1000
    else:
        e["want_ms"] = ev_ms
    e["ev_ms"] = ev_ms
    return e


def time_value(e):
    u, ms = e["unit"], e["ev_ms"]
    if u == "s":
        return ms // 1000
    if u == "s_frac":
        return ms / 1000.0
    if u == "ms":
        return ms
    if u == "s_str":
        return str(ms // 1000)
    if u == "s_frac_str":
        return "%d.%03d" % (ms // 1000, ms % 1000)
    if u == "ms_str":
        return str(ms)
    if u == "ns":
        return ms * 1_000_000 + 456_789
    if u == "ns_str":
        return str(ms * 1_000_000 + 456_789)
    if u == "rfc3339":
        return time.strftime("%Y-%m-%dT%H:%M:%S", time.gmtime(ms // 1000)) + ".%03dZ" % (ms % 1000)
    return None


def batch_of(case, n, seed):
    """The logical events of the request of a case.  shape "single": the case event alone.  Otherwise the case event sits
    between two mates - distinct logical events of the same class (own marker, body, ids, probe value, time, and an attribute
    key only_<eid> nobody else has) - in the same innermost container (same_scope), in sibling scopes / streams of one
    resource (sibling_scopes: every scope has an attribute key sc_<eid> of its own) or in sibling resources
    (sibling_resources: every resource has an attribute key rs_<eid> of its own).  Body lengths shrink, stay or grow
    along the request depending on the case ordinal."""
    e = logical(case, n, seed)
    shape = case["pos"]
    if shape == "single":
        evs = [e]
    else:
        evs = [logical(case, n + 100000, seed), e, logical(case, n + 200000, seed)]
        pads = {0: (40, 20, 0), 1: (0, 0, 0), 2: (0, 20, 40)}[n % 3]
        for x, p in zip(evs, pads):
            x["body"] += " " + "p" * p if p else ""
    for j, x in enumerate(evs):
        x["slot"] = j
        x["case_event"] = x is e
        x["res"] = j if shape == "sibling_resources" else 0
        x["scope"] = j if shape == "sibling_scopes" else 0
        # for the escape-bearing kinds EVERY attribute value of the event needs JSON escaping (several escaped values per datapoint)
        dec = {"m_tagescapes": '"\\&<>', "m_tagunicode": "é世", "unicode": 'é"\\'}.get(x["kind"], "")
        x["own"] = {"only_" + x["eid"]: "o%s-%s" % (dec, x["eid"])}
        x["own_scope"] = {"sc_" + x["eid"]: "s%s-%s" % (dec, x["eid"])} if shape == "sibling_scopes" else {}
        x["own_res"] = {"rs_" + x["eid"]: "r%s-%s" % (dec, x["eid"])} if shape == "sibling_resources" else {}
        x["mates"] = [y["eid"] for y in evs if y is not x]
    return evs


def case_event(evs):
    return [x for x in evs if x["case_event"]][0]


def probe_here(evs, level, r, s=None, metric=False):
    """the case event's probe, if it sits at `level` of container (r[, s])"""
    e = case_event(evs)
    if e["level"] == level and e["res"] == r and (s is None or e["scope"] == s):
        return {key_of(e): e["tag"] if metric else e["value"]}
    return {}


def containers(evs):
    """[(res, [(scope, [events])])] in request order"""
    out = []
    for r in sorted(set(x["res"] for x in evs)):
        scopes = []
        for sc in sorted(set(x["scope"] for x in evs if x["res"] == r)):
            scopes.append((sc, [x for x in evs if x["res"] == r and x["scope"] == sc]))
        out.append((r, scopes))
    return out


# ------------------------------------------------------------------ encoders

def flat_doc(e, with_time=True):
    d = {"eid": e["eid"], "message": e["body"], key_of(e): e["value"]}
    d.update(e["own"])
    if e["ids"]:
        d["trace_id"], d["span_id"] = e["trace_id"], e["span_id"]
    tv = time_value(e)
    if with_time and tv is not None:
        d["timestamp"] = tv
    return d


def anyv(v):
    if isinstance(v, bool):
        return {"boolValue": v}
    if isinstance(v, int):
        return {"intValue": str(v)}
    if isinstance(v, float):
        return {"doubleValue": v}
    if isinstance(v, dict):
        return {"kvlistValue": {"values": [{"key": k, "value": anyv(x)} for k, x in v.items()]}}
    if isinstance(v, list):
        return {"arrayValue": {"values": [anyv(x) for x in v]}}
    return {"stringValue": v}


def kvs(d):
    return [{"key": k, "value": anyv(v)} for k, v in d.items()]


def b64hex(h):
    return base64.b64encode(bytes.fromhex(h)).decode()


def prom_samples(x):
    """remote write: two samples per series (the event and one a second later with another value)"""
    return [(x["ev_ms"], x["value"]), (x["ev_ms"] + 1000, x["value"] * 2 + 1)]


def send(dr, proto, evs):
    """delivers the request of a case; returns the list of handler answers"""
    e = case_event(evs)
    if proto == "es_bulk":
        body = "".join(json.dumps({"index": {"_index": LOG_INDEX[proto]}}) + "\n" + json.dumps(flat_doc(x)) + "\n" for x in evs)
        return [dr.ok("proto_http", handler="es_bulk", org=0, body=body, content_type="application/json")]
    if proto == "es_doc":
        return [dr.ok("proto_http", handler="es_doc", org=0, body=json.dumps(flat_doc(x)), content_type="application/json",
                      uservalues={"indexName": LOG_INDEX[proto]}) for x in evs]
    if proto == "splunk_hec":
        objs = []
        for x in evs:
            o = {"host": "h-" + x["eid"], "source": "src", "sourcetype": "st", "index": LOG_INDEX[proto], "event": flat_doc(x, with_time=False)}
            tv = time_value(x)
            if tv is not None:
                o["time"] = tv
            objs.append(json.dumps(o))
        return [dr.ok("proto_http", handler="splunk_hec", org=0, body="\n".join(objs), content_type="application/json")]
    if proto == "loki_json":
        streams = []
        for r, scopes in containers(evs):
            for sc, xs in scopes:
                vals = []
                for x in xs:
                    meta = {key_of(x): x["value"], "eid": x["eid"]}
                    meta.update(x["own"])
                    if x["ids"]:
                        meta["trace_id"], meta["span_id"] = x["trace_id"], x["span_id"]
                    vals.append([time_value(x), x["body"], meta])
                labels = {"job": "c16", "stream_of": "st-%s-%d" % (e["eid"], sc)}
                for x in xs:
                    labels.update(x["own_scope"])
                streams.append({"stream": labels, "values": vals})
        return [dr.ok("proto_http", handler="loki", org=0, body=json.dumps({"streams": streams}), content_type="application/json")]
    if proto == "loki_pb":
        # protobuf push: labels string + entries(timestamp, line); everything but the line travels as labels: one stream per event
        streams = []
        for x in evs:
            labels = {"eid": x["eid"], key_of(x): x["value"], "job": "c16"}
            labels.update(x["own"])
            labels.update(x["own_scope"])
            if x["ids"]:
                labels["trace_id"], labels["span_id"] = x["trace_id"], x["span_id"]
            ls = "{" + ", ".join('%s="%s"' % (k, v) for k, v in labels.items()) + "}"
            ns = x["ev_ms"] * 1_000_000 + 456_789
            ts = time.strftime("%Y-%m-%dT%H:%M:%S", time.gmtime(ns // 10 ** 9)) + ".%09dZ" % (ns % 10 ** 9)
            streams.append({"labels": ls, "entries": [{"timestamp": ts, "line": x["body"]}]})
        return [dr.ok("proto_pb", handler="loki", org=0, json=json.dumps({"streams": streams}))]
    if proto in ("otlp_logs", "otlp_traces", "otlp_metrics"):
        metric = proto == "otlp_metrics"
        name = "c16_%s_%s" % (proto, e["eid"])
        resources = []
        for r, scopes in containers(evs):
            res = {"service.name": "svc-c16"}
            if proto == "otlp_logs":
                res["siglensIndexName"] = LOG_INDEX[proto]
            res.update(probe_here(evs, "resource", r, metric=metric))
            for sc, xs in scopes:
                for x in xs:
                    res.update(x["own_res"])
            sc_msgs = []
            for sc, xs in scopes:
                scope = dict(probe_here(evs, "scope", r, sc, metric=metric))
                for x in xs:
                    scope.update(x["own_scope"])
                items = []
                for x in xs:
                    attrs = {"eid": x["eid"]}
                    attrs.update(x["own"])
                    if x["level"] == "record":
                        attrs[key_of(x)] = x["tag"] if metric else x["value"]
                    if proto == "otlp_logs":
                        it = {"severityNumber": 9, "severityText": "INFO", "body": anyv(x["body"]), "attributes": kvs(attrs)}
                        if x["unit"] == "ns":
                            it["timeUnixNano"] = str(time_value(x))
                            it["observedTimeUnixNano"] = str(time_value(x) + 1_000_000_000)
                        if x["ids"]:
                            it["traceId"], it["spanId"] = b64hex(x["trace_id"]), b64hex(x["span_id"])
                    elif proto == "otlp_traces":
                        attrs["message"] = x["body"]
                        ns = time_value(x)
                        it = {"traceId": b64hex(x["trace_id"]), "spanId": b64hex(x["span_id"]), "name": "op-" + x["eid"], "kind": 2,
                              "startTimeUnixNano": str(ns), "endTimeUnixNano": str(ns + 5_000_000), "attributes": kvs(attrs), "status": {"code": 1}}
                    else:
                        it = {"attributes": kvs(attrs), "timeUnixNano": str(time_value(x))}
                        if x["kind"] == "m_int":
                            it["asInt"] = str(int(x["value"]))
                        else:
                            it["asDouble"] = x["value"]
                    items.append(it)
                sc_hdr = {"name": "scope-c16-%d" % sc, "version": "1.2.3", "attributes": kvs(scope)}
                if proto == "otlp_logs":
                    sc_msgs.append({"scope": sc_hdr, "logRecords": items})
                elif proto == "otlp_traces":
                    sc_msgs.append({"scope": sc_hdr, "spans": items})
                else:
                    m = {"name": name}
                    if len(e["eid"]) % 2 == 0:
                        m["gauge"] = {"dataPoints": items}
                    else:
                        m["sum"] = {"dataPoints": items, "aggregationTemporality": 2, "isMonotonic": False}
                    sc_msgs.append({"scope": sc_hdr, "metrics": [m]})
            key = {"otlp_logs": "scopeLogs", "otlp_traces": "scopeSpans", "otlp_metrics": "scopeMetrics"}[proto]
            resources.append({"resource": {"attributes": kvs(res)}, key: sc_msgs})
        top = {"otlp_logs": "resourceLogs", "otlp_traces": "resourceSpans", "otlp_metrics": "resourceMetrics"}[proto]
        kw = {"gzip": len(e["eid"]) % 2 == 0} if proto == "otlp_logs" else {}
        return [dr.ok("proto_pb", handler=proto, org=0, json=json.dumps({top: resources}), **kw)]
    # ---- metrics over JSON / remote write
    name = "c16_%s_%s" % (proto, e["eid"])
    if proto == "otsdb":
        pts = []
        for x in evs:
            tags = {"eid": x["eid"], key_of(x): x["tag"]}
            tags.update(x["own"])
            pts.append({"metric": name, "tags": tags, "timestamp": time_value(x), "value": x["value"]})
        return [dr.ok("proto_http", handler="otsdb", org=0, body=json.dumps(pts), content_type="application/json")]
    if proto == "prom_rw":
        tss = []
        for x in evs:
            labels = [{"name": "__name__", "value": name}, {"name": "eid", "value": x["eid"]}, {"name": key_of(x), "value": x["tag"]}]
            labels += [{"name": k, "value": v} for k, v in x["own"].items()]
            tss.append({"labels": labels, "samples": [{"value": v, "timestamp": t} for t, v in prom_samples(x)]})
        return [dr.ok("proto_promrw", org=0, json=json.dumps({"timeseries": tss}))]
    raise vlib.Infra("unknown protocol %s" % proto)


# ------------------------------------------------------------------ comparison

def find_cols(rec, key):
    """columns that carry logical key `key` (wherever the protocol's flattening put it)"""
    return {c: v for c, v in rec.items() if c == key or c.endswith("." + key) or c.startswith(key + ".") or ("." + key + ".") in c}


def leaves(v, path=""):
    if isinstance(v, dict):
        out = []
        for k, x in v.items():
            out += leaves(x, (path + "." if path else "") + k)
        return out
    return [(path, v)]


def same_value(kind, want, cols, key):
    """is the logical value present with its kind"""
    if kind in ("nested", "reserved"):
        # every leaf of the nested value must be stored under <...>key.<path of the leaf>
        return all(any(c.endswith(key + "." + path) and v == leaf and type(v) is type(leaf) for c, v in cols.items()) for path, leaf in leaves(want))
    if kind == "array":
        marker = want[1]
        for c, v in cols.items():
            if v == marker:
                return True
            if isinstance(v, str) and marker in v:
                try:
                    return json.loads(v) == want
                except ValueError:
                    return False
            if isinstance(v, list) and v == want:
                return True
        return False
    for c, v in cols.items():
        if c == key or c.endswith("." + key):
            if isinstance(want, bool) or isinstance(v, bool):
                if v is want:
                    return True
            elif isinstance(want, (int, float)) and isinstance(v, (int, float)):
                if v == want and (isinstance(want, float) or isinstance(v, int) or float(v).is_integer()):
                    return True
            elif v == want:
                return True
    return False


def carries(name, key):
    return name == key or name.endswith("." + key)


def judge_log(proto, e, recs, window):
    """e: one logical event of a request (the case event or one of its mates); every stored event is compared with ITS
    logical event"""
    out = []
    who = "" if e["case_event"] else " (mate %d of the case event, same request)" % e["slot"]
    mine = [r for r in recs if any(v == e["eid"] for v in r.values())]
    if not mine:
        return [("C16:%s:event-lost" % proto, "no stored event carries marker %s%s" % (e["eid"], who))]
    if len(mine) > 1:
        out.append(("C16:%s:duplicated" % proto, "%d stored events carry marker %s%s" % (len(mine), e["eid"], who)))
    r = mine[0]
    # probe: the case event's at its level; a mate's own one at record level
    KEYE = key_of(e)
    if e["case_event"] or e["level"] == "record":
        cols = find_cols(r, KEYE)
        if not cols:
            out.append(("C16:%s:attribute-lost:%s" % (proto, e["level"]), "%s-level attribute %r (kind %s) is not stored%s: columns %s" % (
                e["level"], KEYE, e["kind"], who, sorted(r))))
        elif not same_value(e["kind"], e["value"], cols, KEYE):
            out.append(("C16:%s:value-changed:%s" % (proto, e["kind"]), "%s-level %r sent as %r, stored as %r%s" % (e["level"], KEYE, e["value"], cols, who)))
    # the attributes only this event / its scope / its resource has
    for level, d in (("record", e["own"]), ("scope", e["own_scope"]), ("resource", e["own_res"])):
        for k, v in d.items():
            if not any(carries(c, k) and x == v for c, x in r.items()):
                out.append(("C16:%s:attribute-lost:%s" % (proto, level), "%s-level attribute %s=%r is not stored%s: columns %s" % (level, k, v, who, sorted(r))))
    foreign = sorted(c for c in r if any(carries(c, p + m) for m in e["mates"] for p in ("only_", "sc_", "rs_")))
    if foreign:
        out.append(("C16:%s:contaminated-by-sibling" % proto, "the stored event %s carries attribute(s) %s that only OTHER events / scopes / resources of the same "
                    "request have" % (e["eid"], foreign)))
    if e["ids"]:
        vals = set(str(v) for v in r.values())
        if e["trace_id"] not in vals or e["span_id"] not in vals:
            out.append(("C16:%s:ids-changed" % proto, "trace/span id %s/%s not stored verbatim%s: %s" % (
                e["trace_id"], e["span_id"], who, {c: v for c, v in r.items() if "trace" in c or "span" in c})))
    if not any(v == e["body"] for v in r.values()):
        out.append(("C16:%s:body-lost" % proto, "body/message %r not stored%s: %s" % (e["body"], who, {c: v for c, v in r.items() if c in ("body", "line", "message", "event.message")})))
    ts = r.get("timestamp")
    if e["want_ms"] is None:
        if not (isinstance(ts, int) and window[0] - 5 <= ts <= window[1] + 5):
            out.append(("C16:%s:time:not-arrival-for-timeless-event" % proto, "event without time stored at %s, arrival window %s" % (ts, window)))
    else:
        if isinstance(ts, int) and abs(ts - e["want_ms"]) <= (1 if e["unit"] in ("s_frac", "s_frac_str") else 0):
            pass
        elif isinstance(ts, int) and window[0] - 5 <= ts <= window[1] + 5:
            out.append(("C16:%s:time:arrival-used-although-event-has-time" % proto, "event time %s (%s: %r) but stored at arrival time %s" % (
                e["want_ms"], e["unit"], time_value(e), ts)))
        else:
            out.append(("C16:%s:time:wrong:%s" % (proto, e["unit"]), "event time %s (%s: %r) stored as %s%s" % (e["want_ms"], e["unit"], time_value(e), ts, who)))
    return out


def norm_key(k):
    return re.sub(r"[^a-zA-Z0-9_]", "_", k)


def parse_gid(gid):
    """'name{k:v,k:v,' -> {k: v}"""
    body = gid[gid.index("{") + 1:] if "{" in gid else ""
    tags = {}
    for part in body.split(","):
        if ":" in part:
            k, v = part.split(":", 1)
            tags[k] = v
    return tags


def expected_tags(proto, e, evs):
    """series identity = exactly the event's own attributes (+ those of its scope and resource for OTLP)"""
    t = {"eid": e["eid"]}
    t.update(e["own"])
    if proto == "otlp_metrics":
        t["service.name"] = "svc-c16"
        t.update(e["own_scope"])
        t.update(e["own_res"])
        t.update(probe_here(evs, "resource", e["res"], metric=True))
        t.update(probe_here(evs, "scope", e["res"], e["scope"], metric=True))
        if e["level"] == "record":
            t[key_of(e)] = e["tag"]
    else:
        t[key_of(e)] = e["tag"]
    return {norm_key(k): v for k, v in t.items()}


def judge_metric(proto, e, evs, series):
    """series: {gid: [[ts, hexbits, float]...]} of the metric named after the case"""
    out = []
    who = "" if e["case_event"] else " (mate %d of the case event, same request)" % e["slot"]
    mine = {g: p for g, p in series.items() if parse_gid(g).get("eid") == e["eid"]}
    if not mine:
        return [("C16:%s:event-lost" % proto, "no series with tag eid=%s%s; series: %s" % (e["eid"], who, sorted(series)))]
    if len(mine) > 1:
        out.append(("C16:%s:duplicated" % proto, "several series carry eid=%s: %s" % (e["eid"], sorted(mine))))
    gid, pts = sorted(mine.items())[0]
    got, want = parse_gid(gid), expected_tags(proto, e, evs)
    pk = norm_key(key_of(e))
    for k in sorted(set(want) - set(got)):
        level = "scope" if k.startswith("sc_") else "resource" if k.startswith("rs_") or k == "service_name" else (e["level"] if k == pk else "record")
        out.append(("C16:%s:attribute-lost:%s" % (proto, level), "%s-level attribute %s=%r is not a tag of the stored series %r%s" % (level, k, want[k], gid, who)))
    for k in sorted(set(want) & set(got)):
        if got[k] != want[k]:
            out.append(("C16:%s:value-changed:tag:%s" % (proto, e["kind"] if k == pk else k.split("_")[0]), "tag %s sent as %r, series is %r%s" % (k, want[k], gid, who)))
    extra = sorted(set(got) - set(want))
    if extra:
        mates_keys = [k for k in extra if any(k in (p + m) for m in e["mates"] for p in ("only_", "sc_", "rs_"))]
        out.append(("C16:%s:contaminated-by-sibling" % proto if mates_keys else "C16:%s:series-identity:foreign-tag" % proto,
                    "the series of %s carries tag(s) %s the datapoint never had (sent: %s; stored series %r)%s" % (e["eid"], extra, sorted(want), gid, who)))
    if proto == "prom_rw":
        want_pts = [(t // 1000, f2hex(v), v) for t, v in prom_samples(e)]
    else:
        want_pts = [(e["want_ms"] // 1000, f2hex(e["value"]), e["value"])]
    if len(pts) != len(want_pts):
        out.append(("C16:%s:duplicated" % proto if len(pts) > len(want_pts) else "C16:%s:sample-lost" % proto,
                    "%d datapoints stored for %d sent%s: %s" % (len(pts), len(want_pts), who, pts)))
    for (wts, wbits, wv), p in zip(want_pts, pts):
        ts, bits, val = p
        if ts != wts:
            out.append(("C16:%s:time:wrong:%s" % (proto, e["unit"]), "datapoint time %s (%s: %r) stored at second %s%s" % (wts, e["unit"], time_value(e), ts, who)))
        if bits != wbits:
            out.append(("C16:%s:value-changed:%s" % (proto, e["kind"]), "datapoint value %r stored as %r%s" % (wv, val, who)))
    return out


def run_protocol(binary, proto, cases, seed):
    """all cases of one protocol on one engine.  Returns [(case, logical case event, [(key, text)], stored)]."""
    d = vlib.scratch("c16")
    dr = None
    res = []
    try:
        dr = vlib.Driver(binary)
        dr.ok("init", dir=d)
        sent = []
        for (n, c) in cases:
            evs = batch_of(c, n, seed)
            t0 = int(time.time() * 1000)
            answers = send(dr, proto, evs)
            t1 = int(time.time() * 1000)
            bad = [a for a in answers if a.get("status") not in (200, 201) or
                   (isinstance(a.get("body"), dict) and isinstance(a["body"].get("failed"), int) and a["body"]["failed"] > 0)]
            sent.append((n, c, evs, (t0, t1), bad))
        if proto in LOG_INDEX:
            dr.ok("flush")
            q = dr.ok("query", org=0, index=LOG_INDEX[proto], text="*", start=1, end=4_102_444_800_000, size=50000)
            if "qerr" in q or q.get("hang"):
                raise vlib.Infra("C16 search failed for %s: %s" % (proto, q))
            recs = (q.get("hits") or {}).get("records") or []
            by_marker = {}
            for r in recs:
                for v in r.values():
                    if isinstance(v, str) and MARKER.match(v):
                        by_marker.setdefault(v, []).append(r)
            for (n, c, evs, win, bad) in sent:
                e = case_event(evs)
                if bad:
                    res.append((c, e, [("C16:%s:rejected:%s" % (proto, c["kind"] if c["kind"] not in ("str",) else "time-" + c["time"]),
                                        "handler answered %s for an event the protocol can express" % json.dumps(bad[0])[:300])], None))
                    continue
                v = []
                for x in evs:
                    v += judge_log(proto, x, by_marker.get(x["eid"], []), win)
                res.append((c, e, v, [by_marker.get(x["eid"], [None])[0] for x in evs]))
        else:
            for (n, c, evs, win, bad) in sent:
                e = case_event(evs)
                if bad:
                    res.append((c, e, [("C16:%s:rejected:%s" % (proto, c["kind"]), "handler answered %s" % json.dumps(bad[0])[:300])], None))
                    continue
                name = "c16_%s_%s" % (proto, e["eid"])
                lo = min(x["want_ms"] for x in evs) // 1000
                hi = max(x["want_ms"] for x in evs) // 1000
                series = {}
                err = None
                for x in evs:      # the events of a request are days apart: one narrow selector query per event
                    sec = x["want_ms"] // 1000
                    r = dr.ok("mquery", org=0, promql=name, start=sec - 5, end=sec + 5, step=1)
                    if "qerr" in r:
                        err = r["qerr"]
                        break
                    for g, p in (r.get("series") or {}).items():
                        series.setdefault(g, [])
                        series[g] += [q_ for q_ in p if q_ not in series[g]]
                if err is not None:
                    res.append((c, e, [("C16:%s:event-lost" % proto, "selector %s failed: %s" % (name, err))], None))
                    continue
                v = []
                for x in evs:
                    v += judge_metric(proto, x, evs, series)
                res.append((c, e, v, series))
    except vlib.DriverDead as ex:
        if ex.kind == "hang" or ex.rc in (-15, -9, -2):
            raise vlib.Infra("engine did not answer in time or was killed from outside (machine load / cleanup?): %s" % ex)
        res.append(({"proto": proto}, {}, [("C16:%s:engine-died" % proto, str(ex))], None))
    finally:
        if dr is not None:
            dr.quit()
        vlib.rmtree(d)
    return res


def run(chk):
    quick = chk.tier == "quick"
    r = vlib.run_tlc("MC_Protocols", "MC_Protocols.cfg", timeout=600, coverage=True, workers=2)
    vlib.tlc_must_hold(r, "Protocols law")
    chk.add_tlc("MC_Protocols", r, "Preserved, TimeLaw, ArrivalOnlyWithoutTime, CrossAgree over the product of expressible cases")
    beh, rg = vlib.tlc_generate("Gen_Protocols", "Gen_Protocols.cfg", timeout=600)
    chk.add_tlc("Gen_Protocols", rg, "export of every expressible case")
    if not beh:
        raise vlib.Infra("no cases generated")
    cases = sorted((b["case"] for b in beh), key=lambda c: json.dumps(c, sort_keys=True))
    binary = vlib.build_driver()
    seeds = [chk.seed] if quick else [chk.seed * 10 + i for i in range(5)]
    jobs = []
    for s in seeds:
        byp = {}
        for n, c in enumerate(cases):
            byp.setdefault(c["proto"], []).append((n, c))
        for p, cs in byp.items():
            jobs.append((p, cs, s))
    results = vlib.pmap(lambda j: run_protocol(binary, j[0], j[1], j[2]), jobs, workers=WORKERS)
    found = {}
    stored_vals = {}      # (kind, seed-independent) -> {proto: ok?}
    for (p, cs, s), rs in zip(jobs, results):
        for (c, e, viol, stored) in rs:
            chk.replayed(1)
            chk.count(json.dumps(c, sort_keys=True), nontrivial=(c.get("time") != "none" or c.get("kind") not in ("str",)))
            okv = not any(k.split(":")[2].startswith("value-changed") or k.split(":")[2].startswith("attribute-lost") for k, _ in viol)
            if c.get("level") == "record" and c.get("pos") == "single":
                stored_vals.setdefault(c.get("kind"), {}).setdefault(p, []).append(okv)
            seen = set()
            for key, text in viol:
                if key in seen:
                    continue
                seen.add(key)
                size = (SHAPE_RANK.get(c.get("pos"), 9), 0 if not c.get("ids") else 1, 0 if c.get("kind") in ("str", "m_frac") else 1)
                f = found.get(key)
                if f is None or size < f["size"]:
                    found[key] = {"size": size, "text": text, "n": (f["n"] if f else 0) + 1,
                                  "rp": {"case": c, "seed": s, "ordinal": cases.index(c) if c in cases else -1, "logical": e, "stored": stored}}
                else:
                    f["n"] += 1
            if len(chk.cov["samples"]) < 4 and stored is not None and c.get("time") not in ("none",) and c.get("pos") == "sibling_scopes":
                chk.sample({"case": c, "stored": stored if not isinstance(stored, dict) or len(json.dumps(stored)) < 1500 else "(large)", "violations": [k for k, _ in viol]})
    # cross-protocol agreement: a logical value kind that some protocol stores intact and another does not
    cross = {}
    for kind, byp in stored_vals.items():
        good = sorted(p for p, oks in byp.items() if all(oks))
        badp = sorted(p for p, oks in byp.items() if not all(oks))
        if good and badp:
            cross[kind] = {"intact_through": good, "changed_through": badp}
    chk.cov["cross_protocol_disagreement"] = cross
    for key in sorted(found):
        f = found[key]
        chk.violation(key, "%s  [%d cases with this signature; simplest shown: %s]" % (f["text"], f["n"], json.dumps(f["rp"]["case"], sort_keys=True)), f["rp"])
    chk.assumptions += [
        "arrival time = wall clock interval of the handler call (same host), +-5 ms",
        "an attribute is 'stored' if some column named <key>, *.<key> or <key>.* carries the value with its JSON kind; where the protocol's "
        "flattening puts it is not prescribed",
        "metrics keep whole seconds; metric attribute keys may be normalised to [a-zA-Z0-9_]",
    ]
    chk.describe(rule="one case per expressible (protocol, value kind, attribute level, ids, time unit, position); distinct_nontrivial = "
                      "cases with an explicit time or a non-plain-string value",
                 exhaustive=True)


def replay(chk, path):
    d = json.load(open(path))
    rp = d["replay"]
    c = rp["case"]
    binary = vlib.build_driver()
    rs = run_protocol(binary, c["proto"], [(rp["ordinal"], c)], rp["seed"])
    print("key:", d["key"])
    print("case:", json.dumps(c, sort_keys=True))
    hit = False
    for (_, e, viol, stored) in rs:
        print("logical event:", json.dumps(e, ensure_ascii=False)[:800])
        print("stored:", json.dumps(stored, ensure_ascii=False)[:1500])
        for k, t in viol:
            print("  ", k, "::", t[:400])
            hit = hit or k == d["key"]
    print("REPRODUCED" if hit else "NOT REPRODUCED")
    return 1 if hit else 0
