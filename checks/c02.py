"""C02 - search filters select exactly the events that satisfy them.

Model: spec/SearchSemantics.tla (Values part + Cell/TermCell/Adm: the reference semantics with
  SETS of admissible outcomes where the statement is silent).  TLC evaluates the laws the statement
  names over the full product stored value x operator x literal, every (pattern, text) pair of the
  small alphabet, every depth<=2 expression over leaf tuples, and every block/range pair.
Binding: spec/Gen_SearchSemantics.tla exports the dataset, every leaf of the full product, every
  composite expression and the boundary ranges with the expected must/may id sets.  Each case is
  rendered as SPL, run through the real engine (sigdrv bulk/flush/rotate/query) on several physical
  layouts of the same dataset and compared:
    bounds     must <= result <= may                                (R1 R2 R5)
    where      search-clause result == `* | where ...` result on events whose field is numeric (R3)
    algebra    result(A AND B) == result(A) & result(B), OR == |, NOT == universe - result(A),
               evaluated on the REAL operand results so that a wrong leaf cannot hide or fake it (R4)
    range      result on [lo,hi] == result on the whole range restricted to [lo,hi]   (R5)
    layouts    where the cell is open, every layout must still give the same answer
"""
import json
import os
import random
import time

import vlib

LEVEL = "model_checking"

CLAIMED = True   # set by the lead after review; only claimed checks enter MANIFEST.json
MANIFEST = dict(
    category="model_checking",
    technique="TLA+ reference semantics of search filters with admissible-outcome sets (TLC exhaustive over value x operator x "
              "literal, pattern x text, depth<=2 expressions) + replay of every TLC-exported case as SPL on the real engine "
              "over 8 physical layouts of the same dataset (open/rotated x all-dictionary/plain/mixed encoding, split, two-segment), with metamorphic relations where the outcome is open",
    text=("spec/SearchSemantics.tla defines Cell(stored value, op, literal), free-text term/phrase/wildcard matching computed on "
          "character sequences, AND/OR/NOT lifting and the inclusive time range; TLC checks spelling independence of numeric "
          "comparison, trichotomy, case-insensitivity, search==where on numeric fields, the set algebra and prune soundness. "
          "Gen_SearchSemantics exports dataset, all 491 leaves, all depth<=2 expressions over 4 leaf tuples and boundary ranges "
          "with must/may id sets; checks/c02.py runs them as SPL through ParseAndExecutePipeRequest on open/rotated, "
          "dictionary/plain, split-by-kind and two-segment layouts."),
    note=("Small alphabet {a,b,A,B,space}, numbers in halves between -2 and 3, 10 events; regex/CASE()/TERM() directives, IN, "
          "multi-value fields and nested JSON are not modelled. Open cells (bool columns, ordering between text and numbers, "
          "!= on a missing field, quoted numeric literals on numbers) only get the metamorphic relations. Bloom/range pruning "
          "soundness on larger blocks is C03."),
    design_ref="DESIGN.md 4/C02, docs/C02.md",
)

T0 = 1_700_000_000_000
NUMFIELD = ("int", "flt")


# ----------------------------------------------------------------------------- concretisation

def conc_value(v):
    k = v["k"]
    if k == "absent":
        return None
    if k == "int":
        return v["n"] // 2
    if k == "flt":
        return v["n"] / 2.0
    if k == "bool":
        return bool(v["n"])
    return "".join(v["c"])


def conc_events(ds, t0):
    out = []
    for ev in sorted(ds["events"], key=lambda e: e["id"]):
        e = {"id": ev["id"], "timestamp": t0 + ev["ts"]}
        for col, v in sorted(ev["f"].items()):
            cv = conc_value(v)
            if cv is not None:
                e[col] = cv
        out.append(e)
    return out


def lit_text(lit, quote_words=False):
    s = "".join(lit["c"])
    if lit["lk"] in ("int", "dec"):
        return s
    if lit["lk"] == "qnum" or " " in s or quote_words:
        return '"%s"' % s
    return s


def leaf_text(lf, quote_words=False):
    if lf["t"] == "cmp":
        return "%s%s%s" % (lf["col"], lf["op"], lit_text(lf["lit"], quote_words))
    return lit_text(lf["lit"], quote_words)


def sub_text(s, leaves):
    a, b = leaf_text(leaves[s["a"] - 1]), leaf_text(leaves[s["b"] - 1])
    return comb_text(s["o"], a, b)


def comb_text(o, a, b):
    if o == "id":
        return a
    if o == "not":
        return "NOT (%s)" % a
    return "(%s) %s (%s)" % (a, o.upper(), b)


def top_text(e, leaves):
    return comb_text(e["o"], sub_text(e["L"], leaves), sub_text(e["R"], leaves))


# ----------------------------------------------------------------------------- layouts

def layouts(tier):
    allrows = list(range(10))
    ls = [
        dict(name="open-dict", card=None, parts=[(allrows, "flush")]),
        dict(name="rot-dict", card=None, parts=[(allrows, "rotate")]),
        dict(name="rot-plain", card=1, parts=[(allrows, "rotate")]),
        # every kind of the mixed column in its own block of one rotated segment
        dict(name="split-kind", card=None, parts=[([0, 1], "flush"), ([2, 3], "flush"), ([4, 5], "flush"), ([6, 7], "flush"),
                                                  ([8, 9], "rotate")]),
        # numbers and numeric strings of the mixed column share a block (consolidated to numbers); rotated + open segment
        dict(name="two-seg", card=None, parts=[([0, 1, 2, 3, 4, 5], "rotate"), ([6, 7, 8, 9], "flush")]),
        dict(name="open-plain", card=1, parts=[(allrows, "flush")]),
        # cardinality limit 10: the ten-valued id column is stored record by record, every other column (the text ones
        # included) is dictionary encoded: the dictionary pre-pass AND the per-record pass of a filter both run
        dict(name="open-mixenc", card=10, parts=[(allrows, "flush")]),
        dict(name="rot-mixenc", card=10, parts=[(allrows, "rotate")]),
    ]
    for l in ls:
        l["enc"] = {None: "all-dict", 1: "plain", 10: "mixed-enc"}[l["card"]]
    return ls


def block_class(layout, ds_events, col, eid):
    """How the column of this event's block was consolidated at flush time (writer.consolidateColumnTypes):
    nocol  - no event of the block has the column
    pure   - one kind, or int+float
    nummix - numeric strings together with numbers (and nothing else): converted to numbers
    strmix - text or bool together with anything else: converted to strings"""
    for rows, _ in layout["parts"]:
        if eid in rows:
            kinds = set(ds_events[r]["f"][col]["k"] for r in rows) - {"absent"}
            if not kinds:
                return "nocol"      # the column does not exist in this block at all
            if len(kinds) <= 1 or kinds <= {"int", "flt"}:
                return "pure"
            if kinds <= {"int", "flt", "numstr"}:
                return "nummix"
            return "strmix"
    return "pure"


# ----------------------------------------------------------------------------- engine

def run_layout(binary, layout, events, queries, t0, chunk=2500):
    """-> {(text, lo, hi): sorted ids | 'ERR:...'}; raises DriverDead.  One server life answers at most `chunk` queries
    (the dataset is re-ingested with the same layout for the next chunk)."""
    out = {}
    queries = list(queries)
    for i in range(0, max(len(queries), 1), chunk):
        out.update(run_layout1(binary, layout, events, queries[i:i + chunk], t0))
    return out


def run_layout1(binary, layout, events, queries, t0):
    d = vlib.scratch("c02")
    dr = None
    try:
        dr = vlib.Driver(binary)
        dr.ok("init", dir=d)
        if layout.get("card") is not None:
            dr.ok("sa_cardlimit", n=layout["card"])
        for rows, act in layout["parts"]:
            body = "".join(json.dumps({"index": {"_index": "c02"}}) + "\n" + json.dumps(events[r]) + "\n" for r in rows)
            r = dr.ok("bulk", body=body)
            if r.get("processed") != len(rows) or r["response"].get("errors"):
                raise vlib.Infra("bulk rejected dataset rows: %s" % json.dumps(r)[:300])
            dr.ok("flush")
            if act == "rotate":
                dr.ok("rotate")
        out = {}
        for (text, lo, hi) in queries:
            r = dr.ok("query", index="c02", text=text, start=t0 + lo, end=t0 + hi, size=1000)
            if "qerr" in r:
                out[(text, lo, hi)] = "ERR:" + r["qerr"][-160:]
            elif r.get("hang"):
                raise vlib.Infra("query did not finish: %s" % text)
            else:
                recs = (r.get("hits") or {}).get("records") or []
                out[(text, lo, hi)] = sorted(x.get("id") for x in recs)
        return out
    finally:
        if dr is not None:
            dr.quit()
        vlib.rmtree(d)


# ----------------------------------------------------------------------------- relations (shared by run and replay)

def rel_eval(rel, res):
    """res: {(text,lo,hi): ids or 'ERR..'} of ONE layout.  -> None if the relation holds, else a description."""
    def R(q):
        v = res.get(tuple(q))
        if v is None:
            raise vlib.Infra("missing query result %s" % (q,))
        return v
    t = rel["type"]
    if t == "bounds":
        got = R(rel["q"])
        if isinstance(got, str):
            return "query error: %s" % got
        g = set(got)
        miss, extra = set(rel["must"]) - g, g - set(rel["may"])
        if miss or extra:
            return "got %s, must contain %s, may contain %s (missing %s, extra %s)" % (got, rel["must"], rel["may"], sorted(miss), sorted(extra))
        return None
    if t == "equal-on":
        a, b = R(rel["a"]), R(rel["b"])
        if isinstance(a, str) or isinstance(b, str):
            return None  # a where-stage parse problem is not a filter verdict
        ids = set(rel["ids"])
        if set(a) & ids != set(b) & ids:
            return "search clause %s vs where stage %s on the events whose field is numeric %s (reference: must %s, may %s)" % (
                sorted(set(a) & ids), sorted(set(b) & ids), sorted(ids), sorted(set(rel.get("must", [])) & ids), sorted(set(rel.get("may", [])) & ids))
        return None
    if t == "comb":
        u, l, r, got = R(rel["u"]), R(rel["l"]), R(rel["r"]), R(rel["res"])
        if any(isinstance(x, str) for x in (u, l, r, got)):
            return "query error: %s" % [x for x in (u, l, r, got) if isinstance(x, str)][0]
        want = {"and": set(l) & set(r), "or": set(l) | set(r), "not": set(u) - set(l)}[rel["op"]]
        if set(got) != want:
            return "%s: got %s, operands gave %s%s, so the result must be %s" % (
                rel["op"].upper(), got, l, "" if rel["op"] == "not" else " and %s" % r, sorted(want))
        return None
    if t == "range":
        full, part, uni = R(rel["full"]), R(rel["q"]), R(rel["u"])
        if any(isinstance(x, str) for x in (full, part, uni)):
            return None
        if sorted(uni) != sorted(rel["universe"]):
            return "`*` on [%d,%d] returned %s, events with a timestamp in the range are %s" % (rel["q"][1], rel["q"][2], uni, rel["universe"])
        want = set(full) & set(rel["universe"])
        if set(part) != want:
            return "`%s` on [%d,%d] got %s; the same filter on the whole range gave %s, of which %s lie in the range" % (
                rel["q"][0], rel["q"][1], rel["q"][2], part, full, sorted(want))
        return None
    if t == "negterm":
        # NOT t / X NOT t / NOT (t OR u) against the REAL results of the positive queries and of `*`
        u, got = R(rel["u"]), R(rel["res"])
        pos = [R(q) for q in rel["neg"]]
        base = R(rel["base"]) if rel.get("base") else u
        if any(isinstance(x, str) for x in [u, got, base] + pos):
            return "query error: %s" % [x for x in [u, got, base] + pos if isinstance(x, str)][0]
        excluded = set().union(*[set(p) for p in pos])
        want = set(base) - excluded
        if set(got) != want:
            return "got %s; %s returned %s and the negated term(s) %s returned %s, so the result must be %s (in both: %s, missing: %s)" % (
                got, rel["base"][0] if rel.get("base") else "`*`", sorted(base), [q[0] for q in rel["neg"]], [sorted(p) for p in pos],
                sorted(want), sorted(set(got) & excluded), sorted(want - set(got)))
        return None
    raise vlib.Infra("unknown relation " + t)


def opclass(op):
    return {"=": "eq", "!=": "ne"}.get(op, "ord")


# ----------------------------------------------------------------------------- the check

def generate(chk, quick):
    gens = {}
    jobs = [("ds", "Gen_SearchSemantics_ds.cfg"), ("leaf", "Gen_SearchSemantics_leaf.cfg"),
            ("range", "Gen_SearchSemantics_range.cfg"), ("expr", "Gen_SearchSemantics_expr.cfg")]

    def g(job):
        beh, r = vlib.tlc_generate("Gen_SearchSemantics", job[1], timeout=1200)
        return job[0], beh, r
    for name, beh, r in vlib.pmap(g, jobs, workers=4):
        gens[name] = beh
        chk.add_tlc("Gen_SearchSemantics/" + name, r, "case export")
        if not beh:
            raise vlib.Infra("no cases generated for %s" % name)
    return gens


def model_runs(chk, quick):
    cfgs = [("cell", "all stored values x 6 operators x all literals: Determined, Spelling (R2), Trichotomy, Neq, Case (R1), Where (R3), Absent"),
            ("text", "all patterns<=3 x texts<=4: wildcard laws, regex-style term definition == token definition"),
            ("range", "all block x range pairs in 0..6: inclusive boundaries, overlap pruning sound (R5)"),
            ("exprq" if quick else "expr", "all depth<=2 expressions over leaf tuples: must/may lifting, set algebra (R4), De Morgan")]

    def m(c):
        return c, vlib.run_tlc("MC_SearchSemantics", "MC_SearchSemantics_%s.cfg" % c[0], workers=3, timeout=1500)
    for (name, note), r in vlib.pmap(m, cfgs, workers=2):
        vlib.tlc_must_hold(r, "SearchSemantics/" + name)
        chk.add_tlc("MC_SearchSemantics/" + name, r, note)
    r2 = vlib.run_tlc("MC_SearchSemantics", "MC_SearchSemantics_cell_defect.cfg", workers=2, timeout=300)
    if not r2.violated:
        raise vlib.Infra("model sensitivity lost: Defect=int-vs-decimal no longer violates the cell laws")
    chk.cov["model_sensitivity"] = "Defect=int-vs-decimal (decimal literal never matches an int column) violates %s" % sorted(set(r2.violated))


def extra_known(chk):
    """VERIF_EXTRA_KNOWN=<file in known_findings.json format>: additional findings for this run (used to demonstrate that a
    mutant produces a NEW signature while the proposed findings of docs/C02.known_findings.json are not yet registered)."""
    p = os.environ.get("VERIF_EXTRA_KNOWN")
    if p:
        chk.kf = chk.kf + [k for k in json.load(open(p)).get("findings", []) if k["property"] == chk.pid]


def run(chk):
    quick = chk.tier == "quick"
    extra_known(chk)
    rnd = random.Random(chk.seed)
    t0 = T0 + 1000 * rnd.randrange(0, 100000)
    binary = vlib.build_driver()
    model_runs(chk, quick)
    gens = generate(chk, quick)
    ds = [x for x in gens["ds"] if x["kind"] == "ds"][0]
    ds_events = {e["id"]: e for e in ds["events"]}
    events = conc_events(ds, t0)
    leafsets = ds["leafsets"]
    LO, HI = ds["lo"], ds["hi"]
    full = lambda text: (text, LO, HI)
    UNI = full("*")

    WIDE = ("*", -100000, 10000000)           # ingest sanity: every event, far from any range boundary
    queries = {UNI: 1, WIDE: 1}
    rels = []      # (relation, keyinfo)
    rels.append((dict(type="range", q=UNI, u=UNI, full=WIDE, universe=list(range(10))),
                 dict(kind="range", lo=LO, hi=HI, e=dict(o="id", L=dict(o="id", a=1, b=1), R=dict(o="id", a=1, b=1)))))

    # ---- leaves of the full product
    leaves = vlib.dedup([x for x in gens["leaf"] if x["kind"] == "leaf"])
    for lc in leaves:
        lf = lc["leaf"]
        q = full(leaf_text(lf))
        queries[q] = 1
        rels.append((dict(type="bounds", q=q, must=lc["must"], may=lc["may"]), dict(kind="leaf", leaf=lf)))
        # a second spelling of the same string literal: quoted word
        if lf["lit"]["lk"] == "str" and " " not in "".join(lf["lit"]["c"]) and rnd.random() < 0.5:
            q2 = full(leaf_text(lf, quote_words=True))
            queries[q2] = 1
            rels.append((dict(type="bounds", q=q2, must=lc["must"], may=lc["may"]), dict(kind="leaf", leaf=lf)))
        if lf["t"] == "cmp" and lf["lit"]["lk"] in ("int", "dec", "qnum") and lc["numids"]:
            qw = full("* | where " + leaf_text(lf))
            queries[qw] = 1
            rels.append((dict(type="equal-on", a=q, b=qw, ids=lc["numids"], must=lc["must"], may=lc["may"]), dict(kind="where", leaf=lf)))

    # ---- negated free text: NOT t, X NOT t, NOT (t OR u) for every free-text leaf t (word, phrase, wildcard, a word that occurs nowhere)
    terms = [lc["leaf"] for lc in leaves if lc["leaf"]["t"] == "term"]
    cmpx = [lc["leaf"] for lc in leaves if lc["leaf"]["t"] == "cmp" and leaf_text(lc["leaf"]) in ("ci>=1", "ct=a*")]
    for i, tl in enumerate(terms):
        tq = full(leaf_text(tl))
        others = [x for x in terms if x is not tl]
        ul = others[(i * 7 + chk.seed) % len(others)]
        xl = (cmpx + others)[(i + chk.seed) % (len(cmpx) + len(others))]
        forms = [("not", "NOT %s" % tq[0], None, [tq]),
                 ("and-not", "%s NOT %s" % (leaf_text(xl), tq[0]), full(leaf_text(xl)), [tq]),
                 ("not-or", "NOT (%s OR %s)" % (tq[0], leaf_text(ul)), None, [tq, full(leaf_text(ul))])]
        for form, text, base, neg in forms:
            rq = full(text)
            for q in [rq] + neg + ([base] if base else []):
                queries[q] = 1
            rels.append((dict(type="negterm", res=rq, u=UNI, base=base, neg=neg), dict(kind="negterm", form=form, term=tl)))

    # ---- composite expressions: every node is compared with the set algebra of its operands' REAL results
    exprs = vlib.dedup([x for x in gens["expr"] if x["kind"] == "expr"])
    exprs.sort(key=lambda x: json.dumps(x, sort_keys=True))
    n_expr = 320 if quick else len(exprs)
    sample = vlib.sample([x for x in exprs if x["e"]["o"] != "id"], n_expr, chk.seed)
    seen_nodes = set()
    for ec in sample:
        lv = leafsets[ec["ls"] - 1]
        e = ec["e"]
        qt = full(top_text(e, lv))
        queries[qt] = 1
        rels.append((dict(type="bounds", q=qt, must=ec["must"], may=ec["may"]), dict(kind="expr", e=e, ls=ec["ls"])))
        nodes = []
        for s in (e["L"], e["R"]):
            if s["o"] != "id":
                a, b = full(leaf_text(lv[s["a"] - 1])), full(leaf_text(lv[s["b"] - 1]))
                nodes.append((s["o"], full(sub_text(s, lv)), a, b, [lv[s["a"] - 1]] + ([lv[s["b"] - 1]] if s["o"] != "not" else []), False))
        l, r = full(sub_text(e["L"], lv)), full(sub_text(e["R"], lv))
        tl = [lv[e["L"]["a"] - 1], lv[e["L"]["b"] - 1]] + ([] if e["o"] == "not" else [lv[e["R"]["a"] - 1], lv[e["R"]["b"] - 1]])
        nested = e["L"]["o"] == "not" or (e["o"] != "not" and e["R"]["o"] == "not")
        nodes.append((e["o"], qt, l, r, tl, nested or e["L"]["o"] != "id" or e["R"]["o"] != "id"))
        for (o, resq, lq, rq, lfs, nest) in nodes:
            if (o, resq, lq, rq) in seen_nodes:
                continue
            seen_nodes.add((o, resq, lq, rq))
            for q in (resq, lq, rq):
                queries[q] = 1
            rels.append((dict(type="comb", op=o, res=resq, l=lq, r=rq, u=UNI), dict(kind="algebra", op=o, leaves=lfs, nested=nest)))

    # ---- time ranges
    ranges = vlib.dedup([x for x in gens["range"] if x["kind"] == "range"])
    ranges.sort(key=lambda x: json.dumps(x, sort_keys=True))
    for rc in vlib.sample([x for x in ranges if x["lo"] <= x["hi"]], 160 if quick else None, chk.seed + 1):
        lv = leafsets[rc["ls"] - 1]
        text = top_text(rc["e"], lv)
        q, u = (text, rc["lo"], rc["hi"]), ("*", rc["lo"], rc["hi"])
        for x in (q, u, full(text)):
            queries[x] = 1
        rels.append((dict(type="range", q=q, u=u, full=full(text), universe=rc["universe"]),
                     dict(kind="range", lo=rc["lo"], hi=rc["hi"], e=rc["e"])))

    qlist = sorted(queries)
    if os.environ.get("C02_DUMP"):
        json.dump(dict(events=events, t0=t0, qlist=qlist), open(os.environ["C02_DUMP"], "w"))
    lays = layouts(chk.tier)

    def do(layout):
        try:
            return run_layout(binary, layout, events, qlist, t0)
        except vlib.DriverDead as ex:
            if ex.kind == "hang":
                raise vlib.Infra("engine did not answer in time (machine load?): %s" % ex)
            return ex
    results = vlib.pmap(do, lays, workers=6)

    # ---- verdicts
    found = {}    # key -> (what, replay, count)

    def report(key, what, replay):
        if key in found:
            found[key][2] += 1
        else:
            found[key] = [what, replay, 1]

    col_of = lambda lf: lf["col"] if lf["t"] == "cmp" else None
    leafcase = {leaf_text(lc["leaf"]): lc for lc in leaves}

    DUAL = {"=": "!=", "!=": "=", "<": ">=", ">=": "<", ">": "<=", "<=": ">"}

    def suspect_ids(lfs, res, with_dual=False):
        if with_dual:
            lfs = list(lfs) + [dict(x, op=DUAL[x["op"]]) for x in lfs if x["t"] == "cmp"]
        return suspect_ids0([x for x in lfs if leaf_text(x) in leafcase], res)

    def suspect_ids0(lfs, res):
        """ids on which one of these leaves is outside its own bounds in this layout, has an open cell, or whose event lacks
        the leaf's column: a composite that goes wrong only there is attributed to that leaf-level finding."""
        sus = set()
        for lf in lfs:
            lc = leafcase[leaf_text(lf)]
            got = res.get(full(leaf_text(lf)))
            must, may = set(lc["must"]), set(lc["may"])
            sus |= may - must
            if isinstance(got, list):
                sus |= (must - set(got)) | (set(got) - may)
            if lf["t"] == "cmp":
                sus |= set(i for i in ds_events if ds_events[i]["f"][lf["col"]]["k"] == "absent")
        return sus

    for layout, res in zip(lays, results):
        if isinstance(res, vlib.DriverDead):
            report("C02:driver-died", "engine process died while answering filter queries on layout %s: %s" % (layout["name"], res),
                   dict(layout=layout, events=events, t0=t0, relations=[]))
            continue
        if sorted(res[WIDE]) != list(range(10)):
            raise vlib.Infra("layout %s: `*` returned %s instead of all 10 events (ingest problem, not a filter verdict)" % (layout["name"], res[WIDE]))
        chk.replayed(1)
        for rel, info in rels:
            bad = rel_eval(rel, res)
            nontrivial = info["kind"] in ("where", "algebra", "range", "negterm") or (info["kind"] in ("leaf", "expr") and rel["must"] != rel["may"] or bool(rel.get("must")))
            chk.count((info["kind"], json.dumps(rel.get("q") or rel.get("res") or rel.get("a")), layout["name"]), nontrivial=nontrivial)
            if bad is None:
                continue
            rp = dict(layout=layout, events=events, t0=t0, relations=[rel])
            k = info["kind"]
            if k == "leaf":
                lf = info["leaf"]
                got = res[tuple(rel["q"])]
                if isinstance(got, str):
                    key = "C02:query-error:%s:%s" % (lf["t"], lf["lit"]["lk"])
                else:
                    miss, extra = set(rel["must"]) - set(got), set(got) - set(rel["may"])
                    eid = sorted(miss or extra)[0]
                    direction = "missing" if miss else "extra"
                    if lf["t"] == "cmp":
                        key = "C02:leaf@%s:%s~%s:%s:%s" % (block_class(layout, ds_events, lf["col"], eid), ds_events[eid]["f"][lf["col"]]["k"],
                                                           lf["lit"]["lk"], opclass(lf["op"]), direction)
                    else:
                        sparse = any(block_class(layout, ds_events, c, eid) == "nocol" for c in ("ci", "cf", "cn", "ct", "cb", "cm"))
                        key = "C02:free-text@%s:%s:%s" % ("nocol" if sparse else "pure", "wildcard" if "*" in lf["lit"]["c"] else
                                                          ("phrase" if " " in lf["lit"]["c"] else "term"), direction)
                report(key, "layout %s: `%s` %s" % (layout["name"], rel["q"][0], bad), rp)
            elif k == "where":
                lf = info["leaf"]
                a, b = set(res[tuple(rel["a"])]) & set(rel["ids"]), set(res[tuple(rel["b"])]) & set(rel["ids"])
                eid = sorted(a ^ b)[0]
                ids = set(rel["ids"])
                ok = lambda x: set(rel["must"]) & ids <= x <= set(rel["may"]) & ids
                side = "where-wrong" if ok(a) and not ok(b) else "search-wrong" if ok(b) and not ok(a) else "both-open" if ok(a) and ok(b) else "both-wrong"
                key = "C02:search-vs-where@%s:%s:%s~%s:%s" % (block_class(layout, ds_events, lf["col"], eid), side,
                                                             ds_events[eid]["f"][lf["col"]]["k"], lf["lit"]["lk"], opclass(lf["op"]))
                report(key, "layout %s: `%s` %s" % (layout["name"], rel["a"][0], bad), rp)
            elif k == "negterm":
                if layout["enc"] == "all-dict":
                    continue   # known finding RC7 (every column dictionary encoded) is reported by the algebra relations below
                got = res[tuple(rel["res"])]
                if isinstance(got, str):
                    key = "C02:query-error:negated-free-text:%s" % info["form"]
                else:
                    excluded = set().union(*[set(res[tuple(q)]) for q in rel["neg"]])
                    base = set(res[tuple(rel["base"])]) if rel.get("base") else set(res[tuple(rel["u"])])
                    symptom = "overlaps-positive" if set(got) & excluded else "misses-complement" if (base - excluded) - set(got) else "invents"
                    key = "C02:negated-free-text:%s:%s@%s" % (info["form"], symptom, layout["enc"])
                report(key, "layout %s: `%s` %s" % (layout["name"], rel["res"][0], bad), rp)
            elif k == "algebra":
                got, l, r, u = (res[tuple(rel[x])] for x in ("res", "l", "r", "u"))
                if any(isinstance(x, str) for x in (got, l, r, u)):
                    key = "C02:query-error:composite:%s" % info["op"]
                else:
                    want = {"and": set(l) & set(r), "or": set(l) | set(r), "not": set(u) - set(l)}[info["op"]]
                    diff = set(got) ^ want
                    cols = [col_of(x) for x in info["leaves"] if col_of(x)]
                    lacking = set(i for i in diff if any(ds_events[i]["f"][c]["k"] == "absent" for c in cols))
                    has_term = any(x["t"] == "term" for x in info["leaves"])
                    sus = suspect_ids(info["leaves"], res, with_dual="NOT" in rel["res"][0])
                    if info["op"] == "not":
                        # a deviation that lies only on events where a COMPARISON operand (or its negation) is open / out of
                        # bounds belongs to that comparison (RC6), also when the composite contains a free-text term as well
                        cmp_leaves = [x for x in info["leaves"] if x["t"] == "cmp"]
                        sus_cmp = suspect_ids(cmp_leaves, res, with_dual=True) if cmp_leaves else set()
                        cls = "absent-field" if diff <= lacking else "open-or-defective-leaf" if has_term and cmp_leaves and diff <= sus_cmp else \
                            "free-text" if has_term else "open-or-defective-leaf" if diff <= sus else "plain"
                    else:
                        cls = "absent-field" if diff <= lacking else "open-or-defective-leaf" if diff <= sus else \
                            "negated-free-text" if has_term and "NOT" in rel["res"][0] else "plain"
                    key = "C02:algebra:%s:%s" % (info["op"], cls)
                    if cls in ("free-text", "negated-free-text") and layout["enc"] != "all-dict":
                        key += "@" + layout["enc"]     # the registered RC7 keys describe blocks whose columns are all dictionary encoded
                report(key, "layout %s: `%s` %s" % (layout["name"], rel["res"][0], bad), rp)
            elif k == "range":
                part, fullr, uni = res[tuple(rel["q"])], res[tuple(rel["full"])], res[tuple(rel["u"])]
                if sorted(uni) != sorted(rel["universe"]):
                    d = set(uni) ^ set(rel["universe"])
                else:
                    d = set(part) ^ (set(fullr) & set(rel["universe"]))
                eid = sorted(d)[0]
                ts = ds_events[eid]["ts"]
                pos = "at-start" if ts == info["lo"] else "at-end" if ts == info["hi"] else "inside" if info["lo"] < ts < info["hi"] else "outside"
                lv = leafsets[0]
                e = info["e"]
                lfs = [lv[e["L"]["a"] - 1]]
                derived = sorted(uni) == sorted(rel["universe"]) and d <= suspect_ids(lfs, res, with_dual=True)
                negterm = e["o"] == "not" and lfs[0]["t"] == "term"
                key = "C02:time-range:%s:%s" % (pos, "match-all" if sorted(uni) != sorted(rel["universe"]) else
                                                "negated-free-text" if negterm else "open-or-defective-leaf" if derived else "filter")
                if negterm and sorted(uni) == sorted(rel["universe"]) and layout["enc"] != "all-dict":
                    key += "@" + layout["enc"]
                report(key, "layout %s: %s" % (layout["name"], bad), rp)
            # kind "expr" (bounds of a composite) is implied by leaf bounds + algebra; it is counted, not reported

    # ---- layout dependence on open cells: same query, same dataset, different answer
    good = [(l, r) for l, r in zip(lays, results) if not isinstance(r, vlib.DriverDead)]
    for rel, info in rels:
        if info["kind"] != "leaf":
            continue
        q = tuple(rel["q"])
        open_ids = set(rel["may"]) - set(rel["must"])
        if not open_ids:
            continue
        answers = {}
        for layout, res in good:
            v = res[q]
            if not isinstance(v, str):
                answers.setdefault(tuple(sorted(set(v) & open_ids)), []).append(layout["name"])
        if len(answers) > 1:
            lf = info["leaf"]
            ks = sorted(answers)
            eid = sorted(set(ks[0]) ^ set(ks[1]))[0]
            sk = ds_events[eid]["f"][lf["col"]]["k"] if lf["t"] == "cmp" else "any"
            key = "C02:layout-dependent:%s~%s:%s" % (sk, lf["lit"]["lk"], opclass(lf["op"]))
            la, lb = answers[ks[0]][0], answers[ks[1]][0]
            report(key, "`%s`: layouts %s answer %s, layouts %s answer %s on the same dataset (cell left open by the statement, "
                        "but the answer must not depend on the block layout)" % (q[0], answers[ks[0]], list(ks[0]), answers[ks[1]], list(ks[1])),
                   dict(layouts=[l for l in lays if l["name"] in (la, lb)], events=events, t0=t0,
                        relations=[dict(type="layouts-equal", q=list(q), ids=sorted(open_ids))]))

    for key in sorted(found):
        what, rp, n = found[key]
        chk.violation(key, "%s   [%d occurrences]" % (what, n), rp)
    chk.cov["violation_families"] = {k: {"occurrences": v[2], "first": v[0][:600]} for k, v in sorted(found.items())}
    chk.cov["queries_per_layout"] = len(qlist)
    chk.cov["layouts"] = [l["name"] for l in lays]
    chk.sample({"kind": "leaf", "spl": leaf_text(leaves[0]["leaf"]), "must": leaves[0]["must"], "may": leaves[0]["may"],
                "got": {l["name"]: r.get(full(leaf_text(leaves[0]["leaf"]))) for l, r in good}})
    if sample:
        ec = sample[0]
        chk.sample({"kind": "expr", "spl": top_text(ec["e"], leafsets[ec["ls"] - 1]), "must": ec["must"], "may": ec["may"],
                    "got": {l["name"]: r.get(full(top_text(ec["e"], leafsets[ec["ls"] - 1]))) for l, r in good}})
    chk.assumptions += [
        "text alphabet {a,b,A,B,space}; the only breaker modelled for free-text terms is the space",
        "numbers are multiples of 0.5 in [-2,3] (exact in float64); 10 events, one value per column and event",
        "open cells (Cell = {TRUE,FALSE}): bool columns, ordering between text and a number, != on an event lacking the field, "
        "a quoted numeric literal against a number, != with a string literal on a number: only metamorphic relations are required there",
        "`where` is compared with the search clause only on events whose field is an int or float (R3 speaks of numeric fields)",
    ]
    chk.describe(rule="TLC exports every leaf of the product columns(6 stored kinds + mixed) x literals(int, decimal, quoted number, word, "
                      "phrase, wildcard) x operators plus free-text leaves, a seeded sample (all in thorough) of depth<=2 expressions and "
                      "boundary ranges; each is run as SPL on 6 layouts. distinct_nontrivial = distinct (relation, query, layout) with a "
                      "non-empty expected set or a metamorphic relation (where / algebra / range)",
                 exhaustive=not quick)


# ----------------------------------------------------------------------------- replay

def replay(chk, path):
    d = json.load(open(path))
    rp = d["replay"]
    binary = vlib.build_driver()
    print("key:", d["key"])
    print("what:", d["what"])
    lays = rp.get("layouts") or [rp["layout"]]
    rc = 0
    allres = {}
    for layout in lays:
        qs = set()
        for rel in rp["relations"]:
            for f in ("q", "a", "b", "res", "l", "r", "u", "full", "base"):
                if rel.get(f):
                    qs.add(tuple(rel[f]))
            for q in rel.get("neg", []):
                qs.add(tuple(q))
        layout["parts"] = [tuple(p) for p in layout["parts"]]
        res = run_layout(binary, layout, rp["events"], sorted(qs), rp["t0"])
        allres[layout["name"]] = res
        print("layout", layout["name"], "parts", layout["parts"])
        for q in sorted(qs):
            print("   %-60s [%d,%d] -> %s" % (q[0], q[1], q[2], res[q]))
        for rel in rp["relations"]:
            if rel["type"] == "layouts-equal":
                continue
            bad = rel_eval(rel, res)
            if bad:
                print("   REPRODUCED:", bad)
                rc = 1
    for rel in rp["relations"]:
        if rel["type"] == "layouts-equal":
            ans = {n: sorted(set(r[tuple(rel["q"])]) & set(rel["ids"])) for n, r in allres.items()}
            print("   answers on the open ids:", ans)
            if len(set(map(tuple, ans.values()))) > 1:
                print("   REPRODUCED: layout dependent")
                rc = 1
    return rc
