"""C01 - log ingest-to-query round trip is lossless and exact.

Model: spec/LogStore.tla (events / WIP buffer / blocks / segments per stream; Ingest, Flush,
  Rotate, Restart, Promote), TLC checks RoundTrip, LayoutIrrelevant, PruneSound, TypeOK and the
  action properties OnlyIngestGrows / FlushedStays; spec/Gen_LogStore.tla exports every history
  of the bound (and -simulate samples of bigger ones) with the observable state the spec
  expects after every action.
Binding: every sampled history is replayed on the real engine through sigdrv
  (bulk / flush / rotate / restart = new process on the same directory); after every step the
  match-all answer per stream (include_nulls, covering range) is compared with the spec:
     must (flushed ids) <= returned ids <= must + may (WIP ids), each exactly once,
     per id: exactly the flattened field names / values / timestamp that were sent, with the
     two relaxations of the statement (number -> decimal text when the spec says the column
     holds non-numeric text; explicit null == absent).
  Abstract classes are concretised per VERIF_SEED: nesting 0-3, arrays, escapes / unicode in
  keys and values, int64 / uint64 / float64 boundary numbers, bool, null vs absent, sparse and
  late columns, cardinality 500/501/502 around the dictionary limit (batch multiplication),
  constant vs varying encoded length, values just below the record size limit, and the
  65534-record block cut (spec BlockCap=2 x 32767 concrete events per abstract event).

This module is also imported by c03.py (driver session, concretisation helpers).
"""
import json
import math
import os
import random
import time

import vlib

LEVEL = "model_checking"
CLAIMED = True   # set by the lead after review; only claimed checks enter MANIFEST.json

MANIFEST = dict(
    category="model_checking",
    technique="TLA+ LogStore spec (TLC exhaustive: RoundTrip, LayoutIrrelevant, PruneSound + action properties) and replay of "
              "TLC-enumerated / simulated ingest-flush-rotate-restart histories on the real engine with a per-id exact comparison",
    text=("spec/LogStore.tla models accepted events, the unflushed WIP buffer, flushed blocks and open/rotated segments per "
          "stream with actions Ingest (incl. the engine's own block cut), Flush, Rotate, Restart, Promote; TLC checks RoundTrip "
          "(match-all = flushed events exactly once, nothing invented or lost, only Ingest grows the event set) over all "
          "histories of the bound. Gen_LogStore exports every history with the expected visible sets and per-column relaxation; "
          "each sampled history is replayed through sigdrv (bulk/flush/rotate/restart) and after every step the real `*` answer "
          "per stream is compared per unique id: flattened names, values, timestamp, exactly once. Value classes are "
          "concretised per VERIF_SEED (nesting, arrays, escapes/unicode, boundary numbers, bool, null/absent, sparse/late "
          "columns incl. several late columns per block, the field-less record, several escaped strings per event, cardinality "
          "500/501/502, constant/varying encoded length, near-limit values, the 65534-record block cut, event times not "
          "monotone in ingest order with partially overlapping segments)."),
    note=("Histories are exhaustive only inside the small bounds (<=4-5 abstract events, <=2-3 flushes, <=1-2 rotations, <=1 "
          "restart); bigger ones are sampled with -simulate. Values are sampled per seed from boundary pools, not all JSON. "
          "uint64 above int64 max and other numbers outside int64 are compared as float64 (the statement quantifies over "
          "int64/float64). Keys containing '.', empty keys, '*', _index/_type and duplicate keys are not generated. The query "
          "uses includeNulls=true (the default response omits empty-string fields). Size-driven segment rotation (4 GB) and "
          "the byte-size block cut are not reached. Known deviations are reported under specific keys (see docs/C01.md)."),
    design_ref="DESIGN.md 4/C01, docs/C01.md",
)

T0 = 1_700_000_000_000
INT64_MAX = 2 ** 63 - 1
INT64_MIN = -2 ** 63
MAX_RECORD_SIZE = 63_000
CAP_MULT = 32767          # 2 * 32767 = 65534 = MAX_RECS_PER_WIP (spec BlockCap = 2)

WORKERS = min(6, vlib.NCPU)


# --------------------------------------------------------------------------- engine session

class Session:
    """One data directory, successive server lives on it."""

    def __init__(self, binary, prefix="c01", env=None, **init):
        self.binary, self.env, self.init = binary, env, init
        self.dir = vlib.scratch(prefix)
        self.dr = None
        self.start(first=True)

    def start(self, first=False):
        self.dr = vlib.Driver(self.binary, env=self.env)
        if first:
            self.dr.ok("init", dir=self.dir, **self.init)
        else:
            self.dr.ok("init", dir=self.dir, wait_ms=400, **self.init)

    def restart(self):
        self.dr.quit()
        self.start()

    def bulk(self, index, events):
        """events: list of JSON texts (one line each).  Returns (list of accepted flags, t_before_ms, t_after_ms)."""
        body = "".join('{"index":{"_index":%s}}\n%s\n' % (json.dumps(index), e) for e in events)
        t0 = int(time.time() * 1000)
        r = self.dr.ok("bulk", body=body, timeout=300)
        t1 = int(time.time() * 1000)
        items = (r.get("response") or {}).get("items") or []
        acc = []
        for i in range(len(events)):
            st = None
            if i < len(items) and isinstance(items[i], dict):
                st = (items[i].get("index") or {}).get("status", items[i].get("status"))
            acc.append(st == 201)
        return acc, t0, t1

    def query(self, index, text, size=1000, **kw):
        kw.setdefault("start", 1)
        kw.setdefault("end", int(time.time() * 1000) + 86_400_000)
        return self.dr.ok("query", index=index, text=text, size=size, timeout=300, **kw)

    def close(self):
        try:
            if self.dr is not None:
                self.dr.quit()
        finally:
            vlib.rmtree(self.dir)


def killed_from_outside(e):
    """SIGTERM / SIGKILL come from outside the process (OOM killer, another job's cleanup); a Go panic exits with 2."""
    return e.rc in (-15, -9)


# --------------------------------------------------------------------------- concretisation

KEY_VARIANTS = ["%s", "%s", "%s\u00e9", "q\"%s", "%s\\b", "\u043a\u043b%s", "%s\tt", "\U0001F600%s", "%s sp", "%s/s", "%s-x_y"]

# compatible path sets for the abstract columns c1..c6 (ints = array indices; class tables with four columns use
# the first four).  No path is a prefix of another.
PATH_SETS = [
    [["a"], ["b"], ["c"], ["d"], ["e"], ["f"]],                                                        # depth 0
    [["n", "k"], ["n", "m"], ["c"], ["o", "p", "q"], ["n", "r"], ["o", "p", "s"]],                     # depth 1-2
    [["d1", "d2", "d3", "v"], ["d1", "d2", "w"], ["d1", "u"], ["t"], ["d1", "d2", "d3", "y"], ["z9"]],  # depth 3
    [["arr", 0], ["arr", 1], ["arr", 2], ["s"], ["arr", 3], ["r", "e"]],                               # heterogeneous array
    [["o", "l", 0, "z"], ["o", "l", 1, "z"], ["o", "m"], ["mat", 0, 1], ["o", "l", 2, "z"], ["mat", 1, 0]],  # objects in arrays
    [["n", "k", 0], ["n", "k", 1, "z"], ["n", "j"], ["n", "k", 2, 0], ["n", "k", 3], ["n", "i", "h"]],  # like n.k.0 / n.k.2.0
]

INT_POOL = [0, 1, -1, 7, 127, 128, 255, 256, -128, -129, 32767, 32768, 65535, 65536, 2 ** 31 - 1, 2 ** 31, -2 ** 31,
            2 ** 32 - 1, 2 ** 32, 2 ** 53, 2 ** 53 + 1, -(2 ** 53) - 1, INT64_MAX, INT64_MAX - 1, INT64_MIN, INT64_MIN + 1,
            10 ** 18, 1234567890123]
# JSON number texts that are not int64: floats, exponent forms, uint64 range (stored as float64 by the engine)
FLT_POOL = ["0.5", "-0.5", "1.5", "0.1", "1e-7", "1E5", "1e300", "-1e300", "5e-324", "1.7976931348623157e308",
            "-1.7976931348623157e308", "2.2250738585072014e-308", "9223372036854775808", "18446744073709551615",
            "-9223372036854775809", "3.0", "-0.0", "1.50", "123456.789", "9007199254740993.0", "0.30000000000000004",
            "1e21", "1e20", "123456789012345678901234567890"]
STR_POOL = ["", "a", "A", "x y", " lead", "trail ", "h\u00e9llo w\u00f6rld", "\u4e2d\u6587", "\U0001F600 smile", "q\"uote", "back\\slash",
            "line\nfeed", "tab\there", "ctl\u0001x", "sl/ash", "true", "null", "{}", "[1]", "NaN-ish", "x0", "1a", "--1", "e5",
            "UPPER lower", "a.b.c", "*", "%", "caf\u00e9", "\u0000nul", "z" * 300, "\u00e9" * 200]
# strings whose JSON text contains backslash escapes (\" \\ \n \t \uXXXX, surrogate pairs), of different lengths
ESC_POOL = ["q\"uote", "back\\slash", "line\nfeed", "tab\there", "ctl\u0001x", "h\u00e9llo w\u00f6rld", "\u4e2d\u6587",
            "\U0001F600 smile", "C:\\Users\\alice\\file.txt", "panic: boom\n\tmain.go:12 +0x1f", "\\", "\t", "\"", "a\nb",
            "\n" * 40 + "tail", "\"" + "a" * 200 + "\"", "\u00e9" * 97, "x" * 150 + "\\" + "y" * 33, "{\"k\": \"v\"}",
            "\r\n", "caf\u00e9 \"au lait\"\t5\u20ac", "\u0000nul\u0000"]
NUMSTR_POOL = ["007", "1e3", "12", "-5", "1.0", "+5", "0x1p4", "1_0", "9223372036854775807", "0.50"]


def go_parses_as_number(s):
    """Does strconv.ParseInt(s,10,64) / ParseFloat(s,64) accept s?  (conservative approximation used only to keep
    'str' values non-numeric)."""
    t = s.strip()
    if t != s or not s:
        return False
    try:
        float(s.replace("_", ""))
        return True
    except ValueError:
        pass
    low = s.lower().lstrip("+-")
    return low in ("inf", "infinity", "nan") or low.startswith("0x")


for _s in STR_POOL:
    assert not go_parses_as_number(_s), _s


def num_from_text(txt):
    """JSON number text -> the value the statement lets us demand: exact int inside int64, else float64."""
    try:
        v = int(txt)
        if INT64_MIN <= v <= INT64_MAX:
            return v
        return float(v)
    except ValueError:
        return float(txt)


class RawNum:
    """A JSON number kept as its source text (so that 1E5, 3.0, -0.0, 18446744073709551615 go out as written)."""

    def __init__(self, txt):
        self.txt = txt


def dumps(o):
    """json.dumps with RawNum support."""
    if isinstance(o, RawNum):
        return o.txt
    if isinstance(o, dict):
        return "{" + ",".join(json.dumps(k) + ":" + dumps(v) for k, v in o.items()) + "}"
    if isinstance(o, list):
        return "[" + ",".join(dumps(v) for v in o) + "]"
    return json.dumps(o)


def put(obj, path, val):
    cur = obj
    for i, comp in enumerate(path):
        lastc = i == len(path) - 1
        nxt = None if lastc else ([] if isinstance(path[i + 1], int) else {})
        if isinstance(comp, int):
            while len(cur) <= comp:
                cur.append(None)            # filler: explicit null == absent, keeps the indices
            if lastc:
                cur[comp] = val
            else:
                if cur[comp] is None:
                    cur[comp] = nxt
                cur = cur[comp]
        else:
            if lastc:
                cur[comp] = val
            else:
                if comp not in cur:
                    cur[comp] = nxt
                cur = cur[comp]


def flatten(o, prefix=""):
    """Reference flattening: objects -> dotted names, arrays -> index components; null and empty containers have no leaf."""
    out = {}
    if isinstance(o, dict):
        for k, v in o.items():
            out.update(flatten(v, k if prefix == "" else prefix + "." + k))
    elif isinstance(o, list):
        for i, v in enumerate(o):
            out.update(flatten(v, str(i) if prefix == "" else prefix + "." + str(i)))
    elif o is None:
        pass
    elif isinstance(o, RawNum):
        out[prefix] = num_from_text(o.txt)
    else:
        out[prefix] = o
    return out


class Concretiser:
    """Turns the abstract events of one history into concrete JSON events (deterministic in (seed, history index))."""

    def __init__(self, seed, beh, profile):
        self.rnd = random.Random(seed)
        self.beh, self.profile = beh, profile
        self.kinds = beh["kinds"]
        streams = sorted(beh["steps"][0]["obs"].keys())
        self.cols = sorted(next(iter(self.kinds.values())).keys())       # c1..c4 or c1..c6
        self.colmap, self.abs_of = {}, {}
        for s in streams:
            ps = self.rnd.choice(PATH_SETS)[:len(self.cols)]
            ren = {}
            paths = []
            for p in ps:
                q = []
                for comp in p:
                    if isinstance(comp, int):
                        q.append(comp)
                    else:
                        if comp not in ren:
                            ren[comp] = (self.rnd.choice(KEY_VARIANTS) % comp)
                        q.append(ren[comp])
                paths.append(q)
            self.colmap[s] = dict(zip(self.cols, paths))
            self.abs_of[s] = {".".join(str(c) for c in p): c for c, p in self.colmap[s].items()}
        self.mult = 1
        self.period = None
        if profile == "card":
            self.mult = self.rnd.choice([250, 251, 501, 502, 167, 1003])
            self.period = self.rnd.choice([500, 501, 502])
        elif profile == "cap":
            self.mult = CAP_MULT
            self.period = self.rnd.choice([500, 501, 502, 7])
        self.constlen = profile == "constlen" or (profile in ("card", "cap") and self.rnd.random() < 0.5)
        self.last_ts = {s: T0 + self.rnd.randrange(0, 10 ** 6) for s in streams}
        self.big_done = False
        self.bare_ts = {}
        self.seq = 0

    # -- values
    def value(self, kind, aid, j):
        r = self.rnd
        if self.period:
            k = (aid * 7919 + j) % self.period
            if kind == "int":
                return k - 250 if not self.constlen else k
            if kind == "flt":
                return RawNum("%d.5" % (k - 250))
            if kind == "str":
                return ("v%04d" % k) if self.constlen else ("v%d" % k) + ("x" * (k % 3))
            if kind == "numstr":
                return "%03d" % k
            if kind == "bool":
                return k % 2 == 0
            return None
        if kind == "int":
            return r.choice(INT_POOL) if r.random() < 0.8 else r.randrange(INT64_MIN, INT64_MAX)
        if kind == "flt":
            if r.random() < 0.8:
                return RawNum(r.choice(FLT_POOL))
            return RawNum(repr(r.uniform(-1, 1) * 10 ** r.randrange(-300, 300)))
        if kind == "str":
            if self.constlen:
                return "".join(r.choice("abcXYZ") for _ in range(6))     # same encoded length for every record
            if self.profile == "escapes":
                return r.choice(ESC_POOL)                                  # every string value of the event is escaped
            return r.choice(STR_POOL)
        if kind == "numstr":
            return r.choice(NUMSTR_POOL)
        if kind == "bool":
            return r.random() < 0.5
        return None

    def ts_for(self, s, tsc):
        last = self.last_ts[s]
        if tsc == "inc1":
            t = last + 1
        elif tsc == "inc":
            t = last + self.rnd.choice([1, 1, 7, 255, 256, 65535, 65536, 1000])
        elif tsc == "same":
            t = last
        elif tsc == "back":
            t = last - self.rnd.choice([1, 5000, 70000])
        elif tsc == "far":
            t = last + self.rnd.choice([2 ** 32 - 1, 2 ** 32, 2 ** 32 + self.rnd.randrange(1, 1000)])
        else:
            return None
        self.last_ts[s] = t
        return t

    def events(self, act):
        """-> list of (cid, json_text, expected_fields, ts or None) for one Ingest action."""
        s, cls, tsc = act["s"], act["cls"], act["ts"]
        out = []
        kinds = self.kinds[cls]
        abstract_time = self.profile == "ooo" and "ats" in act and self.mult == 1
        # the field-less record: a class without any column is a document with nothing but its timestamp (no id
        # either); it is identified by its (unique) timestamp, or only counted when it has none (`{}`)
        bare = all(k == "absent" for k in kinds.values())
        for n_aid, aid in enumerate(act["ids"]):
            for j in range(self.mult):
                cid = "e%d_%d" % (aid, j)
                ev = {} if bare else {"id": cid}
                # the class shapes the first concrete event; copies made by the multiplication advance by 1 ms
                # (except same / none), so that 1000 x "far" does not run centuries ahead
                if abstract_time:
                    # the spec's abstract event time (not monotone in ingest order): 1 unit = 1 s
                    ts = None if tsc == "none" else T0 + 10 ** 9 + act["ats"][n_aid] * 1000
                else:
                    ts = self.ts_for(s, tsc if (j == 0 or tsc in ("same", "none")) else "inc1")
                if bare and ts is not None:
                    used = self.bare_ts.setdefault(s, set())
                    while ts in used:
                        ts += 1
                    used.add(ts)
                    self.last_ts[s] = max(self.last_ts[s], ts) if tsc != "back" else self.last_ts[s]
                    cid = "@ts:%d" % ts
                elif bare:
                    cid = "@anon:%d_%d" % (aid, j)
                if ts is not None:
                    ev["timestamp"] = ts
                for c in self.cols:
                    k = kinds[c]
                    if k == "absent":
                        continue
                    put(ev, self.colmap[s][c], self.value(k, aid, j))
                if self.profile == "big" and not self.big_done and kinds.get("c4") == "str" and self.rnd.random() < 0.5:
                    # pad one string so that the document line is just below MAX_RECORD_SIZE
                    put(ev, self.colmap[s]["c4"], "")
                    base = len(dumps(ev).encode())
                    target = MAX_RECORD_SIZE - self.rnd.choice([1, 2, 3, 17])
                    put(ev, self.colmap[s]["c4"], "B" * (target - base))
                    self.big_done = True
                txt = dumps(ev)
                exp = flatten(ev)
                exp.pop("timestamp", None)
                out.append((cid, txt, exp, ts))
        return out


# --------------------------------------------------------------------------- comparison

def same_number(exp, got):
    if isinstance(got, bool) or not isinstance(got, (int, float)):
        return False
    if isinstance(exp, int):
        return isinstance(got, int) and got == exp or (isinstance(got, float) and got == exp and abs(exp) < 2 ** 53)
    return float(got) == exp


def dectext_ok(exp, got):
    if not isinstance(got, str):
        return False
    try:
        if isinstance(exp, int):
            return int(got) == exp
        return float(got) == exp
    except ValueError:
        try:
            return float(got) == float(exp) and not isinstance(exp, int)
        except ValueError:
            return False


def compare_record(exp, got, relax_cols, numeric_cols=()):
    """exp: expected flattened fields (without timestamp); got: returned record (timestamp removed).
    relax_cols: concrete column names whose numbers may come back as decimal text.
    Returns list of (key_suffix, detail)."""
    bad = []
    gotf = {k: v for k, v in got.items() if v is not None}
    for k in sorted(set(exp) | set(gotf)):
        if k not in gotf:
            bad.append(("field-missing", "field %r (sent %r) is missing" % (k, exp[k])))
            continue
        if k not in exp:
            bad.append(("field-invented", "field %r = %r was never sent for this event" % (k, gotf[k])))
            continue
        e, g = exp[k], gotf[k]
        if isinstance(e, bool):
            if g is not e:
                bad.append(("value:bool", "field %r: sent %r got %r" % (k, e, g)))
        elif isinstance(e, (int, float)):
            if same_number(e, g):
                continue
            if k in relax_cols and dectext_ok(e, g):
                continue
            bad.append(("value:number", "field %r: sent %r got %r%s" % (k, e, g, " (column relaxed)" if k in relax_cols else "")))
        else:
            if g == e and isinstance(g, str):
                continue
            if isinstance(g, (int, float)) and not isinstance(g, bool) and go_parses_as_number(e):
                bad.append(("value:numeric-string-rewritten-as-number",
                            "field %r: sent the string %r, got the number %r" % (k, e, g)))
            else:
                bad.append(("value:string", "field %r: sent %r got %r" % (k, e[:80] if isinstance(e, str) else e,
                                                                      g[:80] if isinstance(g, str) else g)))
    return bad


class Oracle:
    """Accumulates what was sent and checks one match-all answer against the spec's observable state."""

    def __init__(self, conc):
        self.conc = conc
        self.sent = {}       # cid -> (stream, expected fields, ts or (t0,t1))
        self.by_aid = {}     # abstract id -> [cid]

    def note(self, aid, cid, stream, exp, ts, window):
        self.max_ts = max(getattr(self, "max_ts", 0), ts if ts is not None else window[1])
        self.sent[cid] = (stream, exp, ts if ts is not None else window)
        self.by_aid.setdefault(aid, []).append(cid)

    def rid(self, r):
        """identity of a returned record: its id field; a record without id is a field-less event, identified by its
        timestamp when we sent one with that timestamp, else anonymous (None)"""
        if r.get("id") is not None:
            return r.get("id")
        key = "@ts:%s" % r.get("timestamp")
        return key if key in self.sent else None

    def expand(self, aids):
        out = set()
        for a in aids:
            out.update(self.by_aid.get(a, []))
        return out

    def check(self, stream, obs, resp, stage, light=False):
        """-> list of (key, detail).  light: only ids + timestamp + a sample of full records (huge scenarios)."""
        bad = []
        if resp.get("hang"):
            raise vlib.Infra("match-all query did not finish within the driver's timeout (machine load?)")
        if "qerr" in resp:
            return [("query-error", "%s: match-all on %s failed: %s" % (stage, stream, resp.get("qerr")))]
        recs = ((resp.get("hits") or {}).get("records")) or []
        must = self.expand(obs["must"])
        may = self.expand(obs["may"])
        seen = {}
        anon = []          # records without id whose timestamp is not that of a field-less event we sent with one
        for r in recs:
            cid = self.rid(r)
            if cid is None:
                anon.append(r)
                continue
            seen[cid] = seen.get(cid, 0) + 1
        must_anon = {c for c in must if c.startswith("@anon:")}
        may_anon = {c for c in may if c.startswith("@anon:")}
        must, may = must - must_anon, may - may_anon
        if len(anon) < len(must_anon):
            bad.append(("visible:flushed-event-missing", "%s: %d flushed field-less events (sent as {}) expected on %s, %d returned" % (
                stage, len(must_anon), stream, len(anon))))
        elif len(anon) > len(must_anon) + len(may_anon):
            bad.append(("visible:invented", "%s: `*` on %s returned %d records without any field, at most %d were sent, e.g. %r" % (
                stage, stream, len(anon), len(must_anon) + len(may_anon), anon[0])))
        else:
            wins = [self.sent[c][2] for c in (must_anon | may_anon)]
            for r in anon:
                if not any(w[0] - 5 <= (r.get("timestamp") or 0) <= w[1] + 5 for w in wins):
                    bad.append(("timestamp:arrival", "%s: field-less record %r does not carry an arrival time of a {} document" % (stage, r)))
                    break
                extra_fields = {k: v for k, v in r.items() if k != "timestamp" and v is not None}
                if extra_fields:
                    bad.append(("field:field-invented", "%s: a {} document came back with fields %r" % (stage, extra_fields)))
                    break
        dup = [c for c, n in seen.items() if n > 1]
        if dup:
            bad.append(("visible:duplicate", "%s: %s returned %d times (and %d more duplicated ids)" % (stage, dup[0], seen[dup[0]], len(dup) - 1)))
        missing = must - set(seen)
        if missing:
            m = sorted(missing)[0]
            bad.append(("visible:flushed-event-missing", "%s: %d flushed events missing from `*` on %s, e.g. %s" % (stage, len(missing), stream, m)))
        extra = set(seen) - must - may
        if extra:
            x = sorted(extra, key=str)[0]
            kind = "visible:invented"
            if x in self.sent:
                kind = "visible:other-stream-or-lost-event" if self.sent[x][0] != stream else "visible:dropped-event-reappeared"
            bad.append((kind, "%s: `*` on %s returned %d ids the spec does not allow, e.g. %r" % (stage, stream, len(extra), x)))
        tm = (resp.get("hits") or {}).get("totalMatched")
        if isinstance(tm, dict) and tm.get("relation") == "eq" and tm.get("value") != len(recs):
            bad.append(("visible:totalMatched", "%s: totalMatched %s but %d records returned" % (stage, tm.get("value"), len(recs))))
        relax = set()
        for c in obs["text"]:
            relax.add(".".join(str(x) for x in self.conc.colmap[stream][c]))
        kinds_seen = set()
        for n, r in enumerate(recs):
            cid = self.rid(r)
            if cid is None or cid not in self.sent or self.sent[cid][0] != stream:
                continue
            _, exp, ts = self.sent[cid]
            got = dict(r)
            gts = got.pop("timestamp", None)
            if isinstance(ts, tuple):
                if not (isinstance(gts, int) and ts[0] - 5 <= gts <= ts[1] + 5):
                    bad.append(("timestamp:arrival", "%s: %s sent without timestamp during [%d,%d], got %r" % (stage, cid, ts[0], ts[1], gts)))
            elif gts != ts:
                bad.append(("timestamp", "%s: %s sent timestamp %r got %r" % (stage, cid, ts, gts)))
            if light and n % 997 != 0:
                if got.get("id") != cid and not cid.startswith("@"):
                    bad.append(("value:string", "id mismatch"))
                continue
            for suffix, detail in compare_record(exp, got, relax):
                if suffix in kinds_seen:
                    continue
                kinds_seen.add(suffix)
                bad.append(("field:" + suffix, "%s: event %s: %s" % (stage, cid, detail)))
        return bad


# --------------------------------------------------------------------------- replay of one history

def replay_history(binary, case):
    """case: {beh, seed, profile, idx}.  Returns dict(fails=[(key, detail)], stats)."""
    beh, profile = case["beh"], case["profile"]
    conc = Concretiser(case["seed"], beh, profile)
    orc = Oracle(conc)
    fails, stats = [], {"steps": 0, "events": 0, "rejected": 0, "queries": 0}
    ses = None
    light = conc.mult >= 5000
    try:
        ses = Session(binary, "c01", pqs=case.get("pqs", True))
        for n, st in enumerate(beh["steps"]):
            act = st["act"]
            a = act["a"]
            if a == "ingest":
                evs = conc.events(act)
                acc, t0, t1 = ses.bulk(act["s"], [e[1] for e in evs])
                per = len(evs) // len(act["ids"])
                for i, (cid, _, exp, ts) in enumerate(evs):
                    if acc[i]:
                        orc.note(act["ids"][i // per], cid, act["s"], exp, ts, (t0, t1))
                    else:
                        stats["rejected"] += 1
                stats["events"] += len(evs)
            elif a == "flush":
                ses.dr.ok("flush", timeout=300)
            elif a == "rotate":
                ses.dr.ok("rotate", timeout=300)
            elif a == "restart":
                ses.restart()
            elif a == "promote":
                pass   # C03 territory; a no-op for the match-all answer
            stats["steps"] += 1
            for s, obs in sorted(st["obs"].items()):
                size = max(1000, len(orc.sent) + 100)
                end = max(int(time.time() * 1000) + 86_400_000, getattr(orc, "max_ts", 0) + 1000)   # covering range
                resp = ses.query(s, "*", size=size, include_nulls=True, end=end)
                stats["queries"] += 1
                for key, detail in orc.check(s, obs, resp, "step %d (%s)" % (n + 1, a), light=light):
                    fails.append((key, detail))
            if fails:
                break
    except vlib.DriverDead as e:
        if e.kind == "hang" or killed_from_outside(e):
            raise vlib.Infra("engine did not answer in time / was killed by a signal from outside (machine load?): %s" % e)
        fails.append(("engine-died", str(e)))
    finally:
        if ses is not None:
            ses.close()
    return {"fails": fails, "stats": stats, "colmap": conc.colmap, "mult": conc.mult}


# --------------------------------------------------------------------------- fixed probes (known deviation classes)

def probe_nonfinite(binary):
    """A string that Go's ParseFloat reads as +Inf, in a block column that also holds a number."""
    ses = None
    try:
        ses = Session(binary, "c01p")
        ses.bulk("ix", ['{"id":"p1","timestamp":%d,"v":"inf"}' % T0, '{"id":"p2","timestamp":%d,"v":5}' % (T0 + 1)])
        ses.dr.ok("flush")
        o = ses.dr.cmd("query", index="ix", text="*", start=1, end=int(time.time() * 1000) + 86_400_000, size=10, include_nulls=True)
        if not o.get("ok"):
            return [("query:response-unserialisable-after-string-inf",
                     "events {v:\"inf\"} and {v:5} in one block: match-all fails: %s" % str(o.get("err"))[:200])]
        recs = ((o.get("res") or {}).get("hits") or {}).get("records") or []
        got = {r.get("id"): r.get("v") for r in recs}
        if got.get("p1") != "inf":
            return [("field:value:numeric-string-rewritten-as-number", "sent the string \"inf\", got %r" % (got.get("p1"),))]
        return []
    except vlib.DriverDead as e:
        if e.kind == "hang" or killed_from_outside(e):
            raise vlib.Infra(str(e))
        return [("engine-died", str(e))]
    finally:
        if ses is not None:
            ses.close()


# --------------------------------------------------------------------------- orchestration

def behaviour_kind(beh):
    acts = [s["act"]["a"] for s in beh["steps"]]
    return acts


def sparse_score(beh):
    """max over the blocks of the final layout of: number of (column, record) places where a column first appears
    at a record > 0 of the block (has to be back-filled) or is missing again after it appeared."""
    kinds = beh["kinds"]
    cl = {}
    for st in beh["steps"]:
        if st["act"]["a"] == "ingest":
            for i in st["act"]["ids"]:
                cl[i] = st["act"]["cls"]
    best = 0
    for obs in beh["steps"][-1]["obs"].values():
        for sg in obs["lay"]:
            for blk in sg["blocks"]:
                seen, score = set(), 0
                for n, i in enumerate(blk["ids"]):
                    present = {c for c, k in kinds[cl[i]].items() if k != "absent"}
                    if n > 0:
                        score += len(present - seen) + len(seen - present)
                    seen |= present
                best = max(best, score)
    return best


def bare_block_score(beh):
    """number of flushed blocks that consist only of field-less events (class without any column) + WIP contents of
    that kind dropped or flushed later: the field-less record as the whole content of a flush"""
    kinds = beh["kinds"]
    barecls = {c for c, k in kinds.items() if all(v == "absent" for v in k.values())}
    cl = {}
    for st in beh["steps"]:
        if st["act"]["a"] == "ingest":
            for i in st["act"]["ids"]:
                cl[i] = st["act"]["cls"]
    n = 0
    for obs in beh["steps"][-1]["obs"].values():
        for sg in obs["lay"]:
            for blk in sg["blocks"]:
                if all(cl[i] in barecls for i in blk["ids"]):
                    n += 1
    return n


def overlap_score(beh):
    """From the spec's abstract block time ranges: over ordered pairs of segments (A, B) of a stream where B starts
    and ends later than A and reaches into A (partial overlap), the number of A's blocks that lie wholly before B's
    start.  This is the situation in which the searcher's recent-first rounds defer blocks to a later round."""
    total = 0
    for obs in beh["steps"][-1]["obs"].values():
        segs = []
        for sg in obs["lay"]:
            bl = [(b["lo"], b["hi"]) for b in sg["blocks"]]
            if bl:
                segs.append((min(x[0] for x in bl), max(x[1] for x in bl), bl))
        for a in segs:
            for b in segs:
                if a is b or not (b[1] > a[1] and a[0] < b[0] <= a[1]):
                    continue
                total += sum(1 for (lo, hi) in a[2] if hi < b[0])
    return total


def nontrivial(beh):
    acts = behaviour_kind(beh)
    return acts.count("ingest") >= 2 and ("rotate" in acts or "restart" in acts or acts.count("flush") >= 2)


def run_models(chk, quick):
    r = vlib.run_tlc("MC_LogStore", "MC_LogStore_rt.cfg" if quick else "MC_LogStore_rt_deep.cfg", workers=WORKERS,
                     timeout=1500)
    vlib.tlc_must_hold(r, "LogStore round-trip model")
    chk.add_tlc("MC_LogStore_rt" + ("" if quick else "_deep"), r,
                "RoundTrip LayoutIrrelevant PruneSound TypeOK + OnlyIngestGrows FlushedStays; 2 streams, 3 classes")
    rc = vlib.run_tlc("MC_LogStore", "MC_LogStore_cov.cfg", workers=WORKERS, timeout=900, coverage=True)
    vlib.tlc_must_hold(rc, "LogStore coverage run")
    chk.add_tlc("MC_LogStore_cov", rc, "all actions enabled (Promote, Restart, 2 streams), run with -coverage")
    if rc.coverage_zero:
        raise vlib.Infra("vacuous actions in LogStore: %s" % rc.coverage_zero)


def gen(chk, cfg, name, **kw):
    behs, r = vlib.tlc_generate("Gen_LogStore", cfg, timeout=900, **kw)
    behs = vlib.dedup(behs)
    chk.add_tlc(name, r, "behaviour generation (%d histories)" % len(behs))
    if not behs:
        raise vlib.Infra("no behaviours from %s" % cfg)
    return behs


def run(chk):
    quick = chk.tier == "quick"
    seed = chk.seed
    run_models(chk, quick)

    rt = gen(chk, "Gen_LogStore_rt.cfg", "Gen_LogStore_rt")
    rt2 = gen(chk, "Gen_LogStore_rt2.cfg", "Gen_LogStore_rt2")
    probe = gen(chk, "Gen_LogStore_probe.cfg", "Gen_LogStore_probe")
    cap = gen(chk, "Gen_LogStore_cap.cfg", "Gen_LogStore_cap")
    sim = gen(chk, "Gen_LogStore_rt_sim.cfg", "Gen_LogStore_rt_sim", simulate="num=%d" % (150 if quick else 1500), depth=12,
              seed=seed)
    # several late-appearing / sparse columns per block (class table of 6 columns, 5 classes)
    bare = gen(chk, "Gen_LogStore_bare.cfg", "Gen_LogStore_bare")   # the field-less record, alone in a block or not
    txt = gen(chk, "Gen_LogStore_txt.cfg", "Gen_LogStore_txt")      # several string columns per event
    ooo = gen(chk, "Gen_LogStore_ooo.cfg", "Gen_LogStore_ooo")      # event times not monotone in ingest order
    late = gen(chk, "Gen_LogStore_late.cfg", "Gen_LogStore_late")
    late_sim = gen(chk, "Gen_LogStore_late_sim.cfg", "Gen_LogStore_late_sim", simulate="num=%d" % (120 if quick else 1200),
                   depth=16, seed=seed)
    binary = vlib.build_driver()

    cases = []

    def add(behs, n, profile, tag):
        for b in vlib.sample(behs, n, seed * 1000003 + len(cases)):
            cases.append({"beh": b, "seed": seed * 7919 + len(cases), "profile": profile, "idx": len(cases), "tag": tag})

    def add_stratified(behs, n, tag, score=None, profile="plain"):
        """half of the sample from the histories with the highest structural score, the other half uniformly.
        sparse_score: late-appearing / disappearing columns per block ('sparse and late-appearing columns');
        overlap_score: segments whose time ranges overlap partially, with whole blocks before the other's start"""
        score = score or sparse_score
        sc = {id(b): score(b) for b in behs}
        best = max(sc.values()) if sc else 0
        top = [b for b in behs if best > 0 and sc[id(b)] >= max(1, best - 1)]
        add(top, n // 2, profile, tag)
        add(behs, n - n // 2, profile, tag)

    interesting = [b for b in rt if nontrivial(b)]
    if quick:
        add(interesting, 90, "plain", "rt")
        add(rt2, 40, "plain", "rt2")
        add(sim, 40, "plain", "sim")
        add(interesting, 12, "constlen", "rt-constlen")
        add(interesting, 8, "big", "rt-big")
        add(interesting, 10, "card", "rt-card")
        add(cap, 2, "cap", "cap")
        add_stratified(late, 40, "late")
        add_stratified(late_sim, 30, "late-sim")
        add(txt, 16, "escapes", "txt-escapes")
        add(txt, 10, "plain", "txt")
        add_stratified(ooo, 40, "ooo", score=overlap_score, profile="ooo")
        add_stratified(bare, 30, "bare", score=bare_block_score)
    else:
        add(rt, 1500, "plain", "rt")
        add(rt2, 700, "plain", "rt2")
        add(sim, 700, "plain", "sim")
        add(interesting, 200, "constlen", "rt-constlen")
        add(interesting, 100, "big", "rt-big")
        add(interesting, 100, "card", "rt-card")
        add(sim, 30, "card", "sim-card")
        add(cap, 10, "cap", "cap")
        add_stratified(late, 600, "late")
        add_stratified(late_sim, 400, "late-sim")
        add(txt, 250, "escapes", "txt-escapes")
        add(txt, 150, "plain", "txt")
        add_stratified(ooo, 600, "ooo", score=overlap_score, profile="ooo")
        add_stratified(bare, 400, "bare", score=bare_block_score)
    # the statement's un-relaxed case: numeric-looking strings next to numbers (fixed classes)
    def same_block(b):
        cl = {}
        for st in b["steps"]:
            if st["act"]["a"] == "ingest":
                for i in st["act"]["ids"]:
                    cl[i] = st["act"]["cls"]
        for sg in b["steps"][-1]["obs"]["ix"]["lay"]:
            for blk in sg["blocks"]:
                if {"num", "numstr"} <= {cl[i] for i in blk["ids"]}:
                    return True
        return False
    probe_mix = [b for b in probe if same_block(b)]
    ncases_main = len(cases)
    add(probe_mix, 4 if quick else 40, "plain", "probe-numstr")

    heavy = [c for c in cases if c["profile"] in ("cap",)]
    lightc = [c for c in cases if c["profile"] not in ("cap",)]
    results = {}
    for c, res in zip(lightc, vlib.pmap(lambda c: replay_history(binary, c), lightc, workers=WORKERS)):
        results[c["idx"]] = res
    for c, res in zip(heavy, vlib.pmap(lambda c: replay_history(binary, c), heavy, workers=2)):
        results[c["idx"]] = res

    tot = {"steps": 0, "events": 0, "rejected": 0, "queries": 0}
    reported = {}
    for c in cases:
        res = results[c["idx"]]
        for k in tot:
            tot[k] += res["stats"][k]
        chk.replayed(1)
        acts = behaviour_kind(c["beh"])
        chk.count((c["tag"], c["profile"], tuple(acts), tuple(s["act"].get("cls") for s in c["beh"]["steps"])),
                  nontrivial=nontrivial(c["beh"]), n=res["stats"]["queries"])
        seen = set()
        for key, detail in res["fails"]:
            if key in seen:
                continue
            seen.add(key)
            reported[key] = reported.get(key, 0) + 1
            if reported[key] > 1:
                continue        # one replay file per key; the number of cases is in the evidence
            chk.violation("C01:" + key, "[%s/%s] %s" % (c["tag"], c["profile"], detail),
                          {"kind": "history", "beh": c["beh"], "seed": c["seed"], "profile": c["profile"], "idx": c["idx"],
                           "colmap": res["colmap"], "mult": res["mult"]})
    for key, detail in probe_nonfinite(binary):
        chk.violation("C01:" + key, detail, {"kind": "probe_nonfinite"})
    chk.count(("probe", "nonfinite"), nontrivial=True)

    chk.cov["violation_case_counts"] = reported
    chk.cov["replay_totals"] = tot
    chk.cov["cases_by_tag"] = {t: sum(1 for c in cases if c["tag"] == t) for t in sorted(set(c["tag"] for c in cases))}
    if cases:
        c0 = cases[0]
        conc = Concretiser(c0["seed"], c0["beh"], c0["profile"])
        first = next((s["act"] for s in c0["beh"]["steps"] if s["act"]["a"] == "ingest"), None)
        chk.sample({"kind": "history", "actions": [s["act"] for s in c0["beh"]["steps"]],
                    "expected_after_last_step": c0["beh"]["steps"][-1]["obs"],
                    "first_concrete_events": [e[1][:300] for e in conc.events(first)[:2]] if first else []})
    chk.assumptions += [
        "numbers outside int64 (incl. uint64 > 2^63-1) are compared as float64: the engine stores them as float64 and the statement quantifies over int64/float64",
        "events are read back with includeNulls=true; the default response omits empty-string fields",
        "unflushed events may or may not be visible (timer flushes): required is flushed <= visible <= flushed + WIP",
        "-0.0 and 0 compare equal; int-valued floats (3.0, 1E5) compare numerically",
        "keys with '.', empty keys, '*', _index/_type, duplicate keys and non-JSON input are not generated",
    ]
    chk.describe(rule="each case = one TLC-generated history (ingest/flush/rotate/restart over 1-2 streams) x one seeded "
                      "concretisation profile (plain / constlen / big / card 500-502 / cap 65534); after every step `*` per "
                      "stream is compared per id. distinct_nontrivial = distinct (action sequence, class sequence, profile) "
                      "with >=2 ingests and a rotation, restart or second flush",
                 exhaustive=False)


def replay(chk, path):
    d = json.load(open(path))
    rp = d.get("replay") or {}
    print("key:", d.get("key"))
    print("what:", d.get("what"))
    binary = vlib.build_driver()
    if rp.get("kind") == "probe_nonfinite":
        fails = probe_nonfinite(binary)
    elif rp.get("kind") == "history":
        print("actions:", json.dumps([s["act"] for s in rp["beh"]["steps"]]))
        print("column map:", json.dumps(rp.get("colmap")))
        res = replay_history(binary, rp)
        fails = res["fails"]
    else:
        print(json.dumps(rp)[:4000])
        return 0
    for k, det in fails:
        print("REPRODUCED C01:%s :: %s" % (k, det))
    if not fails:
        print("not reproduced")
    return 1 if fails else 0
