"""C06 - pipeline commands mean the same however the stream is chunked.

Model: spec/Pipeline.tla - the DataProcessor.Fetch loop (streaming / bottleneck / two-pass + Rewind, CachedStream
  exhaustion, both legal ways a Streamer signals the end, empty batches) with one transcribed operator per processor
  method, against whole-sequence reference semantics Sem(cmd, rows) that returns the SET of admissible outputs (ties of
  sort, order of stats/top/rare rows).  TLC checks, for every command / chain, every small table and EVERY chunking:
  Concat(out) in SemChain(chain, table), and that no streamed prefix is ever taken back.
Binding:
  (fn)  Gen_Pipeline exports (chain, table, admissible outputs, all chunkings).  An in-package test builds the REAL
        DataProcessor chain from the SPL text through the real parser (AggsToDataProcessors + setMergeSettings as
        NewQueryProcessor does), feeds it each chunking through a synthetic Streamer, drains Fetch() and the rows are
        compared with the model's admissible outputs.
  (meta) commands whose per-row function TLA+ cannot express (rex, regex, eval functions, bin without span): the
        expected output is the real single-batch run; every TLC-enumerated chunking must reproduce it.
  (e2e) the same tables are ingested through sigdrv so that the chunking arises from block/segment layout and
        GOMAXPROCS (blocks per searcher fetch); `* | <chain>` must return an admissible output.
"""
import json
import os
import random
import subprocess
import time

import vlib

LEVEL = "model_checking"

CLAIMED = True   # set by the lead after review; only claimed checks enter MANIFEST.json
MANIFEST = dict(
    category="model_checking",
    technique="TLA+ spec of the DataProcessor fetch loop and per-command cross-batch state vs whole-sequence reference semantics (TLC exhaustive over chains x tables x ALL chunkings) + replay of every enumerated chunking on the real DataProcessor chain built from SPL text, and e2e through block/segment layout",
    text=("spec/Pipeline.tla transcribes DataProcessor.Fetch (streaming/bottleneck/two-pass with Rewind, CachedStream, EOF "
          "conventions, empty batches) and the Process/GetFinalResultIfExists/Rewind methods of head (count and expression forms: "
          "limit, null, keeplast), tail, dedup (limit, consecutive, keepempty, keepevents), sort, where, "
          "fields, rename, fillnull (both forms), eval (+, if), bin (span and two-pass), streamstats (count/sum, by, window, "
          "reset_on_change), top/rare, stats, makemv/mvexpand; TLC checks Concat(out) in SemChain(chain, table) and prefix "
          "stability for every single command, every valid pair and a core set of triples, every table of <=3-4 rows, every "
          "chunking. Gen_Pipeline exports (chain, table, admissible outputs, all chunkings); each chunking is run on the REAL "
          "DataProcessor chain (built from SPL text by the real parser) over a synthetic Streamer, and a sample end to end "
          "through sigdrv where blocks/segments and GOMAXPROCS produce the batches."),
    note=("Documented-semantics clause is covered only for commands with a TLA+ operator; rex, regex, eval functions and bin "
          "without span are bound metamorphically (expected = real single-batch run, every TLC-enumerated chunking must "
          "reproduce it). Values are small integers/null plus one numeric field `f` that mixes integer and fractional values "
          "(model: units of one half; real rows: int when whole, float otherwise; null-free, whole in the first rows and "
          "fractional in later ones and vice versa), used by stats/streamstats sum, sort, where, eval, top and dedup; by-fields "
          "and aggregated fields are null-free (the statement is "
          "silent on null groups); `top/rare limit=N`, multi-key sort and timechart/transaction are not modelled. The operational "
          "model has one upstream chain: parallel chains (SetupQueryParallelism, merger, fetchFromAnyStream) are run in-package "
          "with two synthetic streams for every TLC-enumerated assignment of rows to streams, with four chains of which two get no "
          "batch or one empty batch (more CPUs than blocks), and end to end with GOMAXPROCS 2/4, "
          "against the same oracle (TLC checks SplitInvariant: the oracle is independent of the split); the merge schedule "
          "itself is not forced. Pairs/triples are a VERIF_SEED-selected sample in the quick tier."),
    design_ref="DESIGN.md 4/C06",
)

PKG = "pkg/segment/query/processor"
HDIR = os.path.join(vlib.VERIF, "harness", "inpkg", PKG)
HFILES = [os.path.join(HDIR, f) for f in ("zz_verif_pipeline_test.go", "zz_verif_pipelinex_test.go")]

NULL = -1
COLS = ["a", "b", "m", "f"]
MCODE = {1: "1", 12: "1,2", 3: "3", 2: "2"}


_T = [time.time()]


def _phase(name):
    now = time.time()
    vlib.log("[%s] phase %-28s +%.1fs" % (os.path.basename(__file__)[:3], name, now - _T[0]))
    _T[0] = now


# --------------------------------------------------------------------------- chain -> SPL

def spl_of(chain):
    """SPL text of a model chain; returns (text, post) where post describes how real column names / value kinds
    map back to the model's fields."""
    parts = []
    names = {}      # model field -> real column name
    for c in chain:
        op = c["op"]
        f = lambda x: names.get(x, x)
        if op == "head":
            parts.append("head %d" % c["n"])
        elif op == "headx":
            parts.append("head limit=%d %s%s%d%s%s" % (c["n"], f(c["f"]), ">" if c["cmp"] == "gt" else "<", c["k"],
                                                     " null=true" if c["nul"] else "", " keeplast=true" if c["keeplast"] else ""))
        elif op == "tail":
            parts.append("tail %d" % c["n"])
        elif op == "dedup":
            s = "dedup "
            if c["lim"] != 1:
                s += "%d " % c["lim"]
            s += " ".join(f(x) for x in c["fs"])
            if c["consec"]:
                s += " consecutive=true"
            if c["keepempty"]:
                s += " keepempty=true"
            if c.get("keepevents"):
                s += " keepevents=true"
            parts.append(s)
        elif op == "sort":
            parts.append("sort %s%s%s" % ("%d " % c["lim"] if c["lim"] else "", "" if c["asc"] else "-", f(c["f"])))
        elif op == "where":
            if c["f"] == "f":      # f is modelled in units of 0.5
                parts.append("where %s>%s" % (f(c["f"]), c["k"] / 2))
            else:
                parts.append("where %s>%d" % (f(c["f"]), c["k"]))
        elif op == "fields":
            parts.append("fields %s%s" % ("" if c["keep"] else "- ", ", ".join(f(x) for x in sorted(c["fs"]))))
        elif op == "rename":
            parts.append("rename %s as %s" % (f(c["f"]), c["g"]))
        elif op == "fillnull":
            parts.append(("fillnull value=%d %s" % (c["v"], " ".join(f(x) for x in sorted(c["fs"])))).strip())
        elif op == "eval":
            e = c["e"]
            if e["t"] == "add":
                parts.append("eval %s=%s+%s" % (c["g"], f(e["x"]), f(e["y"])))
            elif e["t"] == "addk":
                parts.append("eval %s=%s+%d" % (c["g"], f(e["x"]), e["k"]))
            else:
                parts.append("eval %s=if(%s>%d,%s,%s)" % (c["g"], f(e["f"]), e["k"], f(e["x"]), f(e["y"])))
        elif op == "bin":
            parts.append("bin span=%d %s" % (c["span"], f(c["f"])))
        elif op == "bin2":
            parts.append("bin %s" % f(c["f"]))
        elif op == "streamstats":
            s = "streamstats "
            if c["win"]:
                s += "window=%d " % c["win"]
            if c["roc"]:
                s += "reset_on_change=true "
            s += ("count" if c["fn"] == "count" else "sum(%s)" % f(c["f"])) + " as " + c["g"]
            if c["by"]:
                s += " by " + f(c["by"])
            parts.append(s)
        elif op in ("top", "rare"):
            parts.append("%s %s%s" % (op, "limit=%d " % c["lim"] if c["lim"] else "", f(c["f"])))
            names["cnt"] = "count"
        elif op == "stats":
            s = "stats " + ("count as cnt" if c["fn"] == "count" else "sum(%s) as sm" % f(c["f"]))
            if c["by"]:
                s += " by " + f(c["by"])
            parts.append(s)
            names.pop("cnt", None)
        elif op == "makemv":
            parts.append('makemv delim="," %s' % f(c["f"]))
        elif op == "mvexpand":
            parts.append("mvexpand %s" % f(c["f"]))
        else:
            raise vlib.Infra("no SPL rendering for %r" % c)
    return " | ".join(parts)


def kinds_after(chain):
    """value kind of every model field at the end of the chain: plain | m | mv | mvx | bin:<span> | abstract"""
    k = {"a": "plain", "b": "plain", "m": "m", "f": "half"}
    for c in chain:
        op = c["op"]
        if op == "stats" and c["fn"] == "sum":
            k["sm"] = "half" if k.get(c["f"]) == "half" else "plain"
        if op == "rename":
            if c["f"] in k:
                k[c["g"]] = k.pop(c["f"])
        elif op == "bin":
            k[c["f"]] = "bin:%d" % c["span"]
        elif op == "bin2":
            k[c["f"]] = "abstract"
        elif op == "makemv":
            k[c["f"]] = "mv"
        elif op == "mvexpand":
            k[c["f"]] = "mvx"
        elif op == "eval":
            e = c["e"]
            srcs = [e.get("x"), e.get("y")] if e["t"] != "addk" else [e.get("x")]
            k[c["g"]] = "half" if any(k.get(x) == "half" for x in srcs if x) else "plain"
        elif op == "streamstats":
            k[c["g"]] = "half" if (c["fn"] == "sum" and k.get(c["f"]) == "half") else "plain"
    return k


def is_meta(chain):
    return any(c["op"] == "bin2" for c in chain)


def has_toprare(chain):
    return any(c["op"] in ("top", "rare") for c in chain)


# monotone concretisations of the model's values 1, 2, 3 of field `a` (metamorphic runs only): commands whose result
# depends on the magnitude of the whole value range (bin without span) need ranges that differ by orders of magnitude
SCALES = [(1, 2, 3), (1, 55, 950), (50, 60, 300), (7, 70, 7000), (2, 30, 31)]


def half(v):
    """model value in units of 0.5 -> what is ingested: an INTEGER when whole, a float otherwise"""
    return v // 2 if v % 2 == 0 else v / 2


def concrete_row(r, scale=None):
    """model input row -> list of JSON values for columns a, b, m"""
    a = r["a"] if scale is None else scale[r["a"] - 1]
    return [a, None if r["b"] == NULL else r["b"], MCODE[r["m"]], half(r["f"])]


def rank_pattern(table):
    """order type of column a: for every row whether it sets a new minimum / new maximum / both / neither of the rows
    before it - tables are stratified by it so that running-range logic sees every shape (a later row below AND a later
    row above everything seen before, ...)"""
    pat, lo, hi = [], None, None
    for r in table:
        v = r["a"]
        if lo is None:
            pat.append("f")
        else:
            pat.append(("l" if v < lo else "") + ("h" if v > hi else "") or "m")
        lo = v if lo is None else min(lo, v)
        hi = v if hi is None else max(hi, v)
    # which extremes are still to come after the first row decides whether ONE later batch can extend both ends
    return "".join(pat[:1]) + "|" + ",".join(sorted(set(pat[1:])))


def norm_model_row(r, kinds):
    o = {}
    for f, v in r.items():
        if v == NULL:
            continue
        kd = kinds.get(f, "plain")
        if kd == "m":
            s = MCODE[v]
            o[f] = float(s) if "," not in s else s
        elif kd == "mv":
            o[f] = [float(x) for x in MCODE[v].split(",")]
        elif kd == "half":
            o[f] = float(v) / 2
        elif kd.startswith("bin:"):
            sp = int(kd[4:])
            o[f] = "%d-%d" % (v, v + sp)
        else:
            o[f] = float(v)
    return o


def norm_real_val(v):
    if v is None:
        return None
    t, x = v[0], v[1]
    if t in ("i", "f"):
        if isinstance(x, str):
            return x
        return float(x)
    if t == "s":
        if x == "":
            return None
        try:
            return float(x)
        except ValueError:
            return x
    if t == "l":
        out = []
        for y in x or []:
            try:
                out.append(float(y))
            except (ValueError, TypeError):
                out.append(y)
        return out
    return x


def norm_real_row(r, chain):
    o = {}
    for f, v in r.items():
        if f == "":
            continue
        nv = norm_real_val(v)
        if nv is None:
            continue
        o[f] = nv
    if has_toprare(chain):
        # the producing top/rare names its columns count / percent
        last = None
        for c in chain:
            if c["op"] in ("top", "rare"):
                last = "tr"
            elif c["op"] == "stats":
                last = "st"
        if last == "tr":
            if "count" in o:
                o["cnt"] = o.pop("count")
            o.pop("percent", None)
    return o


def two_pass_after_bottleneck(chain):
    seen = False
    for c in chain:
        if c["op"] in ("sort", "stats", "top", "rare", "tail"):
            seen = True
        elif seen and (c["op"] == "bin2" or (c["op"] == "fillnull" and not c["fs"])):
            return True
    return False


def key_of(chain, kind, par=False):
    ops = [c["op"] for c in chain]
    if par and two_pass_after_bottleneck(chain):
        return "C06:parallel:two-pass-after-merged-bottleneck:wrong-result"
    if par:
        for i, c in enumerate(chain):
            if c["op"] == "sort" and c["lim"] and any(d["op"] in ("sort", "stats", "top", "rare") for d in chain[i + 1:]):
                return "C06:parallel:sort-limit-merge-order-clobbered:wrong-result"
    if par >= 3 and kind in ("chunking-dependent", "semantics", "e2e-result") and any(c["op"] == "stats" and not c["by"] for c in chain):
        # >= 3 chains, `stats` without by-clause: the merger keeps only the last partial result when the first one to
        # arrive came from a chain without input (docs/patches/fix-C06-parallel-stats-merge-drops-partial-results)
        return "C06:parallel:stats-without-by-merge-of-3plus-chains:partial-results-lost"
    if kind == "e2e-result" and chain[0]["op"] == "stats" and chain[0]["by"] and chain[0]["fn"] == "sum" and chain[0]["f"] == "b":
        # the first aggregation is computed by the searcher's group-by path, not by the pipeline (C03/C04 territory)
        return "C06:e2e:searcher-groupby-sum-with-missing-field:layout-dependent"
    so = [i for i, c in enumerate(chain) if c["op"] == "sort"]
    if so and two_pass_after_bottleneck(chain[so[0]:]) and kind in ("semantics", "chunking-dependent", "e2e-result"):
        return "C06:sort-then-two-pass:wrong-result"
    if kind in ("semantics", "e2e-empty", "e2e-result"):
        for i, c in enumerate(chain):
            if c["op"] == "stats" and not c["by"] and i > 0 and two_pass_after_bottleneck(chain[i:]):
                return "C06:stats-without-by-then-two-pass:empty-result"
    for c in chain:
        if c["op"] == "streamstats" and c["win"]:
            return "C06:streamstats:window-index-reset-per-batch"
    for c in chain:
        if c["op"] == "streamstats" and c["roc"]:
            return "C06:streamstats:reset_on_change-at-batch-boundary"
    if kind in ("semantics", "e2e-result"):
        for c in chain:
            if c["op"] == "dedup" and len(c["fs"]) > 1:
                return "C06:dedup:multi-field-xor-collision"
    if kind == "e2e-error" and chain[0]["op"] in ("stats", "top", "rare") and any(c["op"] == "sort" for c in chain[1:]):
        return "C06:e2e:aggregation-then-sort-by-original-field:query-error"
    if kind == "e2e-empty":
        tp = [i for i, c in enumerate(chain) if c["op"] == "bin2" or (c["op"] == "fillnull" and not c["fs"])]
        so = [i for i, c in enumerate(chain) if c["op"] == "sort" and c["f"] in ("a", "b", "m")]
        if tp and so and min(tp) < max(so):
            return "C06:e2e:two-pass-then-sort-by-original-field:empty-result"
        return "C06:%s:e2e-result" % "+".join(ops)
    return "C06:%s:%s" % ("+".join(ops), kind)


# --------------------------------------------------------------------------- running the in-package harness

def build_test_binary(sc):
    out = os.path.join(sc, "proc.test")
    rc, o = vlib.go_test_inpkg(PKG, HFILES, "XXX_NONE", extra_args=["-c", "-o", out], timeout=1200)
    if rc != 0 or not os.path.exists(out):
        raise vlib.Infra("building the in-package pipeline harness failed:\n" + o[-4000:])
    return out


def run_cases(binary, sc, cases, shards=6):
    """cases: list of dicts for the Go harness; returns {id: result}"""
    if not cases:
        return {}
    shards = max(1, min(shards, len(cases) // 200 + 1))
    parts = [cases[i::shards] for i in range(shards)]

    def one(ix):
        inp = os.path.join(sc, "in%d.ndjson" % ix)
        outp = os.path.join(sc, "out%d.ndjson" % ix)
        with open(inp, "w") as f:
            for c in parts[ix]:
                f.write(json.dumps(c) + "\n")
        if os.path.exists(outp):
            os.unlink(outp)
        e = dict(os.environ)
        e.update({"VERIF_PIPE_IN": inp, "VERIF_PIPE_OUT": outp})
        try:
            p = subprocess.run([binary, "-test.run", "TestVerifPipeline$", "-test.timeout", "3000s"], env=e, cwd=sc,
                               stdout=subprocess.PIPE, stderr=subprocess.STDOUT, text=True, timeout=3200)
        except subprocess.TimeoutExpired:
            raise vlib.Infra("in-package pipeline harness timed out")
        res = {}
        if os.path.exists(outp):
            for line in open(outp):
                try:
                    r = json.loads(line)
                    res[r["id"]] = r
                except ValueError:
                    pass
        return res, p.returncode, p.stdout[-3000:]

    allres = {}
    for (res, rc, tail), part in zip(vlib.pmap(one, range(shards), workers=shards), parts):
        allres.update(res)
        if len(res) < len(part):
            # the test binary died (fatal error / stack overflow in the engine code) on the first case without a result
            missing = [c for c in part if c["id"] not in res]
            allres[missing[0]["id"]] = {"id": missing[0]["id"], "died": True, "tail": tail}
            for c in missing[1:]:
                allres[c["id"]] = {"id": c["id"], "skipped": True}
    return allres


def gen_pick(seed, n):
    rnd = random.Random(seed)
    body = ", ".join(str(rnd.randrange(0, 10 ** 6)) for _ in range(n))
    sc = vlib.scratch("pick")
    p = os.path.join(sc, "GenPick.tla")
    with open(p, "w") as f:
        f.write("------------------------------ MODULE GenPick ------------------------------\n"
                "PickIdx == {%s}\n"
                "=============================================================================\n" % body)
    return sc, p


# --------------------------------------------------------------------------- metamorphic command set

META_SPL = [
    'rex field=m "(?<r>[0-9])"',
    'regex m="1"',
    'regex m!="1"',
    'eval d=tostring(a)+"x"',
    'eval d=len(m)',
    'eval d=lower("A")+m',
    'eval d=max(a,b)',
    'eval d=case(a>2,"hi",a>1,"mid",a>0,"lo")',
    'eval d=coalesce(b,a)',
    'eval d=round(a/3,2)',
    'eval d=if(isnull(b),"n","y")',
    'eval d=substr(m,1,1)',
    'bin a',
    'bin bins=2 a',
    'bin bins=10 a',
    'bin bins=100 a',
    'bin a as g',
    'where a>0 | bin bins=5 a',
    'bin bins=20 a | stats count as c by a',
    'eval d=a+a | bin d',
    'rex field=m "(?<r>[0-9])" | where a>1',
    'regex m="1" | head 1',
    'eval d=tostring(a) | dedup d',
    'eval d=len(m) | sort -d',
    'eval d=coalesce(b,a) | streamstats sum(d) as s',
    'bin a | tail 2',
    'fillnull value=9 | eval d=a+b | where d>9',
]
META_UNORDERED = ("sort", "stats", "top ", "rare ")


# --------------------------------------------------------------------------- the check

def run(chk):
    quick = chk.tier == "quick"
    rnd = random.Random(chk.seed)
    _T[0] = time.time()

    # ---- model
    mc = [("MC_Pipeline_q1", "every single command x tables <=3 rows x all chunkings (<=1 empty batch, both EOF conventions)"),
          ("MC_Pipeline_q1ss", "streamstats window / reset_on_change with state carried across batches (what the command means)"),
          ("MC_Pipeline_q1tp", "two-pass commands and head-with-expression, alone and in short chains, tables <=4 rows with three distinct values"),
          ("MC_Pipeline_q1rw", "Rewind obligation: every stateful streaming command (head, head <expr>, dedup incl. consecutive/keepevents, streamstats) in front of a two-pass command"),
          ("MC_Pipeline_q2", "every valid pair of commands x tables <=3 rows x all chunkings")]
    if not quick:
        mc = [("MC_Pipeline_t1", "every single command x tables <=4 rows (5 row kinds) x all chunkings"),
              ("MC_Pipeline_q1ss", "streamstats window / reset_on_change, state carried"),
              ("MC_Pipeline_q1tp", "two-pass commands and head-with-expression, tables <=4 rows with three distinct values"),
              ("MC_Pipeline_q1rw", "Rewind obligation: stateful streaming command in front of a two-pass command"),
              ("MC_Pipeline_t2", "every valid pair x tables <=3 rows x all chunkings incl. empty batches and both EOF conventions"),
              ("MC_Pipeline_t3", "core triples x tables <=3 rows x all chunkings")]
    if os.environ.get("VERIF_DEV_SKIP_MC"):   # development only (mutant runs): the model runs do not depend on the Go tree
        mc = []
    for i, (cfg, note) in enumerate(mc):
        r = vlib.run_tlc("MC_Pipeline", cfg + ".cfg", timeout=1500, workers=6)
        vlib.tlc_must_hold(r, cfg)
        chk.add_tlc(cfg, r, "ChunkingInvariant/PrefixOK: " + note)
    _phase("tlc mc")
    r2 = vlib.run_tlc("MC_Pipeline", "MC_Pipeline_q1ss_code.cfg", timeout=600, workers=4)
    if not r2.violated:
        raise vlib.Infra("model sensitivity lost: SSCarry=FALSE (streamstats state reset per batch) no longer violates the invariants")
    chk.cov["model_sensitivity"] = ("SSCarry=FALSE (streamstatscommand.go resets currentIndex/currentBucketKey per batch) violates %s "
                                    "at model level - replay candidate confirmed on the real code below" % r2.violated)

    # ---- behaviours
    lines = []
    pick_sc, pick = gen_pick(chk.seed, 70 if quick else 500)
    try:
        gens = [("Gen_Pipeline_q1", None), ("Gen_Pipeline_q1ss", None), ("Gen_Pipeline_q1tp", None), ("Gen_Pipeline_q1rw", None), ("Gen_Pipeline_q2", pick), ("Gen_Pipeline_q3", pick)]
        if not quick:
            gens = [("Gen_Pipeline_t1", None), ("Gen_Pipeline_q1ss", None), ("Gen_Pipeline_q1tp", None), ("Gen_Pipeline_q1rw", None), ("Gen_Pipeline_t2", pick), ("Gen_Pipeline_q3", pick)]
        for cfg, extra in gens:
            beh, r = vlib.tlc_generate("Gen_Pipeline", cfg + ".cfg", timeout=1500, extra_files=[extra] if extra else None)
            chk.add_tlc(cfg, r, "behaviour generation")
            if not beh:
                raise vlib.Infra("no behaviours from " + cfg)
            for b in beh:
                b["src"] = cfg
            lines += beh
    finally:
        vlib.rmtree(pick_sc)

    _phase("gen")
    sc = vlib.scratch("c06")
    try:
        binary = build_test_binary(sc)
        _phase("build")
        fn_level(chk, binary, sc, lines, quick, rnd)
        _phase("fn")
        meta_level(chk, binary, sc, lines, quick, rnd)
        special_level(chk, binary, sc)
        _phase("meta+special")
    finally:
        vlib.rmtree(sc)
    e2e_level(chk, lines, quick, rnd)
    _phase("e2e")

    chk.assumptions += [
        "values are small integers / null / one comma-separated multi-value field; by-fields and aggregated fields are null-free",
        "sort ties, the order of stats rows and of top/rare rows with equal counts are left open by the statement: every order is admissible",
        "an aggregate without by-clause over an empty input may or may not yield its single row (checked separately for consistency)",
        "real string values that parse as numbers are compared numerically (fillnull writes its value as a string)",
    ]
    chk.describe(rule="TLC enumerates (chain, table) and ALL chunkings; each chunking is one evaluation on the real DataProcessor chain. "
                      "distinct_nontrivial = distinct (chain, table) pairs with >= 2 rows whose chunkings include a batch boundary, "
                      "plus e2e layouts with >= 2 blocks",
                 exhaustive=False)


def cases_of_line(li, b, quick, rnd, max_per_line):
    chain, table = b["chain"], b["table"]
    spl = spl_of(chain)
    rows = [concrete_row(r) for r in table]
    combos = [(sz, e) for sz in b["chunkings"] for e in b["eof"] if not (e and len(sz) == 0)]
    n = len(table)
    single = [(sz, e) for (sz, e) in combos if sz == ([n] if n else [])]
    if max_per_line and len(combos) > max_per_line:
        rest = [x for x in combos if x not in single]
        combos = single + rnd.sample(rest, max_per_line - len(single))
    cases = []
    for ci, (sz, e) in enumerate(combos):
        batches, i = [], 0
        for k in sz:
            batches.append(list(range(i, i + k)))
            i += k
        cases.append({"id": "%d/%d" % (li, ci), "spl": spl, "cols": COLS, "rows": rows, "streams": [batches],
                      "eof_last": bool(e), "par": 1, "_sizes": sz})
    return cases


def compositions(n):
    if n == 0:
        return [[]]
    out = []
    for k in range(1, n + 1):
        for rest in compositions(n - k):
            out.append([k] + rest)
    return out


def par_cases_of_line(li, b, rnd, max_per_line):
    """two upstream streams: rows distributed by a TLC-enumerated assignment, each stream chunked"""
    chain, table = b["chain"], b["table"]
    spl = spl_of(chain)
    rows = [concrete_row(r) for r in table]
    asgs = [a for a in b.get("splits") or [] if len(a) == len(table)]
    if not asgs or len(table) < 2:
        return []
    if len(asgs) > max_per_line:
        asgs = rnd.sample(asgs, max_per_line)
    cases = []
    for ai, asg in enumerate(asgs):
        streams = []
        for k in (1, 2):
            idx = [i for i, x in enumerate(asg) if x == k]
            sz = rnd.choice(compositions(len(idx)))
            bs, p = [], 0
            for n in sz:
                bs.append(idx[p:p + n])
                p += n
            streams.append(bs)
        cases.append({"id": "%d/p%d" % (li, ai), "spl": spl, "cols": COLS, "rows": rows, "streams": streams,
                      "eof_last": bool(rnd.getrandbits(1)), "par": 2, "_sizes": streams})
        if ai == 0:
            # more chains than streams with data (more CPUs than blocks): the same split over FOUR chains, two of which get
            # no batch at all or one empty batch, at seeded positions.  Which partial result reaches the merger first is up
            # to the scheduler; the oracle does not depend on it (SplitInvariant: any split, empty parts included).
            four = [rnd.choice([[], [[]]]), rnd.choice([[], [[]]])] + [list(st) for st in streams]
            rnd.shuffle(four)
            cases.append({"id": "%d/q%d" % (li, ai), "spl": spl, "cols": COLS, "rows": rows, "streams": four,
                          "eof_last": bool(rnd.getrandbits(1)), "par": 4, "_sizes": four})
    return cases


def classify(res):
    if res.get("died"):
        return "died", res.get("tail", "")[-1500:]
    if res.get("skipped"):
        return "skipped", ""
    if res.get("hang"):
        return "hang", ""
    if res.get("panic"):
        return "panic", res["panic"][:1500]
    if res.get("err"):
        return "error", res["err"]
    return "ok", ""


def fn_level(chk, binary, sc, lines, quick, rnd):
    cases, meta = [], {}
    parids = []
    for li, b in enumerate(lines):
        if is_meta(b["chain"]):
            continue
        if quick:
            per = None if b["src"] == "Gen_Pipeline_q1ss" else (8 if b["src"] in ("Gen_Pipeline_q1", "Gen_Pipeline_q1tp") else 5)
        else:
            per = None if b["src"] in ("Gen_Pipeline_q1ss", "Gen_Pipeline_t1") else (40 if b["src"] in ("Gen_Pipeline_q1tp", "Gen_Pipeline_q1rw") else 12)
        for c in cases_of_line(li, b, quick, rnd, per):
            meta[c["id"]] = (li, c.pop("_sizes"), c["eof_last"])
            cases.append(c)
            ch0 = b["chain"][0]
            if ch0["op"] == "fillnull" and not ch0["fs"] and len(b["chain"]) == 1 and any(r["b"] != NULL for r in b["table"]):
                # the same chunking with batches that lack the column entirely when all their rows are null
                # (a segment without that column): what the first pass learns must be the UNION over the batches
                c2 = dict(c, id=c["id"] + "s", sparse=True)
                meta[c2["id"]] = meta[c["id"]]
                cases.append(c2)
        for c in par_cases_of_line(li, b, rnd, 3 if quick else 8):
            meta[c["id"]] = (li, c.pop("_sizes"), c["eof_last"])
            cases.append(c)
            parids.append(c["id"])
    t0 = time.time()
    res = run_cases(binary, sc, cases)
    vlib.log("[c06] fn: %d chunkings of %d (chain, table) pairs on the real DataProcessor chain in %.1fs" % (
        len(cases), len(lines), time.time() - t0))
    by_line = {}
    for cid, (li, sz, e) in meta.items():
        by_line.setdefault(li, []).append((sz, e, res.get(cid, {"skipped": True})))
    # the model's ParSplittable must agree with the real CanParallelSearch/SetupQueryParallelism
    # (a non-mergeable bottleneck in first position - top/rare - gives empty clones: one live chain)
    notsplit = [cid for cid in parids if res.get(cid, {}).get("nchains") not in (None, len(meta[cid][1])) and not res.get(cid, {}).get("err", "").startswith("build")
                and lines[meta[cid][0]]["chain"][0]["op"] not in ("top", "rare")]
    chk.cov["fn_parallel"] = {"two_stream_runs": len([c for c in parids if len(meta[c][1]) == 2]),
                              "four_chain_runs": len([c for c in parids if len(meta[c][1]) == 4]), "real_chain_count_differs": len(notsplit)}
    if notsplit:
        li = meta[notsplit[0]][0]
        raise vlib.Infra("SPEC-DRIFT: spec says `%s` is cloned per upstream stream (ParSplittable), the real SetupQueryParallelism built %s chain(s)" % (
            spl_of(lines[li]["chain"]), res[notsplit[0]].get("nchains")))
    n_infra = 0
    reported = {}
    for li, runs in by_line.items():
        b = lines[li]
        chain = b["chain"]
        kinds = kinds_after(chain)
        expect = [[norm_model_row(r, kinds) for r in seq] for seq in b["expect"]]
        n = len(b["table"])
        single_ok = None
        bad = []
        for sz, e, r in runs:
            st, detail = classify(r)
            if st == "skipped":
                n_infra += 1
                continue
            chk.count(("fn", li), nontrivial=(n >= 2 and len(sz) >= 2))
            ok = False
            got = None
            if st == "ok":
                got = [norm_real_row(x, chain) for x in (r.get("rows") or [])]
                ok = got in expect
            if sz == ([n] if n else []) and not e:
                single_ok = ok
            if not ok:
                bad.append((sz, e, st, detail, got))
        chk.replayed(1)
        if li % 997 == 0:
            chk.sample({"kind": "fn", "spl": spl_of(chain), "table": b["table"], "chunkings": len(runs),
                        "admissible_outputs": len(expect)})
        if not bad:
            continue
        sz, e, st, detail, got = bad[0]
        if st in ("panic", "died"):
            kind = "crash"
        elif st == "hang":
            kind = "hang"
        elif st == "error":
            kind = "error"
        elif single_ok:
            kind = "chunking-dependent"
        else:
            kind = "semantics"
        if kind == "hang":
            n_infra += 1
            continue
        key = key_of(chain, kind, par=len(sz) if sz and isinstance(sz[0], list) else 0)
        if key in reported:
            reported[key] += 1
            continue
        reported[key] = 1
        par = len(sz) if sz and isinstance(sz[0], list) else 0
        what = ("`%s` over rows %s delivered %s%s%s: real DataProcessor chain returned %s%s; admissible: %s" % (
            spl_of(chain), [concrete_row(x) for x in b["table"]],
            ("to %d parallel chains, row numbers per chain and batch " % par) if par else "in batches of ", sz, " (last batch with io.EOF)" if e else "",
            json.dumps(got) if got is not None else st, (" [" + detail[:300] + "]") if detail else "",
            json.dumps(expect[:3])))
        chk.violation(key, what, {"kind": "fn", "spl": spl_of(chain), "cols": COLS,
                                  "rows": [concrete_row(x) for x in b["table"]], "sizes": sz, "eof_last": e,
                                  "expect": expect, "got": got, "single_batch_ok": single_ok})
    chk.cov["fn"] = {"chunkings_run": len(cases), "lines": len(by_line), "violating_keys": reported}
    if n_infra > len(cases) // 20 + 5:
        raise vlib.Infra("too many cases without a result (%d)" % n_infra)


def meta_level(chk, binary, sc, lines, quick, rnd):
    """commands without a TLA+ per-row operator: expected = real single-batch run; all enumerated chunkings must agree."""
    tables = {}
    for b in lines:
        if b["src"].endswith(("q1", "t1", "q1tp")):
            tables[json.dumps(b["table"])] = b
    tabs = [b for b in tables.values() if len(b["table"]) >= 2]
    rnd.shuffle(tabs)
    # stratified by the order type of the numeric column (round-robin over the rank patterns)
    strata = {}
    for b in tabs:
        strata.setdefault((rank_pattern(b["table"]), len(b["table"])), []).append(b)
    tabs = []
    while any(strata.values()) and len(tabs) < (18 if quick else 100):
        for k in sorted(strata):
            if strata[k] and len(tabs) < (18 if quick else 100):
                tabs.append(strata[k].pop())
    scale_of = lambda si, ti: SCALES[(si + ti) % len(SCALES)]
    spls = list(META_SPL)
    def open_order_then_order_sensitive(chain):
        # after stats/top/rare/sort the order (among ties) is open; head/tail/dedup/streamstats behind it may then
        # legitimately differ from run to run - not comparable metamorphically
        seen = False
        for c in chain:
            if c["op"] in ("stats", "top", "rare", "sort"):
                seen = True
            elif seen and c["op"] in ("head", "headx", "tail", "dedup", "streamstats"):
                return True
        return False
    for b in lines:
        if is_meta(b["chain"]) and not any(c["op"] == "sort" and c["lim"] for c in b["chain"]) and not open_order_then_order_sensitive(b["chain"]):
            spls.append(spl_of(b["chain"]))
    spls = vlib.dedup(spls, key=lambda x: x)
    if quick:
        spls = spls[:len(META_SPL)] + rnd.sample(spls[len(META_SPL):], min(20, max(0, len(spls) - len(META_SPL))))
    cases, meta = [], {}
    for si, spl in enumerate(spls):
        for ti, b in enumerate(tabs):
            fake = {"chain": [], "table": b["table"], "chunkings": b["chunkings"], "eof": b["eof"]}
            n = len(b["table"])
            rows = [concrete_row(r, scale_of(si, ti)) for r in b["table"]]
            combos = [(sz, e) for sz in b["chunkings"] for e in b["eof"]]
            if quick and len(combos) > 12:
                combos = [([n], False)] + rnd.sample([x for x in combos if x != ([n], False)], 11)
            for ci, (sz, e) in enumerate(combos):
                batches, i = [], 0
                for k in sz:
                    batches.append(list(range(i, i + k)))
                    i += k
                cid = "m%d/%d/%d" % (si, ti, ci)
                cases.append({"id": cid, "spl": spl, "cols": COLS, "rows": rows, "streams": [batches], "eof_last": bool(e), "par": 1})
                meta[cid] = (si, ti, sz, e)
    res = run_cases(binary, sc, cases)
    groups = {}
    for cid, (si, ti, sz, e) in meta.items():
        groups.setdefault((si, ti), []).append((sz, e, res.get(cid, {"skipped": True})))
    reported = set()
    for (si, ti), runs in groups.items():
        spl = spls[si]
        n = len(tabs[ti]["table"])
        ref = [r for (sz, e, r) in runs if sz == [n] and not e]
        if not ref or classify(ref[0])[0] != "ok":
            if ref and classify(ref[0])[0] in ("panic", "died"):
                key = "C06:meta:%s:crash" % spl.split()[0]
                if key not in reported:
                    reported.add(key)
                    chk.violation(key, "`%s` crashed on a single batch: %s" % (spl, classify(ref[0])[1][:500]),
                                  {"kind": "meta", "spl": spl, "rows": [concrete_row(x, scale_of(si, ti)) for x in tabs[ti]["table"]]})
            continue
        unordered = any(u in spl for u in META_UNORDERED)
        canon = lambda rr: [json.dumps({k: v for k, v in x.items() if v is not None and k != ""}, sort_keys=True) for x in (rr.get("rows") or [])]
        want = canon(ref[0])
        chk.replayed(1)
        for sz, e, r in runs:
            st, detail = classify(r)
            if st in ("skipped", "hang"):
                continue
            chk.count(("meta", si, ti), nontrivial=len(sz) >= 2)
            got = canon(r) if st == "ok" else None
            same = got is not None and (sorted(got) == sorted(want) if unordered else got == want)
            if not same:
                cmds = [p.strip().split()[0] for p in spl.split("|")]
                key = "C06:meta:%s:%s" % ("+".join(cmds), "chunking-dependent" if st == "ok" else st)
                if "sort" in cmds and any(p.strip().startswith("bin ") and "span=" not in p for p in spl.split("|")[cmds.index("sort") + 1:]):
                    key = "C06:sort-then-two-pass:wrong-result"
                if "streamstats window=" in spl:
                    key = "C06:streamstats:window-index-reset-per-batch"
                elif "reset_on_change=true" in spl:
                    key = "C06:streamstats:reset_on_change-at-batch-boundary"
                if key in reported:
                    continue
                reported.add(key)
                chk.violation(key, "`%s` over rows %s: single batch gives %s, batches of %s%s give %s %s" % (
                    spl, [concrete_row(x, scale_of(si, ti)) for x in tabs[ti]["table"]], want, sz, " (+EOF)" if e else "", got if got is not None else st, detail[:300]),
                    {"kind": "meta", "spl": spl, "rows": [concrete_row(x, scale_of(si, ti)) for x in tabs[ti]["table"]], "sizes": sz, "eof_last": e})
    chk.cov["meta"] = {"spl": len(spls), "tables": len(tabs), "chunkings_run": len(cases)}


def special_level(chk, binary, sc):
    """(a) zero batches vs one empty batch of the same (empty) input must agree;
       (b) `top/rare limit=N` keeps the N most / least frequent values (documented semantics; not in the TLA+ model)."""
    spls = ["head 2", "tail 2", "dedup a", "sort a", "where a>1", "fillnull value=0", "bin a", "streamstats count as n", "top a",
            "stats count as cnt by a", "stats count as cnt", "stats sum(a) as sm", "eval d=a+1 | stats count as cnt"]
    cases = []
    for i, s in enumerate(spls):
        cases.append({"id": "z%d/none" % i, "spl": s, "cols": COLS, "rows": [], "streams": [[]], "eof_last": False, "par": 1})
        cases.append({"id": "z%d/empty" % i, "spl": s, "cols": COLS, "rows": [], "streams": [[[]]], "eof_last": False, "par": 1})
    rows = [[1, 1, "1", 1], [2, 1, "1", 2], [1, 1, "1", 1], [3, 1, "1", 3], [2, 1, "1", 2], [1, 1, "1", 1]]
    cases.append({"id": "top1", "spl": "top limit=1 a", "cols": COLS, "rows": rows, "streams": [[list(range(6))]], "eof_last": False, "par": 1})
    cases.append({"id": "rare1", "spl": "rare limit=1 a", "cols": COLS, "rows": rows, "streams": [[list(range(6))]], "eof_last": False, "par": 1})
    res = run_cases(binary, sc, cases, shards=1)
    for i, s in enumerate(spls):
        a, b = res.get("z%d/none" % i, {}), res.get("z%d/empty" % i, {})
        if classify(a)[0] != "ok" or classify(b)[0] != "ok":
            continue
        chk.count(("special", "empty", i), nontrivial=False)
        if (a.get("rows") or []) != (b.get("rows") or []):
            chk.violation("C06:%s:empty-input-zero-batches-vs-empty-batch" % s.split("|")[-1].split()[0],
                          "`%s` over an empty input: a stream that yields no batch gives %s, a stream that yields one empty batch gives %s" % (
                              s, a.get("rows"), b.get("rows")),
                          {"kind": "special", "spl": s, "rows": [], "streams": [[], [[]]]})
    for cid, want in (("top1", 1.0), ("rare1", 3.0)):
        r = res.get(cid, {})
        if classify(r)[0] != "ok":
            continue
        got = [norm_real_val(x.get("a")) for x in r.get("rows") or []]
        chk.count(("special", cid), nontrivial=True)
        if got != [want]:
            chk.violation("C06:%s:limit-keeps-values-by-name-not-by-frequency" % ("top" if cid == "top1" else "rare"),
                          "`%s` over a=[1,2,1,3,2,1] (counts 1:3, 2:2, 3:1) returned a=%s, the documented result is a=%s" % (
                              cases[-2 if cid == "top1" else -1]["spl"], got, [want]),
                          {"kind": "special", "spl": cases[-2 if cid == "top1" else -1]["spl"], "rows": rows})


# --------------------------------------------------------------------------- e2e

T0 = 1_700_000_000_000


def e2e_case(binary, case):
    """ingest the table so that batch k of the chunking is block k (flush) or segment k (rotate); newest first = table order"""
    d = vlib.scratch("c06e2e")
    dr = None
    try:
        dr = vlib.Driver(binary, env={"SIGDRV_GOMAXPROCS": str(case["gomaxprocs"])})
        dr.ok("init", dir=d, newpipe=True)
        n = len(case["rows"])
        i = 0
        for bi, k in enumerate(case["sizes"]):
            body = ""
            for j in range(i, i + k):
                a, b, m, fv = case["rows"][j]
                doc = {"rid": j, "timestamp": T0 + (n - j) * 1000, "a": a, "m": m, "f": fv}
                if b is not None:
                    doc["b"] = b
                body += json.dumps({"index": {"_index": "c06"}}) + "\n" + json.dumps(doc) + "\n"
            i += k
            if body:
                r = dr.ok("bulk", body=body)
                if r["response"].get("errors"):
                    raise vlib.Infra("bulk rejected: %s" % r)
                dr.ok("flush")
                if case["layout"][bi] == "seg":
                    dr.ok("rotate")
        outs = []
        for _ in range(1):
            r = dr.ok("query", text="* | " + case["spl"], index="c06", start=T0 - 10_000, end=T0 + 10_000_000, timeout_ms=60000)
            outs.append(r)
        lay = dr.ok("c05_layout")
        return {"resp": outs[0], "layout": lay}
    except vlib.DriverDead as e:
        if e.kind == "hang":
            return {"hang": True}
        return {"died": str(e)}
    finally:
        if dr is not None:
            dr.quit()
        vlib.rmtree(d)


def rows_of_response(resp, chain):
    if not isinstance(resp, dict):
        return None, "no response"
    if resp.get("qerr"):
        return None, "query error: " + resp["qerr"]
    if resp.get("hang"):
        return None, "hang"
    if resp.get("qtype") == "logs-query" or "hits" in resp and resp.get("measure") is None:
        recs = (resp.get("hits") or {}).get("records") or []
        rows = []
        for h in recs:
            o = {}
            for k, v in h.items():
                if k in ("timestamp", "_index", "rid") or v is None:
                    continue
                o[k] = v
            rows.append(o)
        return rows, None
    rows = []
    gcols = resp.get("groupByCols") or []
    for m in resp.get("measure") or []:
        o = {}
        for c, v in zip(gcols, m.get("IGroupByValues") or []):
            o[c] = v.get("CVal") if isinstance(v, dict) else v
        for k, v in (m.get("MeasureVal") or {}).items():
            o[k] = v
        rows.append(o)
    return rows, None


def norm_e2e_val(v):
    if isinstance(v, bool):
        return v
    if isinstance(v, (int, float)):
        return float(v)
    if isinstance(v, str):
        if v == "":
            return None
        try:
            return float(v)
        except ValueError:
            return v
    if isinstance(v, list):
        return [norm_e2e_val(x) for x in v]
    return v


def e2e_level(chk, lines, quick, rnd):
    binary = vlib.build_driver()
    cand = [b for b in lines if not is_meta(b["chain"]) and len(b["table"]) >= 2]
    rnd.shuffle(cand)
    # stratified: round-robin over (source set, first command) so that every command family reaches the engine
    strata = {}
    for b in cand:
        strata.setdefault((b["src"], b["chain"][0]["op"], len(b["chain"])), []).append(b)
    order = []
    while any(strata.values()):
        for k in sorted(strata):
            if strata[k]:
                order.append(strata[k].pop())
    cand = order
    n_cases = 160 if quick else 1200
    cases = []
    for b in cand:
        if len(cases) >= n_cases:
            break
        chain = b["chain"]
        if any(c["op"] in ("makemv", "mvexpand") for c in chain):
            continue
        # a column that no ingested record carries does not exist for the engine (`fillnull` without field list cannot
        # fill it, `stats sum(b)` has no groups): keep b present in the data
        fa = [i for i, c in enumerate(chain) if c["op"] == "fillnull" and not c["fs"]]
        if fa and fa[0] > 0 and any(r["b"] == NULL for r in b["table"]):
            continue   # rows that reach the fillnull may all come from blocks without the column
        if all(r["b"] == NULL for r in b["table"]):
            continue
        sizes = rnd.choice([s for s in b["chunkings"] if 0 not in s])
        layout = [rnd.choice(["blk", "blk", "seg"]) for _ in sizes]
        cases.append({"line": b, "spl": spl_of(chain), "rows": [concrete_row(r) for r in b["table"]], "sizes": sizes, "layout": layout,
                      "gomaxprocs": rnd.choice([1, 1, 2, 4])})
    results = vlib.pmap(lambda c: e2e_case(binary, c), cases, workers=6)
    reported = set()
    hangs = 0
    for c, r in zip(cases, results):
        b = c["line"]
        chain = b["chain"]
        if r.get("hang"):
            hangs += 1
            continue
        if r.get("died"):
            chk.violation("C06:e2e:engine-died", "engine process died running `* | %s`: %s" % (c["spl"], r["died"]),
                          {"kind": "e2e", "spl": c["spl"], "rows": c["rows"], "sizes": c["sizes"], "layout": c["layout"]})
            continue
        rows, err = rows_of_response(r["resp"], chain)
        if err == "hang":
            hangs += 1
            continue
        chk.replayed(1)
        nblocks = sum(len(s["blocks"]) for s in r.get("layout") or [])
        chk.count(("e2e", c["spl"], json.dumps(c["rows"]), json.dumps(c["sizes"])), nontrivial=nblocks >= 2)
        kinds = kinds_after(chain)
        expect = [[norm_model_row(x, kinds) for x in seq] for seq in b["expect"]]
        got = None
        if rows is not None:
            got = []
            for x in rows:
                o = {}
                for k, v in x.items():
                    nv = norm_e2e_val(v)
                    if nv is not None and k not in ("", "*"):   # `fillnull value=..` shows a column named "*" in the engine (noted in docs/C06.md)
                        o[k] = nv
                if has_toprare(chain) and "count" in o and all(cc["op"] != "stats" for cc in chain):
                    o["cnt"] = o.pop("count")
                    o.pop("percent", None)
                got.append(o)
        # the engine adds its own columns to records (none expected here beyond the ingested ones)
        ok = got is not None and got in expect
        if not ok:
            kind = "error" if got is None else ("empty" if got == [] else "result")
            key = key_of(chain, "e2e-" + kind, par=c["gomaxprocs"] if c["gomaxprocs"] > 1 else 0)
            if key in reported:
                continue
            reported.add(key)
            chk.violation(key, "e2e `* | %s` over rows %s ingested as blocks %s (%s, GOMAXPROCS=%d): engine returned %s; admissible: %s" % (
                c["spl"], c["rows"], c["sizes"], c["layout"], c["gomaxprocs"], json.dumps(got) if got is not None else err, json.dumps(expect[:3])),
                {"kind": "e2e", "spl": c["spl"], "rows": c["rows"], "sizes": c["sizes"], "layout": c["layout"],
                 "gomaxprocs": c["gomaxprocs"], "expect": expect, "got": got})
    if cases:
        chk.sample({"kind": "e2e", "spl": cases[0]["spl"], "rows": cases[0]["rows"], "sizes": cases[0]["sizes"], "layout": cases[0]["layout"]})
    chk.cov["e2e"] = {"cases": len(cases), "hangs_ignored": hangs}
    if hangs > max(3, len(cases) // 5):
        raise vlib.Infra("%d of %d e2e queries did not answer in time" % (hangs, len(cases)))
    e2e_meta_level(chk, binary, lines, quick, rnd)


E2E_META_SPL = ['bin a', 'bin bins=5 a', 'bin bins=100 a', 'where a>0 | bin a', 'eval d=a+a | bin d', 'bin a | tail 2']


def e2e_meta_level(chk, binary, lines, quick, rnd):
    """two-pass commands whose per-row function is not in the model, end to end: the same rows ingested as ONE block and as
    several blocks (one searcher batch per block with GOMAXPROCS=1) must give the same `* | <spl>`"""
    tabs = {}
    for b in lines:
        if b["src"].endswith("q1tp") and len(b["table"]) == 3:
            tabs.setdefault(rank_pattern(b["table"]), []).append(b)
    order = []
    for k in sorted(tabs):
        rnd.shuffle(tabs[k])
    while any(tabs.values()) and len(order) < (14 if quick else 60):
        for k in sorted(tabs):
            if tabs[k] and len(order) < (14 if quick else 60):
                order.append(tabs[k].pop())
    jobs = []
    for ti, b in enumerate(order):
        spl = E2E_META_SPL[ti % len(E2E_META_SPL)]
        scale = SCALES[1 + ti % (len(SCALES) - 1)]
        rows = [concrete_row(r, scale) for r in b["table"]]
        n = len(rows)
        multi = [sz for sz in b["chunkings"] if 0 not in sz and len(sz) >= 2]     # EVERY split of the rows into >= 2 blocks
        if len(multi) > 4:
            multi = rnd.sample(multi, 4)
        for sz in multi:
            jobs.append({"line": b, "spl": spl, "rows": rows, "sizes": [n], "layout": ["blk"], "gomaxprocs": 1, "ti": ti})
            jobs.append({"line": b, "spl": spl, "rows": rows, "sizes": sz, "layout": ["blk"] * len(sz), "gomaxprocs": 1, "ti": ti})
    # the single-block reference of a table is the same job several times: run it once
    cache = {}

    def run_job(c):
        k = json.dumps([c["spl"], c["rows"], c["sizes"]])
        if k not in cache:
            cache[k] = e2e_case(binary, c)
        return cache[k]
    uniq = {json.dumps([c["spl"], c["rows"], c["sizes"]]): c for c in jobs}
    for k, r in zip(uniq, vlib.pmap(lambda c: e2e_case(binary, c), list(uniq.values()), workers=6)):
        cache[k] = r
    res = [run_job(c) for c in jobs]
    reported = set()
    for i in range(0, len(jobs), 2):
        ra, rb = res[i], res[i + 1]
        if ra.get("hang") or rb.get("hang") or ra.get("died") or rb.get("died"):
            continue
        rows_a, ea = rows_of_response(ra["resp"], [])
        rows_b, eb = rows_of_response(rb["resp"], [])
        chk.replayed(1)
        chk.count(("e2e-meta", jobs[i]["spl"], json.dumps(jobs[i]["rows"])), nontrivial=True, n=2)
        if rows_a is None or rows_b is None:
            continue
        canon = lambda rr: [json.dumps(x, sort_keys=True) for x in rr]
        if canon(rows_a) != canon(rows_b):
            key = "C06:e2e-meta:%s:layout-dependent" % "+".join(p.strip().split()[0] for p in jobs[i]["spl"].split("|"))
            if key in reported:
                continue
            reported.add(key)
            chk.violation(key, "e2e `* | %s` over rows %s: ingested as one block the engine returns %s, as blocks %s it returns %s" % (
                jobs[i]["spl"], jobs[i]["rows"], json.dumps(rows_a), jobs[i + 1]["sizes"], json.dumps(rows_b)),
                {"kind": "e2e-meta", "spl": jobs[i]["spl"], "rows": jobs[i]["rows"], "sizes": jobs[i + 1]["sizes"]})
    chk.cov["e2e_meta"] = {"pairs": len(jobs) // 2}


def replay(chk, path):
    d = json.load(open(path))
    rp = d.get("replay", {})
    print(json.dumps({k: d[k] for k in ("property", "key", "what")}, indent=1))
    if rp.get("kind") in ("fn", "meta", "special") and "spl" in rp:
        sc = vlib.scratch("c06r")
        try:
            binary = build_test_binary(sc)
            rows = rp.get("rows", [])
            variants = []
            n = len(rows)
            variants.append(("single batch", [list(range(n))] if n else []))
            streams_of = {}
            if rp.get("sizes") and isinstance(rp["sizes"][0], list):
                # parallel chains: "sizes" holds the row numbers per chain and batch
                variants.append(("%d parallel chains" % len(rp["sizes"]), None))
                streams_of[variants[-1][0]] = rp["sizes"]
            elif "sizes" in rp:
                bs, i = [], 0
                for k in rp["sizes"]:
                    bs.append(list(range(i, i + k)))
                    i += k
                variants.append(("batches of %s" % rp["sizes"], bs))
            variants.append(("one row per batch", [[i] for i in range(n)]))
            cases = [{"id": nm, "spl": rp["spl"], "cols": COLS, "rows": rows, "streams": streams_of.get(nm, [bs]),
                      "eof_last": bool(rp.get("eof_last")), "par": len(streams_of.get(nm, [bs]))} for nm, bs in variants]
            # the arrival order of partial results at the merger is up to the scheduler: run the parallel variant several times
            for nm in list(streams_of):
                for k in range(2, 9):
                    variants.append(("%s (run %d)" % (nm, k), None))
                    cases.append(dict(cases[[c["id"] for c in cases].index(nm)], id=variants[-1][0]))
            res = run_cases(binary, sc, cases, shards=1)
            for nm, _ in variants:
                r = res.get(nm, {})
                print("%-22s -> %s" % (nm, json.dumps(r.get("rows")) if classify(r)[0] == "ok" else classify(r)))
        finally:
            vlib.rmtree(sc)
    else:
        print(json.dumps(rp, indent=1)[:4000])
    return 0
