"""C03 - query answers do not depend on physical layout or acceleration path.

Model: spec/LogStore.tla.  TLC checks LayoutIrrelevant (for every reachable layout - blocks, segments
  open / rotated, restart, pqmr bitsets of promoted queries - and every choice of "micro index
  consulted or not" / "pqmr used or not" per segment, the engine answer equals RefAnswer, a function
  of the flushed events only) and PruneSound (a block holding a matching event is never skipped by
  the bloom Inserted/Probe token sets or the range rule), plus the constant-level form of PruneSound
  over the whole small alphabet (ASSUME PruneSoundAllHolds).  Two sensitivity configs document the
  switches: NeSkipsConstBlock=TRUE (what metacheckers.go does for '!=') and LowerOnInsert=FALSE.
Binding: TLC-generated layout histories of the SAME dataset (same abstract events, different
  batching / flushes / rotations / restarts / promotions) are built in separate data directories
  through sigdrv, combined with configuration variants (PQS on/off + promotion by repeating the
  queries, aggregations flag, GOMAXPROCS), and one fixed query family is run on all of them:
  match-all, =, !=, <, >, wildcard, free text, AND/OR/NOT, stats count/sum/min/max/avg by g,
  head n, sort; plus one presence query per value / word present in the data (the PruneSound
  obligation on the real micro indexes).  Answers must be equal pairwise (against the canonical
  single-block layout) and equal to a python reference evaluation where one is computable.
"""
import fnmatch
import json
import os
import random
import time

import vlib
import c01

LEVEL = "model_checking"
CLAIMED = True   # set by the lead after review; only claimed checks enter MANIFEST.json

MANIFEST = dict(
    category="model_checking",
    technique="TLA+ LogStore spec (TLC exhaustive: LayoutIrrelevant over all layouts x accelerator choices, PruneSound for bloom "
              "token sets and range rule) + differential replay of TLC-generated layout histories of one dataset on the real engine "
              "with a fixed query family and a python reference",
    text=("spec/LogStore.tla models blocks/segments (open, rotated, restarted), pqmr bitsets of promoted queries and the micro "
          "index skip decisions (bloom Inserted/Probe token sets transcribed from addToBlockBloomBothCasesWithBuf and "
          "GetAllBlockBloomKeysToSearch; range rule from metacheckers.go). TLC checks LayoutIrrelevant for every layout history "
          "and every per-segment choice of accelerators, and PruneSound per block and over the whole small alphabet. Binding: "
          "for each dataset several TLC-generated layout histories (batching, flush, rotate, restart, promotion) x configuration "
          "variants (PQS on/off, aggregations flag, GOMAXPROCS 1/2/16, dictionary vs plain blocks via per-block cardinality) are "
          "built through sigdrv; a fixed query family (filters, wildcard, free text, boolean combinations, stats by group, head, "
          "sort, pre-aggregated vs raw statistics on a column mixing ints and floats, range filters on a column mixing "
          "numbers and numeric strings, one presence query per value/word) must give equal answers on all layouts and "
          "equal a python reference."),
    note=("Datasets are small (<= 8 abstract events x multiplicity up to 300) and typed cleanly except for two dedicated "
          "mixed-type datasets; the reference evaluator covers the filter/wildcard/free-text forms whose semantics were "
          "established empirically and count/sum/min/max/avg on fully populated columns; other answers are only compared "
          "pairwise. Sort indexes, rollups and the agile tree are exercised only as far as the aggregations flag and rotation "
          "produce them; no in-package binding of the bloom token sets (the spec transcription is checked end to end via the "
          "presence queries). Ties in `sort` are compared as value sequences."),
    design_ref="DESIGN.md 4/C03, docs/C03.md",
)

T0 = c01.T0
WORKERS = c01.WORKERS
GROUPS = ["a", "B", "c c"]


# --------------------------------------------------------------------------- dataset

class Dataset:
    """Concrete events for the abstract events of a history group (identical for every layout of the dataset)."""

    def __init__(self, classes, xtab, ttab, mult, mixed=False, mtab=None, xstab=None):
        self.classes = classes          # aid (1-based) -> class name
        self.mult, self.mixed = mult, mixed
        self.has_m = mtab is not None
        self.has_ns = xstab is not None
        self.events = {}                # aid -> [event dict]
        self.all = []
        n = 0
        for aid in sorted(classes):
            cls = classes[aid]
            evs = []
            for j in range(mult):
                e = {"id": "q%d_%d" % (aid, j), "timestamp": T0 + n * 10}
                cx, ct = xtab[cls], ttab[cls]
                if cx and xstab is not None:
                    # the same number as x, written as a numeric string by the classes the spec marks (ClassXS): a
                    # column mixing JSON numbers and numeric strings, converted + re-indexed per block at flush
                    v = cx[0] * (1 + j % 4)
                    e["ns"] = str(v) if xstab[cls] else v
                if cx:
                    e["x"] = cx[0] * (1 + j % 4)
                    e["f"] = cx[0] * 0.25 * (1 + j % 5)
                if ct:
                    e["t"] = " ".join(ct)
                if mtab is not None:
                    # the measure of the spec (ClassM: value in halves, written as JSON float or integer): a numeric
                    # column mixing integers and floats, integers arriving after the first float of a segment
                    cm = mtab[cls]
                    e["m"] = (cm["v"] / 2.0 + 3 * (j % 4)) if cm["f"] else (cm["v"] // 2 + 3 * (j % 4))
                e["g"] = GROUPS[n % 3]
                e["c"] = "c%05d" % n
                e["k"] = n % 7                      # always present small int
                if n % 3 == 0:
                    e["s"] = 400 + (n % 2)          # sparse
                if mixed:
                    # int64 (9 encoded bytes) next to 6-character strings (3+6 encoded bytes) in one column
                    e["mx"] = (n * 37) if n % 2 == 0 else "s%05d" % n
                evs.append(e)
                self.all.append(e)
                n += 1
            self.events[aid] = evs
        self.by_id = {e["id"]: e for e in self.all}

    def lines(self, aid):
        return [json.dumps(e) for e in self.events[aid]]


# --------------------------------------------------------------------------- query family + reference

def num(e, col):
    v = e.get(col)
    return v if isinstance(v, (int, float)) and not isinstance(v, bool) else None


def ref_cmp(col, op, lit):
    def f(e):
        v = num(e, col)
        if v is None:
            return op == "!="
        return {"=": v == lit, "!=": v != lit, "<": v < lit, ">": v > lit, "<=": v <= lit, ">=": v >= lit}[op]
    return f


def ref_streq(col, lit, neg=False):
    def f(e):
        v = e.get(col)
        if not isinstance(v, str):
            return neg
        return (v.lower() == lit.lower()) != neg
    return f


def ref_wild(col, pat):
    return lambda e: isinstance(e.get(col), str) and fnmatch.fnmatchcase(e[col].lower(), pat.lower())


def ref_word(w):
    def f(e):
        for k, v in e.items():
            if isinstance(v, str) and any(p.lower() == w.lower() for p in v.split(" ")):
                return True
        return False
    return f


def build_family(ds):
    """-> list of query dicts: name, text, kind (ids|stats|order|sortx), ref (callable or None), promote (bool)"""
    Q = []

    def ids(name, text, ref=None, promote=True, key=None):
        Q.append({"name": name, "text": text, "kind": "ids", "ref": ref, "promote": promote, "key": key or name})

    def lacks(col):
        return any(col not in e for e in ds.all)

    ids("all", "*", lambda e: True, promote=False)
    for col, op, lit in (("x", "=", 1), ("x", "!=", 1), ("x", "<", 1), ("x", ">", -1), ("x", "<=", -2), ("x", ">=", 2),
                         ("x", "=", -1), ("x", "<", -1), ("x", ">", -3), ("f", ">", 0.3), ("f", "<", -0.3), ("k", "=", 3), ("k", "!=", 3),
                         ("k", ">", 5), ("s", "=", 400), ("s", ">", 400), ("s", "<", 401)):
        ids("%s_%s_%s" % (col, {"=": "eq", "!=": "ne", "<": "lt", ">": "gt", "<=": "le", ">=": "ge"}[op], str(lit).replace("-", "m")),
            "%s%s%s" % (col, op, lit), ref_cmp(col, op, lit),
            key="num_ne_with_events_lacking_the_column" if op == "!=" and lacks(col) else None)
    if ds.has_ns:
        def nsval(e):
            return None if "ns" not in e else float(e["ns"])

        def ref_ns(op, lit):
            def f(e):
                v = nsval(e)
                if v is None:
                    return op == "!="
                return {"=": v == lit, "!=": v != lit, "<": v < lit, ">": v > lit, "<=": v <= lit, ">=": v >= lit}[op]
            return f
        nskey = lambda op: "num_ne_with_events_lacking_the_column" if op == "!=" and lacks("ns") else None
        for op, lit in (("<", 0), (">", 0), ("<", -1), (">", 1), ("<=", -2), (">=", 2), ("=", -1), ("=", 1), ("=", -3), ("=", 4),
                        ("!=", 1), ("<", 3), (">", -3)):
            ids("ns_%s_%s" % ({"=": "eq", "!=": "ne", "<": "lt", ">": "gt", "<=": "le", ">=": "ge"}[op], str(lit).replace("-", "m")),
                "ns%s%s" % (op, lit), ref_ns(op, lit), key=nskey(op))
        for v in sorted({nsval(e) for e in ds.all if "ns" in e}):
            ids("has_ns_%s" % str(int(v)).replace("-", "m"), "ns=%d" % v, ref_ns("=", v), promote=False)
    # '!=' on the sparse column: events without s satisfy it
    ids("s_ne_sparse", "s!=400", ref_cmp("s", "!=", 400), key="num_ne_with_events_lacking_the_column")
    ids("g_eq_a", "g=a", ref_streq("g", "a"))
    ids("g_eq_b_lower", "g=b", ref_streq("g", "b"))
    ids("g_eq_cc", 'g="c c"', ref_streq("g", "c c"))
    ids("g_ne_a", "g!=a", ref_streq("g", "a", neg=True))
    ids("t_eq_foo", "t=foo", ref_streq("t", "foo"))
    ids("t_eq_Foo_bar", 't="Foo bar"', ref_streq("t", "Foo bar"))
    ids("t_eq_bar_upper", "t=BAR", ref_streq("t", "BAR"))
    tkey = "wildcard_filter_over_column_missing_in_some_events" if lacks("t") else None
    ids("t_wild_bar", "t=*bar*", ref_wild("t", "*bar*"), key=tkey)
    ids("t_wild_prefix", "t=fo*", ref_wild("t", "fo*"), key=tkey)
    ids("c_wild", "c=c0000*", ref_wild("c", "c0000*"))
    ids("word_foo", "foo", ref_word("foo"))
    ids("word_Foo", "Foo", ref_word("Foo"))
    ids("word_bar", "bar", ref_word("bar"))
    ids("word_BAR", "BAR", ref_word("BAR"))
    ids("or_x_g", "x=1 OR g=a", lambda e: ref_cmp("x", "=", 1)(e) or ref_streq("g", "a")(e),
        key="or_filter_over_column_missing_in_some_events" if lacks("x") else None)
    ids("or_k_g", "k=3 OR g=a", lambda e: ref_cmp("k", "=", 3)(e) or ref_streq("g", "a")(e))
    ids("and_x_t", "x>-1 AND t=*foo*", lambda e: ref_cmp("x", ">", -1)(e) and ref_wild("t", "*foo*")(e), key=tkey)
    ids("and_k_c", "k>2 AND c=c000*", lambda e: ref_cmp("k", ">", 2)(e) and ref_wild("c", "c000*")(e))
    ids("not_g", "NOT g=a", ref_streq("g", "a", neg=True))
    # presence queries: every value / word present must be found (PruneSound on the real micro indexes)
    for v in sorted({e["x"] for e in ds.all if "x" in e}):
        ids("has_x_%s" % str(v).replace("-", "m"), "x=%d" % v, ref_cmp("x", "=", v), promote=False)
    for v in sorted({e["t"] for e in ds.all if "t" in e}):
        ids("has_t_%s" % v.replace(" ", "_"), 't="%s"' % v, ref_streq("t", v), promote=False)
        # the same value typed in lower / upper case: served by the lower-cased bloom tokens
        ids("has_t_lower_%s" % v.replace(" ", "_"), 't="%s"' % v.lower(), ref_streq("t", v), promote=False)
        ids("has_t_upper_%s" % v.replace(" ", "_"), 't="%s"' % v.upper(), ref_streq("t", v), promote=False)
        for w in v.split(" "):
            if not any(q["name"] == "has_word_" + w for q in Q):
                ids("has_word_" + w, w, ref_word(w), promote=False)
    rnd = random.Random(len(ds.all))
    for e in rnd.sample(ds.all, min(4, len(ds.all))):
        ids("has_c_" + e["c"], "c=%s" % e["c"], ref_streq("c", e["c"]), promote=False)
    if ds.mixed:
        strs = [e for e in ds.all if isinstance(e.get("mx"), str)]
        nums = [e for e in ds.all if isinstance(e.get("mx"), int)]
        if strs:
            ids("mx_eq_str", "mx=%s" % strs[0]["mx"], ref_streq("mx", strs[0]["mx"]), promote=False)
        if nums:
            ids("mx_eq_num", "mx=%d" % nums[-1]["mx"], None, promote=False)      # pairwise only
        ids("mx_any", "mx=*", None, promote=False)
    def lacks(col):
        return any(col not in e for e in ds.all)
    full_x = all("x" in e for e in ds.all)
    Q.append({"name": "stats_count", "text": "* | stats count", "kind": "stats", "ref": "count", "promote": False})
    Q.append({"name": "stats_by_g", "text": "* | stats count, sum(k), min(k), max(k), avg(k) by g", "kind": "stats", "ref": "by_g_k", "promote": False})
    Q.append({"name": "stats_x_by_g", "text": "* | stats count, sum(x), min(x), max(x), avg(x) by g", "kind": "stats",
              "ref": "by_g_x" if full_x else None, "promote": False,
              "key": "stats_x_by_g" if full_x else "stats_by_group_over_column_missing_in_some_events"})
    Q.append({"name": "stats_filtered", "text": "k>2 | stats count, sum(k) by g", "kind": "stats", "ref": "filtered", "promote": False})
    # pre-aggregated segment statistics used (match-all: canUseSSTForStats) vs not (a filter every event satisfies)
    aggs5 = lambda col: "stats count(%s), sum(%s), avg(%s), min(%s), max(%s)" % ((col,) * 5)
    for col in (["m"] if ds.has_m else []) + ["k"]:
        Q.append({"name": "stats_%s_preagg" % col, "text": "* | " + aggs5(col), "kind": "stats", "ref": "all_" + col, "promote": False})
        Q.append({"name": "stats_%s_raw" % col, "text": "k>=0 | " + aggs5(col), "kind": "stats", "ref": "all_" + col, "promote": False,
                  "same_as": "stats_%s_preagg" % col})
    Q.append({"name": "stats_by_t", "text": "* | stats count by t", "kind": "stats", "ref": None, "promote": False,
              "key": "stats_by_group_over_column_missing_in_some_events" if lacks("t") else "stats_by_t"})
    Q.append({"name": "stats_by_c_prefix", "text": "k>2 | stats count by g, k", "kind": "stats", "ref": None, "promote": False})
    if ds.mixed:
        Q.append({"name": "stats_by_mx", "text": "* | stats count by mx", "kind": "stats", "ref": None, "promote": False})
    Q.append({"name": "head_3", "text": "* | head 3", "kind": "order", "ref": "head3", "promote": False})
    Q.append({"name": "filter_head_2", "text": "g=a | head 2", "kind": "order", "ref": "g_head2", "promote": False})
    Q.append({"name": "sort_k", "text": "* | sort k", "kind": "sortx", "col": "k", "ref": None, "promote": False})
    Q.append({"name": "sort_desc_f", "text": "* | sort -f", "kind": "sortx", "col": "f", "ref": None, "promote": False})
    return Q


def stats_ref(ds, which):
    evs = ds.all
    if which == "count":
        return {"*": {"count(*)": len(evs)}}
    if which.startswith("all_"):
        col = which[4:]
        vals = [e[col] for e in evs]
        return {"*": {"count(%s)" % col: len(vals), "sum(%s)" % col: sum(vals), "avg(%s)" % col: sum(vals) / len(vals),
                      "min(%s)" % col: min(vals), "max(%s)" % col: max(vals)}}
    if which == "filtered":
        evs = [e for e in evs if e["k"] > 2]
    col = "x" if which == "by_g_x" else "k"
    out = {}
    for g in GROUPS:
        grp = [e for e in evs if e["g"] == g]
        if not grp:
            continue
        vals = [e[col] for e in grp]
        m = {"count(*)": len(grp), "sum(%s)" % col: sum(vals)}
        if which != "filtered":
            m.update({"min(%s)" % col: min(vals), "max(%s)" % col: max(vals), "avg(%s)" % col: sum(vals) / len(vals)})
        out[g] = m
    return out


def canon(q, resp, size_hint):
    """Canonical form of an answer (what has to be layout independent)."""
    if not isinstance(resp, dict):
        return ("bad", repr(resp)[:200])
    if "qerr" in resp:
        return ("error", resp["qerr"][:200])
    if resp.get("hang"):
        raise vlib.Infra("query did not finish within the driver's timeout (machine load?)")
    if q["kind"] == "stats":
        out = {}
        for m in resp.get("measure") or []:
            key = "|".join(str(v) for v in (m.get("GroupByValues") or []))
            vals = {}
            for k, v in (m.get("MeasureVal") or {}).items():
                vals[k] = round(v, 9) if isinstance(v, float) else v
            out[key] = vals
        return ("stats", out)
    recs = ((resp.get("hits") or {}).get("records")) or []
    ids = [r.get("id") for r in recs]
    if q["kind"] == "ids":
        return ("ids", sorted(ids, key=str), len(ids))
    if q["kind"] == "order":
        return ("order", ids)
    col = q["col"]
    return ("sortx", [r.get(col) for r in recs], sorted(ids, key=str))


def close_enough(a, b):
    if a == b:
        return True
    if isinstance(a, tuple) and isinstance(b, tuple) and a and b and a[0] == b[0] == "stats":
        if set(a[1]) != set(b[1]):
            return False
        for g in a[1]:
            if set(a[1][g]) != set(b[1][g]):
                return False
            for k in a[1][g]:
                x, y = a[1][g][k], b[1][g][k]
                if x == y:
                    continue
                if isinstance(x, (int, float)) and isinstance(y, (int, float)) and abs(x - y) <= 1e-9 * max(1.0, abs(x), abs(y)):
                    continue
                return False
        return True
    return False


def reference(ds, q):
    """-> canonical expected answer or None"""
    if q["kind"] == "ids":
        if q["ref"] is None:
            return None
        ids = sorted((e["id"] for e in ds.all if q["ref"](e)), key=str)
        return ("ids", ids, len(ids))
    if q["kind"] == "stats":
        if q["ref"] is None:
            return None
        return ("stats", stats_ref(ds, q["ref"]))
    if q["kind"] == "order":
        evs = sorted(ds.all, key=lambda e: -e["timestamp"])
        if q["ref"] == "head3":
            return ("order", [e["id"] for e in evs[:3]])
        return ("order", [e["id"] for e in evs if e["g"].lower() == "a"][:2])
    return None


# --------------------------------------------------------------------------- layouts

def canonical_history(classes):
    """L0: every event in one block of one open segment (ingests in id order, one flush)."""
    steps = []
    for aid in sorted(classes):
        steps.append({"act": {"a": "ingest", "s": "ix", "ids": [aid], "cls": classes[aid]}})
    steps.append({"act": {"a": "flush"}})
    return steps


def describe_layout(lay):
    acts = []
    for st in lay["steps"]:
        a = st["act"]
        acts.append("I%s" % "".join(str(i) for i in a["ids"]) if a["a"] == "ingest" else a["a"][0:2].upper())
    return "%s|pqs=%s%s|aggs=%s|procs=%s" % (" ".join(acts), int(lay["pqs"]), "+promote@%d" % lay["promote_after"]
                                            if lay.get("promote_after") is not None else "", int(lay["aggs"]), lay.get("procs") or "-")


def run_layout(binary, ds, fam, lay):
    """Build the layout, run the family.  -> dict(answers={name: canon}, died=(qname, msg) or None, info)"""
    env = {"SIGDRV_GOMAXPROCS": str(lay["procs"])} if lay.get("procs") else None
    ses = None
    answers, info = {}, {"pqmr_files": 0, "segments": 0, "blocks": 0}
    died = None
    total = len(ds.all)
    cur = "build"
    try:
        ses = c01.Session(binary, "c03", env=env, pqs=lay["pqs"], aggs=lay["aggs"])

        def promote():
            # a query becomes persistent by being used repeatedly; segments opened afterwards track it
            for _ in range(2):
                for q in fam:
                    if q["promote"]:
                        ses.query("ix", q["text"], size=total + 10)

        for n, st in enumerate(lay["steps"]):
            a = st["act"]
            if a["a"] == "ingest":
                lines = []
                for aid in a["ids"]:
                    lines += ds.lines(aid)
                acc, _, _ = ses.bulk("ix", lines)
                if not all(acc):
                    raise vlib.Infra("C03 dataset event rejected by bulk ingest")
            elif a["a"] == "flush":
                ses.dr.ok("flush", timeout=300)
            elif a["a"] == "rotate":
                ses.dr.ok("rotate", timeout=300)
            elif a["a"] == "restart":
                ses.restart()
            elif a["a"] == "promote":
                promote()
            if lay.get("promote_after") == n:
                promote()
        ls = ses.dr.ok("ls")
        info["pqmr_files"] = sum(1 for e in ls if e["path"].endswith(".pqmr"))
        info["segments"] = sum(1 for e in ls if e["path"].endswith(".bsu"))
        for q in fam:
            cur = q["name"]
            resp = ses.query("ix", q["text"], size=total + 10)
            answers[q["name"]] = canon(q, resp, total)
            if lay["pqs"] and q["promote"]:
                # second execution: now served through the persistent-query path where bitsets exist
                resp2 = ses.query("ix", q["text"], size=total + 10)
                a2 = canon(q, resp2, total)
                if a2 != answers[q["name"]]:
                    answers[q["name"] + "#repeat"] = a2
    except vlib.DriverDead as e:
        if e.kind == "hang" or c01.killed_from_outside(e):
            raise vlib.Infra("engine did not answer in time / was killed from outside (machine load?): %s" % e)
        died = (cur, str(e))
    finally:
        if ses is not None:
            ses.close()
    return {"answers": answers, "died": died, "info": info}


def pqs_steps(steps, promote_after):
    """The pqmr bitsets are written only by segments opened after the promotion and read only once such a segment
    is rotated: make sure a rotation follows the promotion and one closes the history (Rotate is always enabled in
    the spec, so the result is still a LogStore behaviour)."""
    if promote_after is None:
        return steps
    out = list(steps)
    later = [st["act"]["a"] for st in out[promote_after + 1:]]
    nxt_ing = later.index("ingest") if "ingest" in later else None
    if nxt_ing is not None and not any(a in ("rotate", "restart") for a in later[:nxt_ing]):
        out.insert(promote_after + 1, {"act": {"a": "rotate"}})
    if out[-1]["act"]["a"] != "rotate":
        out.append({"act": {"a": "rotate"}})
    return out


def final_complete(beh):
    """all events flushed at the end and at least one event"""
    obs = beh["steps"][-1]["obs"]["ix"]
    return not obs["may"] and len(obs["must"]) >= 2 and _nevents(beh) == len(obs["must"])


def _nevents(beh):
    return sum(len(s["act"]["ids"]) for s in beh["steps"] if s["act"]["a"] == "ingest")


def classes_of(beh):
    cl = {}
    for s in beh["steps"]:
        if s["act"]["a"] == "ingest":
            for i in s["act"]["ids"]:
                cl[i] = s["act"]["cls"]
    return cl


def layout_sig(beh):
    return json.dumps(beh["steps"][-1]["obs"]["ix"]["lay"], sort_keys=True)


def plan_cases(chk, behs_enum, behs_sim, quick):
    """-> list of cases {ds params, layouts[...]}"""
    rnd = random.Random(chk.seed)
    groups = {}
    for b in behs_enum:
        if final_complete(b):
            groups.setdefault(json.dumps(classes_of(b), sort_keys=True), []).append(b)
    cases = []
    keys = sorted(k for k, v in groups.items() if len({layout_sig(b) for b in v}) >= 3 and len(json.loads(k)) >= 3)
    rnd.shuffle(keys)
    n_enum = 8 if quick else 60
    n_sim = 4 if quick else 40
    variants = [dict(pqs=False, aggs=False, procs=None), dict(pqs=True, aggs=True, procs=None), dict(pqs=True, aggs=False, procs=1),
                dict(pqs=False, aggs=True, procs=2), dict(pqs=True, aggs=True, procs=16)]
    for ci, k in enumerate(keys[:n_enum]):
        hs = groups[k]
        seen, picks = set(), []
        for b in rnd.sample(hs, len(hs)):
            sg = layout_sig(b)
            if sg not in seen:
                seen.add(sg)
                picks.append(b)
            if len(picks) >= (4 if quick else 7):
                break
        mult = [1, 3, 200, 300][ci % 4] if quick else rnd.choice([1, 2, 3, 200, 300])
        mixed = ci % 4 == 1
        lays = [dict(steps=canonical_history(classes_of(picks[0])), name="L0", pqs=False, aggs=False, procs=None)]
        for i, b in enumerate(picks):
            v = dict(variants[(i + ci) % len(variants)])
            steps = [{"act": s["act"]} for s in b["steps"]]
            if v["pqs"]:
                firstflush = next((n for n, s in enumerate(b["steps"]) if s["obs"]["ix"]["must"]), None)
                v["promote_after"] = firstflush
                steps = pqs_steps(steps, firstflush)
            lays.append(dict(steps=steps, name="H%d" % i, spec_layout=b["steps"][-1]["obs"]["ix"]["lay"], **v))
        cases.append(dict(idx=len(cases), classes=classes_of(picks[0]), x=picks[0]["x"], t=picks[0]["t"], m=picks[0].get("m"), xs=picks[0].get("xs"), mult=mult, mixed=mixed,
                          layouts=lays, src="enum"))
    sims = [b for b in behs_sim if final_complete(b) and _nevents(b) >= 4]
    for ci, b in enumerate(vlib.sample(sims, n_sim, chk.seed)):
        cl = classes_of(b)
        lays = [dict(steps=canonical_history(cl), name="L0", pqs=False, aggs=False, procs=None)]
        for i, v in enumerate([variants[1], variants[(2 + ci) % 5]]):
            v = dict(v)
            steps = [{"act": s["act"]} for s in b["steps"]]
            if v["pqs"] and steps[-1]["act"]["a"] != "rotate":
                steps.append({"act": {"a": "rotate"}})
            lays.append(dict(steps=steps, name="S%d" % i, spec_layout=b["steps"][-1]["obs"]["ix"]["lay"], **v))
        cases.append(dict(idx=len(cases), classes=cl, x=b["x"], t=b["t"], m=b.get("m"), xs=b.get("xs"), mult=[150, 2, 1, 90][ci % 4], mixed=ci % 4 == 3, layouts=lays,
                          src="sim"))
    return cases


def run_case(binary, case):
    ds = Dataset({int(k): v for k, v in case["classes"].items()}, case["x"], case["t"], case["mult"], case["mixed"], case.get("m"), case.get("xs"))
    fam = build_family(ds)
    res = [run_layout(binary, ds, fam, lay) for lay in case["layouts"]]
    fails = []
    base = res[0]
    names = [q["name"] for q in fam]
    qby = {q["name"]: q for q in fam}
    for li, (lay, r) in enumerate(zip(case["layouts"], res)):
        if r["died"]:
            fails.append(("engine-died:" + r["died"][0].split("#")[0], "layout %s: engine process died during %r: %s" % (
                describe_layout(lay), r["died"][0], r["died"][1]), li))
    for name in names:
        q = qby[name]
        ref = reference(ds, q)
        for li, (lay, r) in enumerate(zip(case["layouts"], res)):
            for nm in (name, name + "#repeat"):
                if nm not in r["answers"]:
                    continue
                got = r["answers"][nm]
                if ref is not None and not close_enough(got, ref):
                    fails.append(("reference-mismatch:" + q.get("key", name), "query %r on layout [%s]%s: got %s, reference %s" % (
                        q["text"], describe_layout(lay), " (repeated execution)" if nm != name else "", short(got), short(ref)), li))
                elif li > 0 and name in base["answers"] and not close_enough(got, base["answers"][name]):
                    fails.append(("answer-differs:" + q.get("key", name), "query %r: layout [%s]%s answers %s, layout [%s] answers %s" % (
                        q["text"], describe_layout(lay), " (repeated execution)" if nm != name else "", short(got),
                        describe_layout(case["layouts"][0]), short(base["answers"][name])), li))
    # two spellings of the same aggregate on the same layout: answered from the segment statistics vs from the records
    for q in fam:
        other = q.get("same_as")
        if not other:
            continue
        for li, (lay, r) in enumerate(zip(case["layouts"], res)):
            a, b = r["answers"].get(q["name"]), r["answers"].get(other)
            if a is not None and b is not None and not close_enough(a, b):
                fails.append(("preagg-vs-raw:" + other, "layout [%s]: %r answers %s but %r answers %s" % (
                    describe_layout(lay), qby[other]["text"], short(b), q["text"], short(a)), li))
    return {"fails": fails, "nq": sum(len(r["answers"]) for r in res), "family": len(fam),
            "info": [r["info"] for r in res], "events": len(ds.all)}


def short(a):
    s = json.dumps(a, default=str)
    return s if len(s) < 400 else s[:400] + "..."


# --------------------------------------------------------------------------- fixed probes (minimal reproductions of known deviations)

def probe_ne_split(binary):
    """'!=' on a sparse column: one block vs the same three events split over two blocks."""
    evs = ['{"id":"e0","timestamp":%d,"k":"v"}' % T0, '{"id":"e1","timestamp":%d,"k":"v","s":400}' % (T0 + 1),
           '{"id":"e2","timestamp":%d,"k":"v","s":401}' % (T0 + 2)]
    out = []
    for parts in ([evs], [evs[:2], evs[2:]]):
        ses = c01.Session(binary, "c03p")
        try:
            for p in parts:
                ses.bulk("ix", p)
                ses.dr.ok("flush")
            r = ses.query("ix", "s!=400", size=10)
            out.append(sorted(x.get("id") for x in ((r.get("hits") or {}).get("records") or [])))
        finally:
            ses.close()
    if out[0] != out[1]:
        return [("answer-differs:num_ne_with_events_lacking_the_column", "s!=400 over {e0:{}, e1:{s:400}, e2:{s:401}}: one block -> %s, blocks {e0,e1},{e2} -> %s" % (out[0], out[1]))]
    return []


def probe_mixed_numeric(binary):
    """a number and a non-numeric string in one column: same block (consolidated to text) vs separate blocks."""
    evs = ['{"id":"a","timestamp":%d,"c":5}' % T0, '{"id":"b","timestamp":%d,"c":"abc"}' % (T0 + 1)]
    out = []
    for parts in ([evs], [evs[:1], evs[1:]]):
        ses = c01.Session(binary, "c03p")
        try:
            for p in parts:
                ses.bulk("ix", p)
                ses.dr.ok("flush")
            ans = {}
            for q in ("c=5", "c>4", "c!=5"):
                r = ses.query("ix", q, size=10)
                ans[q] = sorted(x.get("id") for x in ((r.get("hits") or {}).get("records") or []))
            out.append(ans)
        finally:
            ses.close()
    if out[0] != out[1]:
        return [("answer-differs:numeric_filter_on_mixed_type_column",
                 "events {c:5},{c:\"abc\"}: one block -> %s, two blocks -> %s" % (out[0], out[1]))]
    return []


def run(chk):
    quick = chk.tier == "quick"
    r = vlib.run_tlc("MC_LogStore", "MC_LogStore_q.cfg" if quick else "MC_LogStore_q_deep.cfg", workers=WORKERS, timeout=1500)
    vlib.tlc_must_hold(r, "LogStore layout/pruning model")
    chk.add_tlc("MC_LogStore_q" + ("" if quick else "_deep"), r,
                "LayoutIrrelevant PruneSound RoundTrip TypeOK + ASSUME PruneSoundAll; query classes, promotion, restart")
    sens = {}
    for cfg, inv in (("MC_LogStore_ne.cfg", "PruneSound"), ("MC_LogStore_ne_li.cfg", "LayoutIrrelevant"), ("MC_LogStore_nolower.cfg", "PruneSound")):
        rs = vlib.run_tlc("MC_LogStore", cfg, workers=2, timeout=600)
        if inv not in rs.violated:
            raise vlib.Infra("model sensitivity lost: %s no longer violates %s\n%s" % (cfg, inv, rs.out[-1500:]))
        sens[cfg] = "violates %s (expected)" % inv
    chk.cov["model_sensitivity"] = sens
    chk.cov["model_note"] = ("MC_LogStore_ne*.cfg use NeSkipsConstBlock=TRUE, the rule metacheckers.go implements; the model-level "
                             "counter-example (block {x=c, missing x}, query x!=c) was reproduced on the real engine: see docs/C03.md")

    enum, rg = vlib.tlc_generate("Gen_LogStore", "Gen_LogStore_q.cfg", timeout=900)
    chk.add_tlc("Gen_LogStore_q", rg, "layout histories (%d)" % len(enum))
    sim, rs_ = vlib.tlc_generate("Gen_LogStore", "Gen_LogStore_q_sim.cfg", timeout=900, simulate="num=%d" % (300 if quick else 3000),
                                 depth=12, seed=chk.seed)
    sim = vlib.dedup(sim)
    chk.add_tlc("Gen_LogStore_q_sim", rs_, "simulated bigger layout histories (%d)" % len(sim))
    if not enum:
        raise vlib.Infra("no layout histories generated")
    binary = vlib.build_driver()
    cases = plan_cases(chk, enum, sim, quick)
    if not cases:
        raise vlib.Infra("no dataset with several layouts found")
    results = vlib.pmap(lambda c: run_case(binary, c), cases, workers=WORKERS)
    n_lay, n_pq, total_q = 0, 0, 0
    reported = {}
    for c, res in zip(cases, results):
        total_q += res["nq"]
        for lay, info in zip(c["layouts"], res["info"]):
            n_lay += 1
            chk.replayed(1)
            if info["pqmr_files"]:
                n_pq += 1
            chk.count((c["src"], c["mult"], c["mixed"], describe_layout(lay)), nontrivial=lay["name"] != "L0", n=res["family"])
        seen = set()
        for key, detail, li in res["fails"]:
            if key in seen:
                continue
            seen.add(key)
            reported[key] = reported.get(key, 0) + 1
            if reported[key] > 1:
                continue
            chk.violation("C03:" + key, "[dataset %d: %d events, mult %d%s] %s" % (c["idx"], res["events"], c["mult"],
                                                                                 ", mixed column" if c["mixed"] else "", detail),
                          {"kind": "case", "case": c})
    for key, detail in probe_ne_split(binary):
        if "C03:" + key not in ["C03:" + k for k in reported]:
            chk.violation("C03:" + key, "[probe] " + detail, {"kind": "probe_ne_split"})
    chk.count(("probe", "ne_split"), nontrivial=True)
    for key, detail in probe_mixed_numeric(binary):
        chk.violation("C03:" + key, "[probe] " + detail, {"kind": "probe_mixed_numeric"})
    chk.count(("probe", "mixed_numeric"), nontrivial=True)
    chk.cov["violation_case_counts"] = reported
    chk.cov["layouts_built"] = n_lay
    chk.cov["layouts_with_pqmr_files"] = n_pq
    chk.cov["queries_run"] = total_q
    chk.cov["datasets"] = len(cases)
    c0 = cases[0]
    chk.sample({"kind": "dataset", "classes": c0["classes"], "mult": c0["mult"], "layouts": [describe_layout(l) for l in c0["layouts"]],
                "family_size": results[0]["family"]})
    chk.assumptions += [
        "timestamps are unique per dataset, so `head n` is deterministic (most recent first)",
        "reference semantics established empirically on the pinned engine: string '=' is case-insensitive whole-value, '!=' holds "
        "for events without the column, free text matches a space-separated word of any string column case-insensitively",
        "`sort` ties are compared as value sequences plus id multiset",
        "layouts differing only in configuration reuse the same TLC history; L0 (one block, open segment, no accelerators) is the "
        "comparison base, so pairwise equality is checked through L0",
    ]
    chk.describe(rule="case = one dataset (abstract events of a TLC history group x multiplicity) built in several layouts (TLC "
                      "histories x PQS/aggs/GOMAXPROCS variants); every query of the family is compared with L0 and with the "
                      "python reference. distinct_nontrivial = distinct (source, multiplicity, layout description) other than L0",
                 exhaustive=False)


def replay(chk, path):
    d = json.load(open(path))
    rp = d.get("replay") or {}
    print("key:", d.get("key"))
    print("what:", d.get("what"))
    binary = vlib.build_driver()
    if rp.get("kind") == "probe_ne_split":
        fails = [(k, det, 0) for k, det in probe_ne_split(binary)]
    elif rp.get("kind") == "probe_mixed_numeric":
        fails = [(k, det, 0) for k, det in probe_mixed_numeric(binary)]
    elif rp.get("kind") == "case":
        c = rp["case"]
        for lay in c["layouts"]:
            print("layout:", describe_layout(lay))
        fails = run_case(binary, c)["fails"]
    else:
        print(json.dumps(rp)[:4000])
        return 0
    for k, det, _ in fails:
        print("REPRODUCED C03:%s :: %s" % (k, det[:600]))
    if not fails:
        print("not reproduced")
    return 1 if fails else 0
