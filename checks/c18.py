"""C18 - damaged segment files are detected, never served as data.

Model: spec/Corruption.tla - the region map (file kind -> region classes), the fault classes
  (Flip / Trunc(start|inside)) and the outcome law; ReadChunk transcribes the case analysis of
  pkg/utils/checksumfile.go readChunkAt (incl. the legacy un-checksummed fallback).  TLC checks the
  law on the repaired reader (LegacyFallback=FALSE) and lists the faults for which the reader AS
  CODED (LegacyFallback=TRUE) can hand unverified bytes of a checksummed file to a decoder.
Binding (level fault_enumeration): a small data set (3 log segments incl. pqmr + sort index, zstd
  and dictionary column blocks; 2 metrics segments) is built with the real engine; every model
  fault class is mapped onto byte offsets of the victim segment's real files (region parser
  below); every truncation length and single-byte modification (sampled in the quick tier) is
  applied to a private copy, a FRESH engine process answers a query family and the answers are
  compared with the undamaged baseline.
"""
import glob
import hashlib
import json
import os
import random
import shutil
import struct
import subprocess
import time

import vlib

LEVEL = "fault_enumeration"
CLAIMED = True   # set by the lead after review; only claimed checks enter MANIFEST.json

MANIFEST = dict(
    category="fault_enumeration",
    technique="TLA+ region map + outcome law (TLC) guiding a byte-level fault sweep (every truncation length / single-byte modification of every file of one log and one metrics segment), each fault answered by a fresh engine process and compared with the undamaged baseline",
    text=("spec/Corruption.tla gives, per file kind (csg incl. timestamp column, cmi, bsu, sst, sfm, pqmr, sort index, rollups, "
          "segmeta line; metrics tso, tsg, tags tree, mnm, mbsu, metricmeta line), the region classes (per checksummed chunk: "
          "magic, crc, length, encoding byte, payload; bsu record fields; pqmr block fields; tso: version, count, per series tsid / "
          "offset lo / offset hi; tsg: version, per series tsid / length lo / length hi / payload; ...), the fault classes Flip and "
          "Trunc(start|inside) and the outcome law QueryOutcome in {Original, SegmentError}, other segments unaffected, process "
          "alive, checksummed regions never Altered; ReadChunk is a transcription of checksumfile.go readChunkAt. TLC proves the "
          "law for the reader without the legacy fallback and lists the faults where the reader as coded goes unverified. "
          "The byte-level sweep itself is plain enumeration guided by that region map: each model fault class is bound to byte "
          "ranges of the real files of a sigdrv-built data set; every truncation length and 3 values per offset (256 values at "
          "selected region boundaries) are applied to a copy and a fresh engine process answers match-all, two filters (one via "
          "pqmr), stats with/without group-by, sort, and two metric selectors under a watchdog."),
    note=("Level is fault_enumeration: the spec contributes the region map / coverage accounting and the outcome law, not the "
          "byte values. Quick tier samples offsets (all region starts + every k-th offset; header bytes of every chunk); thorough "
          "enumerates all. NOT covered: 'arbitrary byte strings fed to each on-disk decoder' (no decoder fuzzing), multi-byte "
          "damage, damage to unrotated (open) segments, agile-tree (.str) files (not produced with aggregations off). Flagged: "
          "(a) altered values served from a checksummed column block (.csg), (b) process exit / panic in the request goroutine, "
          "(c) hang confirmed on a serial re-run, (d) answers about OTHER segments changed (incl. their series coming back under "
          "another label set), (e) range-checkable damage of an un-checksummed metrics file (high-order bytes of a .tso offset / "
          ".tsg series length) answered with a silently missing series or altered values and an EMPTY error list. Rows/columns of "
          "the damaged block that are silently omitted, series missing after damage no range check can see (a changed tsid / tag "
          "value), and altered answers caused by un-checksummed files (pqmr, sst, bsu, sort index, metrics payloads) are counted "
          "in the evidence but are not violations (see docs/C18.md)."),
    design_ref="DESIGN.md 4/C18, docs/C18.md",
)

T0MS = 1_700_000_000_000
T0S = 1_700_000_000
QSTART, QEND = T0MS - 1000, T0MS + 10 ** 7
WORDPOOL = ["alpha", "beta", "gamma", "delta", "omega", "kappa", "sigma", "theta"]
AS_CEILING = 24 << 30
WORKERS = int(os.environ.get("VERIF_WORKERS", "0"))      # 0: min(NCPU, 8) quick / min(NCPU, 12) thorough


# --------------------------------------------------------------------------- data set

def make_docs(seed):
    rnd = random.Random(seed)
    words = rnd.sample(WORDPOOL, 3)
    nb = rnd.randrange(0, 40)
    docs = {"W": [], "A1": [], "A2": [], "B": []}

    def mk(seg, i, base):
        # timestamps are unique over the whole data set so that the default (time-descending) order is deterministic
        tsoff = {0: 0, 100: 700, 1000: 300, 5000: 500}[base]
        return {"timestamp": T0MS + tsoff + i * 1000, "seg": seg, "id": "%s-%04d" % (seg, base + i), "n": nb + base + i,
                "f": (base + i) * 0.5 + 0.25, "word": words[i % 3], "msg": "hello %s number %d %s" % (seg, i, words[(i * 7) % 3]),
                "flag": i % 2 == 0}
    docs["W"] = [mk("W", i, 5000) for i in range(3)]
    docs["A1"] = [mk("A", i, 0) for i in range(12)]
    docs["A2"] = [mk("A", i, 100) for i in range(8)]
    docs["B"] = [mk("B", i, 1000) for i in range(10)]
    return docs, words


def bulk_body(docs):
    out = []
    for d in docs:
        out.append(json.dumps({"index": {"_index": "logs"}}))
        out.append(json.dumps(d))
    return "\n".join(out) + "\n"


def metric_points(base, off, n):
    out = []
    for m in ("cpu", "mem"):
        for host in ("h1", "h2"):
            for i in range(n):
                out.append({"metric": m, "tags": {"host": host, "dc": "x"}, "timestamp": T0S + base + i * 10,
                            "value": off + i * 1.5 + (100 if host == "h2" else 0) + (1000 if m == "mem" else 0)})
    return out


def family(words):
    return [
        ("L-all", "query", dict(index="logs", text="*", start=QSTART, end=QEND, size=200, timeout_ms=20000)),
        ("L-filter-pqs", "query", dict(index="logs", text="word=%s" % words[0], start=QSTART, end=QEND, size=200, timeout_ms=20000)),
        ("L-filter-num", "query", dict(index="logs", text="n>5", start=QSTART, end=QEND, size=200, timeout_ms=20000)),
        ("L-stats", "query", dict(index="logs", text="* | stats count, sum(n), min(n), max(n)", start=QSTART, end=QEND, timeout_ms=20000)),
        ("L-stats-by", "query", dict(index="logs", text="* | stats count, sum(n), min(n), max(n) by seg", start=QSTART, end=QEND, timeout_ms=20000)),
        ("L-sort", "query", dict(index="logs", text="* | sort n | fields id, n, seg", start=QSTART, end=QEND, size=200, timeout_ms=20000)),
        ("M-cpu", "mquery", dict(promql="cpu", start=T0S - 10, end=T0S + 5000, step=1)),
        ("M-mem-h1", "mquery", dict(promql='mem{host="h1"}', start=T0S - 10, end=T0S + 5000, step=1)),
        ("M-mem", "mquery", dict(promql="mem", start=T0S - 10, end=T0S + 5000, step=1)),      # every series of the segment is selected by some query
    ]


def build_dataset(binary, root, seed):
    """-> (docs, words).  Data dir is RELATIVE ('data', cwd=root): segmeta.json records segment keys with the data
    path as configured, so a copy of root is self-contained."""
    os.makedirs(os.path.join(root, "data", "common"))
    with open(os.path.join(root, "data", "common", "sort_columns.json"), "w") as f:
        json.dump({"indexes": {"logs": ["n"]}}, f)
    docs, words = make_docs(seed)
    dr = vlib.Driver(binary, cwd=root)
    try:
        dr.ok("init", dir="data", pqs=True)
        dr.ok("c18_cardlimit", n=5)
        dr.ok("bulk", body=bulk_body(docs["W"]))
        dr.ok("flush")
        for _ in range(5):   # makes the filter a persistent query: the next segments get .pqmr files
            dr.ok("query", index="logs", text="word=%s" % words[0], start=QSTART, end=QEND, size=100)
        dr.ok("rotate")
        dr.ok("bulk", body=bulk_body(docs["A1"]))
        dr.ok("flush")
        dr.ok("bulk", body=bulk_body(docs["A2"]))
        dr.ok("flush")
        dr.ok("rotate")
        dr.ok("bulk", body=bulk_body(docs["B"]))
        dr.ok("flush")
        dr.ok("rotate")
        r = dr.ok("otsdb", body=json.dumps(metric_points(0, 1.0, 6) + metric_points(100, 51.0, 4)))
        if r["failed"]:
            raise vlib.Infra("metrics ingest failed: %s" % r)
        dr.ok("mrotate")
        t_end = time.time() + 15
        while time.time() < t_end:   # sort indexes are written by a goroutine after rotation
            if len(glob.glob(os.path.join(root, "data", "*", "final", "logs", "*", "*", "*", "n_*.srt"))) >= 9:
                break
            time.sleep(0.1)
        else:
            raise vlib.Infra("sort index files did not appear")
        time.sleep(0.3)
    finally:
        dr.quit()
    dr = vlib.Driver(binary, cwd=root)
    try:
        dr.ok("init", dir="data", pqs=True, wait_ms=300)
        r = dr.ok("otsdb", body=json.dumps(metric_points(1000, 500.0, 6) + metric_points(1100, 551.0, 4)))
        if r["failed"]:
            raise vlib.Infra("metrics ingest failed: %s" % r)
        dr.ok("mrotate")
        time.sleep(0.3)
    finally:
        dr.quit()
    for junk in glob.glob(os.path.join(root, "*.txt")):
        os.unlink(junk)
    return docs, words


def tree_hash(root):
    h = hashlib.sha1()
    for dp, dns, fns in sorted(os.walk(root)):
        dns.sort()
        for fn in sorted(fns):
            p = os.path.join(dp, fn)
            h.update(os.path.relpath(p, root).encode())
            h.update(open(p, "rb").read())
    return h.hexdigest()


# --------------------------------------------------------------------------- region parser (binds the model's region map)

def R(kind, chunk, region, lo, hi):
    return {"kind": kind, "chunk": chunk, "region": region, "lo": lo, "hi": hi}   # bytes [lo, hi)


def parse_csg(b):
    regs, off, k = [], 0, 0
    while off + 12 <= len(b):
        magic, crc, ln = struct.unpack_from("<III", b, off)
        if magic != 0x87654321 or off + 12 + ln > len(b) or ln < 1:
            raise vlib.Infra("csg parser: unexpected chunk header at %d" % off)
        c = "c0" if k == 0 else "cN"
        regs += [R("csg", c, "magic", off, off + 4), R("csg", c, "crc", off + 4, off + 8), R("csg", c, "len", off + 8, off + 12),
                 R("csg", c, "enc", off + 12, off + 13)]
        if ln > 1:
            regs.append(R("csg", c, "data", off + 13, off + 12 + ln))
        off += 12 + ln
        k += 1
    if off != len(b):
        raise vlib.Infra("csg parser: trailing bytes")
    return regs


def parse_bsu(b):
    regs, off = [], 0
    while off < len(b):
        f = [("len", 4), ("blknum", 2), ("hights", 8), ("lowts", 8), ("reccount", 2), ("numcols", 2)]
        for name, w in f:
            regs.append(R("bsu", "rec", name, off, off + w))
            off += w
        ncols = struct.unpack_from("<H", b, off - 2)[0]
        for _ in range(ncols):
            cl = struct.unpack_from("<H", b, off)[0]
            regs.append(R("bsu", "rec", "cnamelen", off, off + 2))
            regs.append(R("bsu", "rec", "cname", off + 2, off + 2 + cl))
            regs.append(R("bsu", "rec", "coloff", off + 2 + cl, off + 10 + cl))
            regs.append(R("bsu", "rec", "collen", off + 10 + cl, off + 14 + cl))
            off += 14 + cl
    if off != len(b):
        raise vlib.Infra("bsu parser: trailing bytes")
    return regs


def parse_pqmr(b):
    regs, off = [], 0
    while off < len(b):
        sz = struct.unpack_from("<H", b, off + 2)[0]
        regs += [R("pqmr", "blk", "blknum", off, off + 2), R("pqmr", "blk", "size", off + 2, off + 4),
                 R("pqmr", "blk", "bitlen", off + 4, off + 12)]
        if sz > 8:
            regs.append(R("pqmr", "blk", "words", off + 12, off + 4 + sz))
        off += 4 + sz
    if off != len(b):
        raise vlib.Infra("pqmr parser: trailing bytes")
    return regs


def parse_srt(b):
    # version(1) | number of unique values(8) | offset table(8 each) | one line per value
    n = struct.unpack_from("<Q", b, 1)[0]
    tbl_end = 9 + 8 * n
    if tbl_end > len(b):
        raise vlib.Infra("srt parser: offset table beyond the file")
    return [R("srt", "f", "version", 0, 1), R("srt", "f", "count", 1, 9), R("srt", "f", "offsets", 9, tbl_end),
            R("srt", "f", "lines", tbl_end, len(b))]


def _lohi(kind, chunk, name, lo, width):
    return [R(kind, chunk, name + ".lo", lo, lo + 2), R(kind, chunk, name + ".hi", lo + 2, lo + width)]


def parse_tso(b):
    # version(1) | number of series(8, version 2) | per series: tsid(8) offset into the .tsg(4)
    if len(b) < 9 or b[0] != 2:
        raise vlib.Infra("tso parser: unexpected version %r" % b[:1])
    n = struct.unpack_from("<Q", b, 1)[0]
    if 9 + 12 * n != len(b):
        raise vlib.Infra("tso parser: %d entries do not fill %d bytes" % (n, len(b)))
    regs = [R("tso", "f", "version", 0, 1)] + _lohi("tso", "f", "count", 1, 8)
    for i in range(n):
        o = 9 + 12 * i
        regs.append(R("tso", "rec", "tsid", o, o + 8))
        regs += _lohi("tso", "rec", "off", o + 8, 4)
    return regs


def parse_tsg(b, tso):
    # version(1) | per series: tsid(8) length(4) payload(length).  The .tso offset of a series is (start of its tsid) - 1: the reader
    # adds 9 = "1 byte for version + 8 bytes tsid" to reach the length field
    n = struct.unpack_from("<Q", tso, 1)[0]
    offs = sorted(struct.unpack_from("<I", tso, 9 + 12 * i + 8)[0] for i in range(n))
    regs, pos = [R("tsg", "f", "version", 0, 1)], 1
    for o in offs:
        if o + 1 != pos:
            raise vlib.Infra("tsg parser: series at %d, expected %d" % (o + 1, pos))
        ln = struct.unpack_from("<I", b, pos + 8)[0]
        regs += [R("tsg", "ser", "tsid", pos, pos + 8)] + _lohi("tsg", "ser", "len", pos + 8, 4)
        regs.append(R("tsg", "ser", "payload", pos + 12, pos + 12 + ln))
        pos += 12 + ln
    if pos != len(b):
        raise vlib.Infra("tsg parser: trailing bytes")
    return regs


def parse_sst(b):
    regs, off = [R("sst", "f", "version", 0, 1)], 1
    if b[0] != 1 and len(b) > 1:
        pass
    while off < len(b):
        cl = struct.unpack_from("<H", b, off)[0]
        regs += [R("sst", "col", "cnamelen", off, off + 2), R("sst", "col", "cname", off + 2, off + 2 + cl),
                 R("sst", "col", "sstlen", off + 2 + cl, off + 6 + cl)]
        ln = struct.unpack_from("<I", b, off + 2 + cl)[0]
        r0 = off + 6 + cl
        end = r0 + ln
        if end > len(b) or ln < 14:
            raise vlib.Infra("sst parser: record of %d bytes at %d does not fit" % (ln, r0))
        isnum = b[r0 + 1]
        hs = struct.unpack_from("<I", b, r0 + 10)[0]
        regs += [R("sst", "col", "rver", r0, r0 + 1), R("sst", "col", "isnum", r0 + 1, r0 + 2), R("sst", "col", "count", r0 + 2, r0 + 10),
                 R("sst", "col", "hllsize", r0 + 10, r0 + 14)]
        p = r0 + 14
        if hs:
            regs.append(R("sst", "col", "hll", p, p + hs))
        p += hs
        if isnum and end - p == 35:
            for _ in range(3):
                regs += [R("sst", "col", "dtype", p, p + 1), R("sst", "col", "num", p + 1, p + 9)]
                p += 9
            regs.append(R("sst", "col", "num", p, p + 8))
        elif end > p:
            regs += [R("sst", "col", "dtype", p, p + 1)] + ([R("sst", "col", "strstats", p + 1, end)] if end > p + 1 else [])
        off = end
    return regs


def parse_generic(kind, b):
    n = len(b)
    cuts = [(0, 1, "b0"), (1, min(16, n), "head"), (min(16, n), max(min(16, n), n - 8), "body"), (max(min(16, n), n - 8), n, "tail")]
    return [R(kind, "f", name, lo, hi) for lo, hi, name in cuts if hi > lo]


def region_map(path, kind, line_range=None):
    b = open(path, "rb").read()
    if kind == "csg":
        return parse_csg(b)
    if kind == "bsu":
        return parse_bsu(b)
    if kind == "pqmr":
        return parse_pqmr(b)
    if kind == "srt":
        return parse_srt(b)
    if kind == "sst":
        return parse_sst(b)
    if kind == "tso":
        return parse_tso(b)
    if kind == "tsg":
        return parse_tsg(b, open(path[:-4] + ".tso", "rb").read())
    if kind == "sfm":
        return [R("sfm", "f", "json", 0, len(b))]
    if kind in ("segmeta", "mmeta"):
        return [R(kind, "line", "json", line_range[0], line_range[1])]
    return parse_generic(kind, b)


def victim_files(root, docs):
    """-> list of {path (relative to root), kind, regions, size, label}"""
    data = os.path.join(root, "data")
    smeta = glob.glob(os.path.join(data, "ingestnodes", "*", "segmeta.json"))[0]
    victim_key, off, vline = None, 0, None
    others = []
    for line in open(smeta, "rb").read().splitlines(keepends=True):
        d = json.loads(line)
        if d["recordCount"] == len(docs["A1"]) + len(docs["A2"]):
            victim_key, vline = d["segmentKey"], (off, off + len(line.rstrip(b"\n")))
        else:
            others.append(d["segmentKey"])
        off += len(line)
    if victim_key is None or len(others) != 2:
        raise vlib.Infra("cannot identify the victim log segment in segmeta.json")
    segdir = os.path.dirname(os.path.join(root, victim_key))
    files = []
    for dp, _, fns in os.walk(segdir):
        for fn in sorted(fns):
            p = os.path.join(dp, fn)
            ext = fn.rsplit(".", 1)[-1] if "." in fn else ""
            kind = {"csg": "csg", "cmi": "cmi", "bsu": "bsu", "sst": "sst", "sfm": "sfm", "pqmr": "pqmr", "srt": "srt",
                    "crup": "crup"}.get(ext)
            if kind is None:
                raise vlib.Infra("unknown file in log segment: %s" % p)
            files.append({"path": os.path.relpath(p, root), "kind": kind})
    files.append({"path": os.path.relpath(smeta, root), "kind": "segmeta", "line": vline})
    # metrics: victim = metrics segment 0 (time range T0S .. T0S+130)
    mm = glob.glob(os.path.join(data, "ingestnodes", "*", "metricmeta.json"))[0]
    off, mline, mkey = 0, None, None
    for line in open(mm, "rb").read().splitlines(keepends=True):
        d = json.loads(line)
        if d.get("latestEpochSec", 0) < T0S + 900:
            mline, mkey, tthdir = (off, off + len(line.rstrip(b"\n"))), d["mSegmentDir"], d["TTreeDir"]
        off += len(line)
    if mkey is None:
        raise vlib.Infra("cannot identify the victim metrics segment in metricmeta.json")
    mdir = os.path.dirname(os.path.join(root, mkey))
    for fn in sorted(os.listdir(mdir)):
        p = os.path.join(mdir, fn)
        if os.path.isdir(p) or os.path.getsize(p) == 0:
            continue
        ext = fn.rsplit(".", 1)[-1]
        kind = {"tso": "tso", "tsg": "tsg", "mnm": "mnm", "mbsu": "mbsu"}.get(ext)
        if kind is None:
            raise vlib.Infra("unknown file in metrics segment: %s" % p)
        files.append({"path": os.path.relpath(p, root), "kind": kind})
    tth = os.path.join(root, tthdir)
    for fn in sorted(os.listdir(tth)):
        files.append({"path": os.path.relpath(os.path.join(tth, fn), root), "kind": "tth"})
    files.append({"path": os.path.relpath(mm, root), "kind": "mmeta", "line": mline})
    for f in files:
        full = os.path.join(root, f["path"])
        f["size"] = os.path.getsize(full)
        f["regions"] = region_map(full, f["kind"], f.get("line"))
        f["bytes"] = open(full, "rb").read()
        if f["kind"] not in ("segmeta", "mmeta"):
            cov = sorted((r["lo"], r["hi"]) for r in f["regions"])
            pos = 0
            for lo, hi in cov:
                if lo != pos:
                    raise vlib.Infra("region map of %s does not tile the file at %d" % (f["path"], pos))
                pos = hi
            if pos != f["size"]:
                raise vlib.Infra("region map of %s does not cover the file" % f["path"])
    return files


def region_at(f, off):
    for r in f["regions"]:
        if r["lo"] <= off < r["hi"]:
            return r
    return None


# --------------------------------------------------------------------------- fault enumeration

def enumerate_faults(files, tier, seed):
    """-> list of cases {file idx, fault 'flip'|'trunc', off, val, cls=(kind,chunk,region,fault,tc)}"""
    rnd = random.Random(seed * 1000003 + 18)
    quick = tier == "quick"
    cases = []

    def cls_of(f, r, fault, off):
        tc = "-" if fault == "flip" else ("start" if off == r["lo"] else "inside")
        return (f["kind"], r["chunk"], r["region"], fault, tc)

    full256 = set()     # (file idx, off) that get all 256 values
    seen_kind0 = set()
    csg_picks = {}
    for fi, f in enumerate(files):
        if f["kind"] == "csg":
            enc = f["bytes"][12]
            csg_picks.setdefault(enc, fi)      # one file per block encoding (0 zstd, 1 dict, 2 timestamps)
    for enc, fi in csg_picks.items():
        if quick:
            continue
        for o in ([0, 1, 2, 3, 12] if enc == 2 else [0]):      # timestamp csg: every magic byte + the encoding byte; others: first byte
            full256.add((fi, o))
    if not quick:
        for fi, f in enumerate(files):
            if f["kind"] in ("bsu", "sst", "pqmr", "tso", "tsg") and f["kind"] not in seen_kind0:
                seen_kind0.add(f["kind"])
                full256.add((fi, 0))

    # replay candidates of the model: ChecksummedNeverAltered fails in the as-coded model exactly for (csg, c0, magic, flip) - the
    # legacy read hands the raw file to the block decoder, which dispatches on its first byte.  Concretisation: the first byte of
    # every csg file := each block-encoding tag (0 zstd, 1 dictionary, 2 timestamps); repeated, because what an unverified decode
    # returns can depend on pooled buffers
    # The same values are tried on the first magic byte of every LATER chunk (the model says Error there, because the file's
    # first word still carries the magic).
    for fi, f in enumerate(files):
        if f["kind"] == "csg":
            for r in f["regions"]:
                if r["region"] != "magic":
                    continue
                for tag in (0, 1, 2):
                    for rep in range((3 if quick else 6) if r["chunk"] == "c0" else (2 if quick else 3)):
                        cases.append({"fi": fi, "fault": "flip", "off": r["lo"], "val": tag, "cls": cls_of(f, r, "flip", r["lo"]),
                                      "candidate_replay": rep})
    for fi, f in enumerate(files):
        shared = f["kind"] in ("segmeta", "mmeta")
        lo, hi = (f["line"] if shared else (0, f["size"]))
        starts = set(r["lo"] for r in f["regions"])                  # first byte of every region ...
        if f["kind"] in ("csg", "pqmr", "tso", "tsg", "mbsu", "mnm") or not quick:
            starts |= set(r["hi"] - 1 for r in f["regions"])         # ... and its last byte (quick: checksummed / small files only)
        # identical copies (sort index per sort mode, rollups per interval): quick samples the first file of the kind, boundaries of the rest
        sparse = quick and f["kind"] in ("srt", "crup") and any(g["kind"] == f["kind"] for g in files[:fi])
        hdr = set()
        strict = set()      # bytes of range-checkable fields (spec: RangeChecked): every byte, all three values, in both tiers
        if f["kind"] == "csg":
            for r in f["regions"]:
                if r["region"] in ("magic", "crc", "len", "enc"):
                    hdr.update(range(r["lo"], r["hi"]))
        for r in f["regions"]:
            if r["region"] in ("off.hi", "len.hi"):
                strict.update(range(r["lo"], r["hi"]))
            if f["kind"] == "sst" and r["region"] in ("dtype", "isnum", "rver"):     # one-byte tags the decoders dispatch on
                strict.update(range(r["lo"], r["hi"]))
        # truncations: new length L (the first removed byte is L)
        if not shared:
            # checksummed files are sampled densely; sort index / rollup files (never consumed by the query family) sparsely
            k = (3 if f["kind"] == "csg" else 13) if quick else (4 if f["kind"] in ("srt", "crup") else 1)
            ph = rnd.randrange(k)
            for L in range(0, f["size"]):
                if L in starts or (L % k == ph and not sparse):
                    r = region_at(f, L)
                    cases.append({"fi": fi, "fault": "trunc", "off": L, "val": None, "cls": cls_of(f, r, "trunc", L)})
        # single-byte modifications
        k = (6 if f["kind"] == "csg" else 11) if quick else (4 if f["kind"] in ("srt", "crup") else 1)
        ph = rnd.randrange(k)
        for o in range(lo, hi):
            old = f["bytes"][o]
            r = region_at(f, o)
            if (fi, o) in full256:
                vals = [v for v in range(256) if v != old]
            else:
                three = [old ^ 0x01, old ^ 0x80, rnd.choice([v for v in range(256) if v not in (old, old ^ 1, old ^ 0x80)])]
                if not quick:
                    if f["kind"] in ("srt", "crup"):
                        vals = [three[0]] if o % k == ph else []
                    elif f["kind"] in ("csg", "tso", "tsg", "tth", "mnm", "mbsu", "pqmr"):
                        vals = three
                    else:
                        vals = [three[0], three[2]]
                elif o in strict:
                    vals = three
                elif o in hdr or o in starts:
                    vals = [rnd.choice(three)]
                elif o % k == ph and not sparse:
                    vals = [rnd.choice(three)]
                else:
                    vals = []
            for v in vals:
                cases.append({"fi": fi, "fault": "flip", "off": o, "val": v, "cls": cls_of(f, r, "flip", o)})
    return cases


# --------------------------------------------------------------------------- running one fault

def copy_with_fault(master, dst, f, case):
    # cp / rm as subprocesses: the sweep runs in python threads and shutil would serialise on the GIL
    if subprocess.run(["cp", "-a", os.path.join(master, "data"), os.path.join(dst, "data")]).returncode != 0:
        raise vlib.Infra("cp of the master data set failed")
    if case is None:
        return
    p = os.path.join(dst, f["path"])
    if case["fault"] == "trunc":
        os.truncate(p, case["off"])
    else:
        b = bytearray(f["bytes"])
        b[case["off"]] = case["val"]
        with open(p, "wb") as fh:
            fh.write(bytes(b))


def run_family(binary, d, fam, ceiling=True, tmo=40):
    """-> {'answers': [...], 'status': 'ok'|'crash'|'hang'|'initerr', 'detail': str, 'errlog': [...]}"""
    wrapper = ["prlimit", "--as=%d" % AS_CEILING] if ceiling and shutil.which("prlimit") else None
    errp = os.path.join(d, "stderr.txt")
    dr = vlib.Driver(binary, cwd=d, wrapper=wrapper, stderr_path=errp)
    out = {"answers": [], "status": "ok", "detail": "", "errlog": []}
    try:
        o = dr.cmd("init", timeout=tmo, dir="data", pqs=True, logfile="log.txt")
        if not o.get("ok"):
            if "PANIC" in (o.get("err") or ""):
                out["status"], out["detail"] = "crash", "panic during start-up: " + o["err"][:600]
            else:
                out["status"], out["detail"] = "initerr", (o.get("err") or "")[:400]
            return out
        for name, op, args in fam:
            a = dict(args)
            if "timeout_ms" in a:
                a["timeout_ms"] = int(tmo * 500)
            o = dr.cmd(op, timeout=tmo, **a)
            if not o.get("ok"):
                err = o.get("err") or ""
                if "PANIC" in err:
                    out["status"], out["detail"] = "crash", "%s: panic in the request goroutine: %s" % (name, err[:5000])
                    return out
                out["answers"].append({"qerr": err[:300]})
                continue
            res = o.get("res")
            if isinstance(res, dict) and res.get("hang"):
                out["status"], out["detail"] = "hang", "%s did not finish within %d ms (process alive)" % (name, a.get("timeout_ms", 0))
                return out
            if isinstance(res, dict) and str(res.get("qerr", "")).startswith("PANIC"):
                out["status"], out["detail"] = "crash", "%s: panic in the query goroutine: %s" % (name, res["qerr"][:700])
                return out
            out["answers"].append(res)
        # concurrent round: the log searches again, all at once and twice - readers of the damaged and of the healthy segments
        # are active in the process at the same time (state shared between readers must not carry damage across segments)
        logq = [(i, a) for i, (name, op, a) in enumerate(fam) if op == "query"]
        o = dr.cmd("c18_parallel", timeout=tmo + 20, rounds=2, timeout_ms=int(tmo * 500),
                   queries=[{k: v for k, v in a.items() if k != "timeout_ms"} for _, a in logq])
        if not o.get("ok"):
            err = o.get("err") or ""
            if "PANIC" in err:
                out["status"], out["detail"] = "crash", "concurrent round: panic: %s" % err[:5000]
            return out
        res = o.get("res")
        if isinstance(res, dict) and res.get("hang"):
            out["status"], out["detail"] = "hang", "concurrent round did not finish (process alive)"
            return out
        out["par"] = []
        for a in res or []:
            if str(a.get("qerr", "")).startswith("PANIC"):
                out["status"], out["detail"] = "crash", "concurrent round: panic in the query goroutine: %s" % a["qerr"][:700]
                return out
            out["par"].append((logq[a["q"]][0], {"qerr": a["qerr"][:300]} if a.get("qerr") else a.get("res")))
        return out
    except vlib.DriverDead as e:
        tail = ""
        try:
            tail = open(errp, "rb").read()[-60000:].decode("utf8", "replace")
            tail = panic_part(tail)[:6000]
        except OSError:
            pass
        out["status"] = "hang" if e.kind == "hang" else "crash"
        out["detail"] = "%s | stderr: %s" % (e, tail[:5000])
        if "out of memory" in tail or "cannot allocate memory" in tail:
            out["oom"] = True
        return out
    finally:
        dr.quit()
        try:
            lines = [l for l in open(os.path.join(d, "log.txt"), errors="replace").read().splitlines() if "level=error" in l]
            out["errlog"] = lines[-50:]
        except OSError:
            pass


# --------------------------------------------------------------------------- oracle

def num_eq(a, b):
    if isinstance(a, bool) or isinstance(b, bool):
        return a is b
    if isinstance(a, (int, float)) and isinstance(b, (int, float)):
        return float(a) == float(b)
    return a == b


class Oracle:
    def __init__(self, docs, baseline, fam):
        self.universe = docs["W"] + docs["A1"] + docs["A2"] + docs["B"]
        self.by_id = {d["id"]: d for d in self.universe}
        self.base = baseline
        self.fam = fam
        self.An = [d["n"] for d in docs["A1"] + docs["A2"]]
        self.On = [d["n"] for d in docs["W"] + docs["B"]]
        sums = {0}
        for v in self.An:
            sums |= {s + v for s in sums}
        self.Asums = sums

    def explain(self, rec):
        rid = rec.get("id")
        if rid is not None and rid not in self.by_id:
            return None
        cands = [self.by_id[rid]] if rid is not None else self.universe
        for b in cands:
            if all((k in b and num_eq(b[k], v)) for k, v in rec.items() if v is not None):
                return b
        return None

    def records(self, ans, base):
        """-> (class, detail).  class in Original / Omitted / Error / Altered / OtherChanged / MatchSetChanged"""
        if "qerr" in ans:
            return "Error", ans["qerr"][:200]
        try:
            recs = ans["hits"]["records"] or []
            brecs = base["hits"]["records"] or []
        except (KeyError, TypeError):
            return "Altered", "unexpected response shape: %s" % json.dumps(ans)[:200]
        if recs == brecs:
            return "Original", ""
        worst, det = "Omitted", ""
        for r in recs:
            b = self.explain(r)
            if b is None:
                return "Altered", "record not ingested by anybody: %s" % json.dumps(r, sort_keys=True)[:300]
        # other segments: every baseline record of W/B present in full, same relative order, nothing extra from W/B
        want = [r for r in brecs if r.get("seg") in ("W", "B")]
        got = [r for r in recs if r.get("seg") in ("W", "B")]
        if want != got:
            return "OtherChanged", "records of the undamaged segments changed: want %d got %d; first diff %s" % (
                len(want), len(got), json.dumps(next((g for g in got if g not in want), next((w for w in want if w not in got), None)),
                                                sort_keys=True)[:300])
        # full records of A that the baseline did not return (e.g. a damaged pqmr adds non-matching rows): genuine values
        bid = set(r.get("id") for r in brecs)
        if any(r.get("id") is not None and r.get("id") not in bid for r in recs):
            worst, det = "MatchSetChanged", "genuine records outside the baseline answer were returned"
        return worst, det

    def _stat_rows(self, ans):
        rows = {}
        for m in ans.get("measure") or []:
            rows[tuple(str(x) for x in (m.get("GroupByValues") or []))] = m.get("MeasureVal") or {}
        return rows

    def _a_part_ok(self, c, s, mn, mx):
        if c is not None and not (0 <= c <= len(self.An)):
            return False
        if s is not None and (float(s) != int(float(s)) or int(float(s)) not in self.Asums):
            return False
        for v in (mn, mx):
            if v is not None and not any(num_eq(v, a) for a in self.An):
                return False
        return True

    @staticmethod
    def _num(v):
        if v is None or isinstance(v, (int, float)):
            return v
        try:
            return float(v)
        except (TypeError, ValueError):
            return v

    def stats(self, ans, base, by):
        if "qerr" in ans:
            return "Error", ans["qerr"][:200]
        rows, brows = self._stat_rows(ans), self._stat_rows(base)
        if rows == brows:
            return "Original", ""
        g = lambda mv, k: self._num(mv.get(k))
        if by:
            for key, mv in brows.items():
                if key in (("W",), ("B",)) and rows.get(key) != mv:
                    return "OtherChanged", "group %s of an undamaged segment: want %s got %s" % (key, mv, rows.get(key))
            for key, mv in rows.items():
                if key in (("W",), ("B",)):
                    continue
                if not self._a_part_ok(g(mv, "count(*)"), g(mv, "sum(n)"), g(mv, "min(n)"), g(mv, "max(n)")):
                    return "Altered", "group %s: %s is not an aggregate of ingested values of the damaged segment" % (key, mv)
                if key != ("A",) and key and key[0] not in ("", "None", "null", "<nil>", "*"):
                    return "Altered", "group key %s was never ingested" % (key,)
            return "Omitted", ""
        mv = rows.get(("*",)) or (list(rows.values())[0] if len(rows) == 1 else None)
        if mv is None:
            return "Omitted", "no result row"
        c, s, mn, mx = g(mv, "count(*)"), g(mv, "sum(n)"), g(mv, "min(n)"), g(mv, "max(n)")
        try:
            ok = self._a_part_ok(None if c is None else c - len(self.On), None if s is None else s - sum(self.On), None, None)
            ok = ok and (mn is None or num_eq(mn, min(self.On)) or (mn < min(self.On) and any(num_eq(mn, a) for a in self.An)))
            ok = ok and (mx is None or num_eq(mx, max(self.On)) or (mx > max(self.On) and any(num_eq(mx, a) for a in self.An)))
        except TypeError:
            ok = False
        if not ok:
            return "Altered", "totals %s are not (undamaged segments) + (an aggregate of ingested values of the damaged one)" % mv
        return "Omitted", ""

    def metrics(self, ans, base):
        if "qerr" in ans:
            return "Error", ans["qerr"][:200]
        s, bs = ans.get("series") or {}, base.get("series") or {}
        if s == bs and not ans.get("errs"):
            return "Original", ""
        # datapoints of the damaged segment absent: with an error list -> Error; with an EMPTY error list -> Missing (the client cannot
        # tell the answer is incomplete)
        cls, det = ("Error", str(ans.get("errs"))[:200]) if ans.get("errs") else ("Missing", "datapoints absent, error list empty")
        # a point (series, ts, bits) is genuine iff it was ingested; altered timestamps of the damaged segment can land anywhere,
        # so "other segment affected" is claimed only when an undamaged-segment point is missing/different in a series that
        # shows no invented point at all
        others_bad, invented = None, None
        for gid, pts in s.items():
            if gid not in bs:
                invented = invented or "series %s was never ingested" % gid
                continue
            bmap = {p[0]: p[1] for p in bs[gid]}
            for p in pts:
                if bmap.get(p[0]) != p[1] and p[0] < T0S + 900:
                    invented = invented or "series %s ts=%s value bits %s, ingested %s" % (gid, p[0], p[1], bmap.get(p[0]))
        if not ans.get("errs"):
            for gid, pts in bs.items():
                gmap = {p[0]: p[1] for p in s.get(gid, [])}
                bmap = {p[0]: p[1] for p in pts}
                extra = [t for t in gmap if t not in bmap]
                for p in pts:
                    if p[0] >= T0S + 900 and gmap.get(p[0]) != p[1]:
                        if extra:
                            invented = invented or "series %s ts=%s value bits %s, ingested %s (series also has invented points)" % (gid, p[0], gmap.get(p[0]), p[1])
                        else:
                            # (this includes the series of BOTH segments coming back under the label set read from a damaged tags-tree
                            # file of the victim - re-labelled or merged with another series: the other segment's datapoints are no longer
                            # returned as what they were ingested as)
                            others_bad = others_bad or "series %s: datapoint ts=%s of the undamaged metrics segment: want %s got %s" % (gid, p[0], p[1], gmap.get(p[0]))
                if extra:
                    invented = invented or "series %s has datapoints at never-ingested timestamps %s" % (gid, sorted(extra)[:4])
        if others_bad:
            return "OtherChanged", others_bad
        if invented:
            return "Altered", invented
        return cls, det

    def judge(self, run):
        """-> (class, detail, per-query classes)"""
        order = ["Original", "Omitted", "Error", "Missing", "MatchSetChanged", "Altered", "OtherChanged"]
        worst, wdet, per = "Original", "", []
        seq = list(zip(self.fam, run["answers"], self.base))
        for qi, ans in run.get("par") or []:
            (name, op, args) = self.fam[qi]
            seq.append(((name + "/concurrent", op, args), ans, self.base[qi]))
        for (name, op, args), ans, base in seq:
            if op == "mquery":
                c, d = self.metrics(ans, base)
            elif "stats" in args["text"]:
                c, d = self.stats(ans, base, " by " in args["text"])
            else:
                c, d = self.records(ans, base)
            per.append(c)
            if order.index(c) > order.index(worst):
                worst, wdet = c, "%s: %s" % (name, d)
        return worst, wdet, per


VOLATILE = ("elapedTimeMS", "allColumns", "measureFunctions", "columnsOrder")


def norm_answers(answers, par=None):
    for x in list(answers) + [a for _, a in (par or [])]:
        if isinstance(x, dict):
            for k in VOLATILE:
                x.pop(k, None)
            if isinstance(x.get("measure"), list):     # bucket order is a map iteration order
                x["measure"] = sorted(x["measure"], key=lambda m: json.dumps(m.get("GroupByValues"), sort_keys=True, default=str))
    return answers


def panic_part(text):
    i = max(text.rfind("panic: "), text.rfind("PANIC"), text.rfind("fatal error: "))
    return text[i:] if i >= 0 else text


def crash_frames(text, n=4):
    """siglens frames of a Go panic / fatal error trace, innermost first, helper package pkg/utils skipped"""
    import re
    out = []
    for m in re.finditer(r"github\.com/siglens/siglens/pkg/((?:[\w.-]+/)*)([\w-]+)\.((?:\([^)]*\)\.)?[\w]+)(?:\[\.\.\.\])?\(", panic_part(text)):
        fr = "%s.%s" % (m.group(2), m.group(3).replace("(", "").replace(")", "").replace("*", ""))
        if m.group(2) != "utils" and fr not in out:
            out.append(fr)
        if len(out) >= n:
            break
    return out


def crash_site(text):
    """first siglens frame (outside pkg/utils) of the panicking goroutine -> 'pkg.Func' (or a short tag)"""
    import re
    if "out of memory" in text or "cannot allocate memory" in text:
        return "out-of-memory"
    fr = crash_frames(text, 1)
    if fr:
        return fr[0]
    m = re.search(r"(PANIC[^:]*: [^\n]{0,60}|panic: [^\n]{0,80}|fatal error: [^\n]{0,80})", text)
    return m.group(1).replace(" ", "_") if m else "exit"


def crash_summary(text):
    import re
    m = re.search(r"(PANIC[^:]*: [^\n]{0,160}|panic: [^\n]{0,160}|fatal error: [^\n]{0,160})", panic_part(text))
    return "%s; frames: %s" % (m.group(1) if m else "process exit", " <- ".join(crash_frames(text, 5)))


def norm_err(line):
    import re
    line = re.sub(r'time="[^"]*"', "", line)
    line = re.sub(r"qid=\d+", "qid=N", line)
    return re.sub(r"\d{3,}", "N", line)


# --------------------------------------------------------------------------- the check

def model_runs(chk):
    r = vlib.run_tlc("Corruption", "MC_Corruption.cfg", timeout=300, coverage=True)
    vlib.tlc_must_hold(r, "Corruption (repaired reader)")
    chk.add_tlc("MC_Corruption", r, "outcome law on the reader without legacy fallback: Law, ChecksummedNeverAltered, OthersUnaffected, Alive")
    r2 = vlib.run_tlc("Corruption", "MC_Corruption_ascode.cfg", timeout=300)
    if r2.error and not r2.violated:
        raise vlib.Infra("Corruption as-coded run failed: %s" % r2.error)
    chk.add_tlc("MC_Corruption_ascode", r2, "reader AS CODED (legacy fallback): ChecksummedNeverAltered is expected to fail at (csg, c0, magic, flip) - a replay candidate, not a verdict")
    beh, rg = vlib.tlc_generate("Gen_Corruption", "Gen_Corruption.cfg", timeout=300)
    chk.add_tlc("Gen_Corruption", rg, "export of every fault class with the outcomes the as-coded model admits")
    allowed, candidates = {}, set()
    for b in beh:
        f = b["fault"]
        key = (f["kind"], f["chunk"], f["region"], f["fault"], f["tc"])
        a = allowed.setdefault(key, set())
        a.add(b["out0"])
        a.add(b["outN"])
        if b["checksummed"] and "Altered" in (b["out0"], b["outN"]):
            candidates.add(key)
    if not allowed:
        raise vlib.Infra("no fault classes generated")
    chk.cov["model_candidates"] = sorted("/".join(k) for k in candidates)
    return allowed, candidates


def run(chk):
    quick = chk.tier == "quick"
    allowed, candidates = model_runs(chk)
    binary = vlib.build_driver()
    master = vlib.scratch("c18m")
    work = vlib.scratch("c18w")
    try:
        docs, words = build_dataset(binary, master, chk.seed)
        fam = family(words)
        files = victim_files(master, docs)
        h0 = tree_hash(os.path.join(master, "data"))
        # every (kind, chunk, region) of the real files must be a region of the model, and vice versa
        real = set((r["kind"], r["chunk"], r["region"]) for f in files for r in f["regions"])
        model = set(k[:3] for k in allowed)
        if real - model:
            raise vlib.Infra("SPEC-DRIFT: file regions unknown to spec/Corruption.tla: %s" % sorted(real - model))
        missing = model - real
        chk.cov["model_regions_without_real_bytes"] = sorted("/".join(k) for k in missing)

        # baseline: two fresh processes must agree
        bases = []
        for i in range(2):
            d = os.path.join(work, "base%d" % i)
            os.makedirs(d)
            copy_with_fault(master, d, None, None)
            b = run_family(binary, d, fam)
            if b["status"] != "ok" or any(isinstance(a, dict) and "qerr" in a for a in b["answers"]):
                raise vlib.Infra("baseline run failed: %s %s" % (b["status"], b["detail"] or b["answers"]))
            bases.append(b)
            vlib.rmtree(d)
        for b in bases:
            norm_answers(b["answers"], b.get("par"))
        if bases[0]["answers"] != bases[1]["answers"]:
            raise vlib.Infra("baseline answers are not deterministic")
        base = bases[0]["answers"]
        base_err = set(norm_err(l) for b in bases for l in b["errlog"])
        orc = Oracle(docs, base, fam)
        nA = len(docs["A1"]) + len(docs["A2"])
        if len(base[0]["hits"]["records"]) != len(orc.universe) or orc.judge({"answers": base})[0] != "Original":
            raise vlib.Infra("baseline match-all does not return the ingested data")
        for b in bases:
            if orc.judge(b)[0] != "Original":
                raise vlib.Infra("baseline: the concurrent round does not return the sequential answers: %s" % (orc.judge(b)[:2],))
        for r in base[0]["hits"]["records"]:
            if orc.explain(r) is None or len(r) != 8:
                raise vlib.Infra("baseline record differs from the ingested one: %s" % r)

        cases = enumerate_faults(files, chk.tier, chk.seed)
        WORKERS = globals()["WORKERS"] or min(vlib.NCPU, 8 if quick else 12)
        vlib.log("[C18] %d files, %d bytes, %d fault cases, %d workers" % (len(files), sum(f["size"] for f in files), len(cases), WORKERS))
        t_start = time.time()

        def one(ci):
            case = cases[ci]
            f = files[case["fi"]]
            d = os.path.join(work, "r%d" % ci)
            os.makedirs(d)
            try:
                copy_with_fault(master, d, f, case)
                run = run_family(binary, d, fam)
                norm_answers(run["answers"], run.get("par"))
                if run["status"] == "ok":
                    cls, det, per = orc.judge(run)
                else:
                    cls, det, per = run["status"], run["detail"], []
                newerr = [l for l in run["errlog"] if norm_err(l) not in base_err]
                return {"cls": cls, "det": det, "per": per, "indicated": bool(newerr) or "Error" in per, "oom": run.get("oom", False)}
            finally:
                subprocess.run(["rm", "-rf", d])

        results = vlib.pmap(one, range(len(cases)), workers=WORKERS)
        vlib.log("[C18] sweep took %.0fs" % (time.time() - t_start))

        # confirm crashes / hangs / init errors serially, without the address-space ceiling, longer watchdog
        # (a Go panic with a stack trace is not load dependent: it is taken as it is)
        for r in results:
            if r["cls"] == "crash" and ("panic: " in r["det"] or "PANIC" in r["det"]):
                r["confirmed"] = True
        confirm = [i for i, r in enumerate(results) if r["cls"] in ("crash", "hang", "initerr") and not r.get("confirmed")]
        seen_sig = {}
        for i in confirm:
            case, f = cases[i], files[cases[i]["fi"]]
            sig = (case["cls"][0], results[i]["cls"], crash_site(results[i]["det"]))
            if results[i]["cls"] == "crash" and seen_sig.get(sig, 0) >= 2:      # two serial reproductions per (kind, crash site) are enough
                results[i]["confirmed"] = None
                continue
            if results[i]["cls"] == "hang" and seen_sig.get((case["cls"][:3], "hang"), 0) >= 1:   # one confirmed hang per region (60-120 s each)
                results[i]["confirmed"] = False
                continue
            d = os.path.join(work, "c%d" % i)
            os.makedirs(d)
            try:
                copy_with_fault(master, d, f, case)
                rr = run_family(binary, d, fam, ceiling=False, tmo=90)
                results[i]["confirmed"] = rr["status"] == results[i]["cls"]
                results[i]["confirm_detail"] = rr["detail"]
                if results[i]["confirmed"]:
                    seen_sig[sig] = seen_sig.get(sig, 0) + 1
                    if results[i]["cls"] == "hang":
                        seen_sig[(case["cls"][:3], "hang")] = 1
                elif rr["status"] == "ok":
                    norm_answers(rr["answers"], rr.get("par"))
                    cls, det, per = orc.judge(rr)
                    results[i]["recls"] = cls
            finally:
                vlib.rmtree(d)

        # answers about other segments: re-run (the effect can be intermittent); a verdict only if it shows again
        oc = [i for i, r in enumerate(results) if r["cls"] == "OtherChanged"][:12]

        def reconfirm(i):
            case, f = cases[i], files[cases[i]["fi"]]
            hits = 0
            for j in range(12):
                d = os.path.join(work, "o%d_%d" % (i, j))
                os.makedirs(d)
                try:
                    copy_with_fault(master, d, f, case)
                    rr = run_family(binary, d, fam, ceiling=False, tmo=120)
                    norm_answers(rr["answers"], rr.get("par"))
                    if rr["status"] == "ok" and orc.judge(rr)[0] == "OtherChanged":
                        hits += 1
                finally:
                    subprocess.run(["rm", "-rf", d])
            return hits
        for i, hits in zip(oc, vlib.pmap(reconfirm, oc, workers=4)):
            results[i]["confirmed"] = hits > 0
            results[i]["det"] += " [reproduced in %d of 12 re-runs]" % hits
        for i, r in enumerate(results):
            if r["cls"] == "OtherChanged" and "confirmed" not in r:
                r["confirmed"] = False

        if tree_hash(os.path.join(master, "data")) != h0:
            raise vlib.Infra("the master data set changed during the sweep")

        # ---- verdicts and evidence
        table = {}
        drift = []
        unconfirmed = 0
        vio = {}      # key -> {"what":..., "rep":..., "n": count, "more": [...]}

        def flag(key, what, rep):
            v = vio.setdefault(key, {"what": what, "rep": rep, "n": 0, "more": []})
            v["n"] += 1
            if v["n"] > 1 and len(v["more"]) < 8:
                v["more"].append({k: rep[k] for k in ("file", "fault", "offset", "value")})

        for case, res in zip(cases, results):
            f = files[case["fi"]]
            kind, chunkc, region, fault, tc = case["cls"]
            cls = res["cls"]
            ck = "%s/%s.%s/%s%s" % (kind, chunkc, region, fault, "" if tc == "-" else ":" + tc)
            t = table.setdefault(ck, {})
            label = cls
            if cls in ("Omitted",):
                label = "Omitted+indication" if res["indicated"] else "Omitted-silently"
            if cls == "Missing":
                label = "SeriesMissing-silently"
            if cls in ("crash", "hang", "initerr", "OtherChanged") and res.get("confirmed") is False:
                label = cls + "-unconfirmed" + ("-oom-under-ceiling" if res.get("oom") else "")
                unconfirmed += 1
            t[label] = t.get(label, 0) + 1
            chk.count(ck, nontrivial=cls != "Original")
            rep = {"file": f["path"], "kind": kind, "region": "%s.%s" % (chunkc, region), "fault": case["fault"], "offset": case["off"],
                   "value": case["val"], "old": f["bytes"][case["off"]] if case["off"] < f["size"] else None,
                   "seed": chk.seed, "class": cls, "detail": res["det"][:3000], "model_candidate": case["cls"] in candidates}
            where = "%s offset %d of %s (%s region %s.%s)" % (
                ("truncate to length" if case["fault"] == "trunc" else "byte 0x%02x ->0x%02x at" % (rep["old"] or 0, case["val"] or 0)),
                case["off"], os.path.basename(f["path"]), kind, chunkc, region)
            if cls == "Altered" and kind == "csg":
                flag("C18:%s:%s.%s:altered-values-served" % (kind, chunkc, region),
                     "altered values served from a checksummed column block after %s: %s%s" % (
                         where, res["det"][:600], " [model replay candidate: legacy un-checksummed path]" if rep["model_candidate"] else ""), rep)
            elif cls == "OtherChanged" and res.get("confirmed"):
                flag("C18:%s:%s.%s:other-segment-affected" % (kind, chunkc, region),
                     "damage in one segment changed answers about another after %s: %s" % (where, res["det"][:600]), rep)
            elif cls == "crash" and (res.get("confirmed") or res.get("confirmed") is None):
                det = res.get("confirm_detail") or res["det"]
                flag("C18:%s:process-crash:%s" % (kind, crash_site(det)),
                     "server process died / panicked after %s: %s" % (where, crash_summary(det)), rep)
            elif cls == "hang" and res.get("confirmed"):
                flag("C18:%s:%s.%s:hang" % (kind, chunkc, region),
                     "query hangs (confirmed on a serial re-run, 45 s query timeout) after %s: %s" % (where, res["det"][:600]), rep)
            elif cls == "initerr" and res.get("confirmed"):
                flag("C18:%s:%s.%s:server-does-not-start" % (kind, chunkc, region),
                     "engine start-up fails (all segments unavailable) after %s: %s" % (where, res["det"][:600]), rep)
            # model conformance (never a verdict): observed outcome class must be admitted by the as-coded model
            obs = {"Original": "Original", "Omitted": "SegmentError", "Error": "SegmentError", "MatchSetChanged": "Altered",
                   "Altered": "Altered", "Missing": "SeriesMissing"}.get(cls)
            adm = allowed.get(case["cls"], set()) - {"-"}
            if kind != "csg" and adm == {"SegmentError"} and obs in ("SeriesMissing", "Altered"):
                # range-checkable damage of an un-checksummed file (the model admits nothing but the error) answered silently
                flag("C18:%s:%s.%s:%s" % (kind, chunkc, region, "series-silently-missing" if obs == "SeriesMissing" else "altered-without-error"),
                     "damage that a range check against the file size detects was not reported: after %s the answer %s and the error list is empty: %s" % (
                         where, "lacks series/datapoints of the segment" if obs == "SeriesMissing" else "carries altered values", res["det"][:500]), rep)
            elif obs and obs not in adm:
                drift.append((ck, obs, rep))
            if len(chk.cov["samples"]) < 5 and cls not in ("Original",) and ck not in [s.get("class_key") for s in chk.cov["samples"]]:
                chk.sample({"class_key": ck, "fault": {k: rep[k] for k in ("file", "fault", "offset", "value")}, "observed": cls,
                            "per_query": dict(zip([q[0] for q in fam], res["per"])), "detail": res["det"][:200]})
        for key in sorted(vio):
            v = vio[key]
            v["rep"]["more_cases"] = v["more"]
            chk.violation(key, "%s [%d case(s) with this signature in this run]" % (v["what"], v["n"]), v["rep"])
        chk.cov["violation_signatures"] = {k: v["n"] for k, v in vio.items()}
        if os.environ.get("VERIF_C18_DUMP"):
            with open(os.environ["VERIF_C18_DUMP"], "w") as fh:
                for case, res in zip(cases, results):
                    if res["cls"] != "Original":
                        fh.write(json.dumps({"file": files[case["fi"]]["path"], "cls": case["cls"], "fault": case["fault"], "off": case["off"],
                                             "val": case["val"], "res": res}, default=str) + "\n")
        chk.replayed(len(cases))
        chk.cov["outcomes_by_region"] = table
        chk.cov["files"] = [{"path": f["path"], "kind": f["kind"], "size": f["size"]} for f in files]
        exercised = sorted(set(k.split("/")[0] for k, t in table.items() if set(t) - {"Original"}))
        chk.cov["file_kinds_whose_damage_was_observable"] = exercised
        chk.cov["file_kinds_never_observable"] = sorted(set(f["kind"] for f in files) - set(exercised))
        chk.cov["unconfirmed_crash_or_hang_runs"] = unconfirmed
        chk.cov["model_drift"] = ["%s observed %s" % (d[0], d[1]) for d in drift[:20]]
        if drift and not chk.violations:
            d = drift[0]
            raise vlib.Infra("SPEC-DRIFT: outcome %s for fault class %s is not admitted by spec/Corruption.tla (%d cases); first: %s" % (
                d[1], d[0], len(drift), json.dumps(d[2])[:600]))
        chk.assumptions += [
            "A-crc: a single-byte change or a shortened payload never has the original CRC32 (exact for one byte)",
            "single fault per run; rotated segments only; the shared index files (segmeta.json / metricmeta.json) are damaged only inside the victim's line, record separator excluded",
            "an address-space ceiling of 24 GiB is applied to the swept processes; exits/hangs are verdicts only when reproduced serially without the ceiling",
            "a panic recovered by the harness in the request goroutine counts as a process crash: neither siglens nor fasthttp recover handler panics",
        ]
        chk.describe(rule="one case = one (file, truncation length) or (file, offset, new byte value) of the victim log / metrics segment, answered "
                          "by a fresh engine process; distinct_nontrivial = model fault classes (kind/region/fault) in which at least one "
                          "injected fault changed an answer or raised an error (the damaged bytes were consumed by the query family)",
                     exhaustive=not quick,
                     extra={"tier_plan": ("quick: first (small and checksummed files: and last) byte of every region + every 13th (csg: every 3rd) truncation length; all three values on range-checkable metrics fields and sst type tags; chunk-header bytes, region boundaries + every 11th (csg: every 6th) "
                                          "offset with one of 3 values; model replay candidates (first byte of every csg := each encoding tag, 3 repeats)"
                                          if quick else
                                          "thorough: every truncation length; 3 values at every offset of csg, pqmr and metrics files, 2 values at every offset of "
                                          "cmi/bsu/sst/sfm/segmeta/metricmeta, every 4th offset of the sort-index and rollup files (not consumed by the query "
                                          "family); 256 values at every magic byte + the encoding byte of the timestamp csg, at byte 0 of one dictionary and one "
                                          "zstd csg and of bsu/sst/pqmr/tso/tsg; model replay candidates with 6 repeats")})
    finally:
        vlib.rmtree(master)
        vlib.rmtree(work)


def replay(chk, path):
    """Re-applies the recorded fault on a freshly built data set (same seed) and prints baseline vs damaged answers."""
    rec = json.load(open(path))
    rp = rec["replay"]
    binary = vlib.build_driver()
    master, work = vlib.scratch("c18m"), vlib.scratch("c18w")
    try:
        docs, words = build_dataset(binary, master, rp.get("seed", rec.get("seed", 1)))
        fam = family(words)
        files = victim_files(master, docs)
        f = [x for x in files if os.path.basename(x["path"]) == os.path.basename(rp["file"])]
        if not f:
            print("file %s not found in the rebuilt data set" % rp["file"])
            return 2
        f = f[0]
        os.makedirs(os.path.join(work, "b"))
        copy_with_fault(master, os.path.join(work, "b"), None, None)
        base = run_family(binary, os.path.join(work, "b"), fam)
        os.makedirs(os.path.join(work, "f"))
        copy_with_fault(master, os.path.join(work, "f"), f, {"fault": rp["fault"], "off": rp["offset"], "val": rp["value"]})
        run = run_family(binary, os.path.join(work, "f"), fam, ceiling=False, tmo=120)
        norm_answers(base["answers"], base.get("par"))
        norm_answers(run["answers"], run.get("par"))
        print("fault: %s" % json.dumps({k: rp[k] for k in ("file", "fault", "offset", "value", "old")}))
        print("status: %s %s" % (run["status"], run["detail"][:1500]))
        if run["status"] == "ok":
            cls, det, per = Oracle(docs, base["answers"], fam).judge(run)
            print("class: %s  %s" % (cls, det))
            for (name, _, _), a, b in zip(fam, run["answers"], base["answers"]):
                if a != b:
                    print("-- %s\n   baseline: %s\n   damaged : %s" % (name, json.dumps(b, sort_keys=True)[:1500], json.dumps(a, sort_keys=True)[:1500]))
            return 1 if cls in ("Altered", "OtherChanged") else 0
        return 1
    finally:
        vlib.rmtree(master)
        vlib.rmtree(work)
