"""C17 - every query is answered or rejected, terminates, and frees its resources.

Model   spec/QueryLifecycle.tla: running/waiting tables, bounded state channel, the three locks,
        puller, handler loop, executor, timer and CancelQuery as separate goroutines; TLC checks
        Admission, NoDoubleBooking, OneTerminal, CleanAfterReturn, QuiescentClean, NoStuckSender,
        NoStuckWithLock and deadlock freedom for every interleaving (sync path; async path as
        candidate generator).
Binding (C) trace validation: seeded stress runs of real queries through the synchronous search entry
        point with a small admission limit, planned CancelQuery calls, executor delays and a 1 s query
        timeout; the verifhook event log of every run is validated against Trace_QueryLifecycle
        (strict on everything logged under its lock; all invariants in every state) and the tables /
        goroutines left after quiescence are compared with the model's final state.
        (B) forced schedules: TLC-enumerated orders of (enqueue, cancel, dequeue, run) for the
        cancel-vs-admission race are forced on the real goroutines with blocking hooks.
        (G) grammar: TLC enumerates token sequences from a small query grammar (spec/Grammar.tla); each is
        parsed twice by the real parsers (same plan?) and executed (answer or error, bounded time,
        process alive).
"""
import json
import os
import random

import vlib

LEVEL = "model_checking"
CLAIMED = True   # set by the lead after review; only claimed checks enter MANIFEST.json

MANIFEST = dict(
    category="model_checking",
    technique="TLA+ spec of the query life cycle (TLC, all interleavings) + trace validation of hooked stress runs against it + forced-schedule replay of TLC interleavings + TLC-enumerated query grammar replayed on the real parsers",
    text=("spec/QueryLifecycle.tla models admission, the waiting queue, the bounded state channel, the locks, handler, "
          "executor, timer and cancel goroutines; TLC checks admission, single terminal state, clean-up and absence of "
          "stuck senders over all interleavings. The real code is bound by validating the hook-event traces of seeded "
          "concurrent stress runs (cancel/timeout/slow executors, admission limit 1-3) against Trace_QueryLifecycle with every "
          "invariant evaluated in every trace state, by comparing tables and goroutines left after quiescence, by forcing "
          "TLC-enumerated cancel/admission orders on the real goroutines, and by parsing+executing every token sequence "
          "TLC enumerates from spec/Grammar.tla twice."),
    note=("Synchronous (HTTP) path: trace validation + forced schedules; websocket path: modelled (async config) and driven "
          "end to end (cancel message, abrupt disconnect, slow reader) with table / goroutine checks, but its traces are not "
          "validated against the spec. "
          "'All byte strings' is covered only at token level (sequences of <= 4-5 tokens from ~40 tokens over four query "
          "languages); the Elasticsearch query-DSL JSON space and byte-level fuzzing are not covered. Events logged outside "
          "their lock are used as causes only."),
    design_ref="DESIGN.md 4/C17",
)

TEXTS = ["*", "* | stats count by x", "x=3", "* | head 3", "x>2 | stats sum(x)", "nosuchfield=1", "* | sort -x | head 5",
         "x=1 OR x=2 | stats avg(x) by x", "* | dedup x", "* | eval y=x*2 | where y>4"]

TERMINAL = {"COMPLETE": "ok", "ERROR": "err", "CANCELLED": "cancelled", "TIMEOUT": "timeout"}


def make_plans(rnd, n):
    plans = []
    for _ in range(n):
        p = {"text": rnd.choice(TEXTS), "start_ms": rnd.randrange(0, 25), "cancel_ms": -1}
        r = rnd.random()
        if r < 0.35:
            p["cancel_ms"] = rnd.choice([0, 1, 2, 5, 10, 20, 40])
            if rnd.random() < 0.25:
                p["cancel2_ms"] = p["cancel_ms"] + rnd.choice([0, 1, 15])
        if rnd.random() < 0.25:
            p["slow_ms"] = rnd.choice([20, 60, 150, 1250, 2500])
        plans.append(p)
    return plans


def stress_run(binary, case):
    d = vlib.scratch("c17")
    dr = None
    try:
        dr = vlib.Driver(binary, env={"SIGDRV_GOMAXPROCS": str(case["procs"])})
        dr.ok("init", dir=d)
        body = "".join('{"index":{"_index":"a"}}\n{"id":%d,"x":%d,"timestamp":%d}\n' % (i, i % 7, 1700000000000 + i * 1000)
                       for i in range(300))
        dr.ok("bulk", body=body)
        dr.ok("flush")
        if case.get("rotate"):
            dr.ok("rotate")
        dr.ok("hook_start")
        if case.get("widen"):
            # widen the gap between the puller's dequeue and its insert into the running table
            dr.ok("hook_delay", point="q.pull.got", ms=case["widen"])
        r = dr.ok("qstress", plans=case["plans"], max_running=case["maxrun"], timeout_secs=1, churn_workers=case.get("churn", 0),
                  timeout=300)
        r["alive"] = True
        return r
    finally:
        if dr is not None:
            dr.quit()
        vlib.rmtree(d)


def analyse(case, r):
    """Property-level findings of one run, from outcomes + the event log. -> [(key, what)]"""
    f = []
    ev = r["events"]
    base = r["base_qid"]
    byq = {}
    for e in ev:
        q = e["kv"].get("qid")
        if q is not None:
            byq.setdefault(q, []).append(e)
    for i, o in enumerate(r["outs"]):
        p = case["plans"][i]
        q = o["qid"]
        oc = o["outcome"]
        if oc == "stuck":
            f.append(("C17:life:no-answer", "query %r got neither an answer nor an error within 30 s (plan %s)" % (p["text"], p)))
            continue
        if oc.startswith("panic"):
            f.append(("C17:life:panic", "query %r panicked: %s" % (p["text"], oc)))
            continue
        evs = byq.get(q, [])
        names = [e["ev"] for e in evs]
        terms = [e["kv"]["state"] for e in evs if e["ev"] == "h.recv" and e["kv"]["state"] in TERMINAL]
        if "q.enqueue" in names:
            # exactly one terminal state decided the handler's return, and the API-level outcome agrees with it
            if len(terms) != 1:
                f.append(("C17:life:terminal-count", "query qid=%d handler saw terminal states %s" % (q, terms)))
            else:
                want = TERMINAL[terms[0]]
                got = "err" if oc.startswith("err:") else oc
                if want != got:
                    f.append(("C17:life:outcome-mismatch", "qid=%d handler returned on %s but the caller got %r" % (q, terms[0], oc)))
        # cancellation must take effect at any moment: a CancelQuery call that started after the query was
        # enqueued and whose lookup finished before the query was dequeued saw a *waiting* query
        seq = {}
        for e in evs:
            seq.setdefault(e["ev"], []).append(e["seq"])
        if "q.enqueue" in seq and "t.cancel.call" in seq:
            # From its enqueue to the terminal message its handler receives a query is in the waiting queue, with the puller
            # (being admitted) or in the running table: a CancelQuery call made in that span must find it.  q.cancel.miss =
            # the call looked everywhere and found nothing.
            enq = seq["q.enqueue"][0]
            deq = seq.get("q.dequeue", [10 ** 12])[0]
            run = min(seq.get("q.run", [10 ** 12])[0], seq.get("q.run.skip", [10 ** 12])[0])
            term = min([e["seq"] for e in evs if e["ev"] == "h.recv" and e["kv"]["state"] in TERMINAL] or [10 ** 12])
            for c_call in seq["t.cancel.call"]:
                misses = [s_ for s_ in seq.get("q.cancel.miss", []) if s_ > c_call]
                if c_call > enq and misses and misses[0] < term:
                    if oc == "ok" or oc.startswith("err:"):
                        phase = "while-waiting" if misses[0] < deq else ("between-dequeue-and-run" if misses[0] < run else "while-running")
                        f.append(("C17:cancel:ignored-" + phase,
                                  "CancelQuery(qid=%d) issued while the query was live (%s) found nothing and had no effect: the "
                                  "query returned %r (events %s)" % (q, phase.replace("-", " "), oc[:40], names)))
                    break
    # admission limit, read directly from the values logged under the table lock
    dequeued = set(e["kv"].get("qid") for e in ev if e["ev"] == "q.dequeue")
    for e in ev:
        # forced starts (RestartQuery, the churn workers) are exempt from the limit by design
        if e["ev"] == "q.run" and e["kv"].get("qid") in dequeued and e["kv"].get("nrun", 0) > e["kv"].get("max", 1 << 30) \
                and not case.get("churn"):
            f.append(("C17:admission:exceeded", "%d queries in the running table with MAX_RUNNING_QUERIES=%d (q.run of qid=%s)" % (
                e["kv"]["nrun"], e["kv"]["max"], e["kv"].get("qid"))))
            break
    # a query whose executor is held back far beyond the query timeout must end by timeout (or cancellation)
    for i, o in enumerate(r["outs"]):
        p = case["plans"][i]
        if p.get("slow_ms", 0) >= 2500 and o["outcome"] == "ok":
            f.append(("C17:timeout:not-enforced", "query %r was held for %d ms with a 1 s query timeout and still returned a normal answer "
                      "after %d ms" % (p["text"], p["slow_ms"], o["ms"])))
    if r["running_left"] != 0:
        f.append(("C17:cleanup:running-table", "%d entries left in the running table after quiescence" % r["running_left"]))
    if r["waiting_left"] != 0:
        f.append(("C17:cleanup:waiting-table", "%d entries left in the waiting queue after quiescence" % r["waiting_left"]))
    if r.get("tables_stuck"):
        f.append(("C17:life:table-lock-stuck", "reading the running / waiting tables did not return within 8 s after the run: a table lock is "
                  "held for ever (every later query would block)"))
    if r.get("churn_stuck"):
        f.append(("C17:life:table-lock-stuck", "goroutines that only start (forced) and delete their own queries were blocked for 10 s "
                  "after the storm ended: the running-table lock is never released"))
    if r.get("extra_goroutines"):
        f.append(("C17:cleanup:goroutine", "goroutines of finished queries remain: %s" % r["extra_goroutines"][:3]))
    return f


def to_trace(runs):
    """Concatenate event logs (qids renumbered globally) with quiesce + reset markers."""
    out, off = [], 0
    for r in runs:
        m = {}
        for e in r["events"]:
            if e["ev"].split(".")[0] not in ("q", "h", "x", "t"):
                continue      # observation points of other subsystems (flush / rotation / segment listing)
            kv = dict(e["kv"])
            if "qid" in kv:
                kv["qid"] = m.setdefault(kv["qid"], off + len(m) + 1)
            out.append({"ev": e["ev"], "kv": kv})
        off += len(m)
        out.append({"ev": "quiesce", "kv": {"running": r["running_left"], "waiting": r["waiting_left"]}})
        out.append({"ev": "reset", "kv": {}})
    return out


TRACE_CFG = """SPECIFICATION TSpec
CONSTANTS
  Q <- TraceQ
  MAXRUN = %d
  CAP = 10
  ASYNC = FALSE
  MAXUPD = 0
  CANCELS = 2
  TIMERS = TRUE
  SeesAdmitting = TRUE
INVARIANTS TAdmission TClean TOneTerminal NoDoubleBooking TypeOK
POSTCONDITION TraceAccepted
CHECK_DEADLOCK FALSE
"""


def validate(chk, runs, maxrun, tag):
    trace = to_trace(runs)
    sc = vlib.scratch("c17cfg")
    try:
        cfgp = os.path.join(sc, "Trace_QL_run.cfg")
        open(cfgp, "w").write(TRACE_CFG % maxrun)
        res = vlib.trace_validate("Trace_QueryLifecycle", "Trace_QL_run.cfg", trace, extra_files=[cfgp], timeout=900)
    finally:
        vlib.rmtree(sc)
    chk.add_tlc("Trace_QueryLifecycle[%s]" % tag, res, "%d events of %d runs, MAXRUN=%d" % (len(trace), len(runs), maxrun))
    return res, trace


def run(chk):
    quick = chk.tier == "quick"
    # ---------------- model
    r = vlib.run_tlc("MC_QueryLifecycle", "MC_QueryLifecycle_sync.cfg", timeout=900, coverage=False)
    vlib.tlc_must_hold(r, "QueryLifecycle sync Q=2")
    chk.add_tlc("MC_QueryLifecycle_sync", r, "Q=2 MAXRUN=1 CAP=10: all safety invariants incl. CancelTakesEffect + deadlock freedom")
    if not quick:
        # Q=3 with cancels AND timers does not finish (>280 M states in 40 min, measured); the two halves do
        for cfg, what in (("MC_QueryLifecycle_sync3_cancel.cfg", "Q=3 MAXRUN=2 CANCELS=1 no timers, symmetry (1.3 M distinct)"),
                          ("MC_QueryLifecycle_sync3_timer.cfg", "Q=3 MAXRUN=2 timers, no client cancel, symmetry (2.7 M distinct)"),
                          ("MC_QueryLifecycle_sync2c2.cfg", "Q=2 MAXRUN=2 CANCELS=2 timers (37 M distinct)")):
            r3 = vlib.run_tlc("MC_QueryLifecycle", cfg, timeout=2400, heap="12g")
            vlib.tlc_must_hold(r3, "QueryLifecycle " + cfg)
            chk.add_tlc(cfg[:-4], r3, what)
    rc = vlib.run_tlc("MC_QueryLifecycle", "MC_QueryLifecycle_noadmitting.cfg", timeout=600)
    if "CancelTakesEffect" not in rc.violated:
        raise vlib.Infra("model sensitivity lost: without the admitting-query look a cancel between dequeue and run must be lost in the model")
    chk.cov["model_candidates"] = {"CancelTakesEffect": "holds (checked in the sync configs); SeesAdmitting=FALSE (code before the second cancel fix) violates it"}
    ra = vlib.run_tlc("MC_QueryLifecycle", "MC_QueryLifecycle_async.cfg", timeout=900)
    chk.cov["model_candidates"]["async NoStuckSender"] = "violated (websocket path: executor can block on a full channel " \
        "after the handler returned; not driven on the real code)" if "NoStuckSender" in ra.violated else "holds"

    binary = vlib.build_driver()
    # ---------------- (C) stress + trace validation
    rnd = random.Random(chk.seed)
    nruns = 16 if quick else 120
    nq = 14 if quick else 24
    cases = []
    for i in range(nruns):
        cases.append({"idx": i, "maxrun": [1, 2, 3][i % 3], "procs": rnd.choice([1, 2, 4, 16]), "rotate": i % 2 == 0,
                      "widen": [0, 3, 0, 8][i % 4], "plans": make_plans(rnd, nq)})
    # sparse arrivals with a widened dequeue->run gap (a submit can land exactly inside it) and a timeout chain (queries that
    # wait longer than the timeout before they are admitted and are then held beyond it)
    for j in range(2 if quick else 8):
        plans = [{"text": rnd.choice(TEXTS), "start_ms": rnd.randrange(0, 500), "cancel_ms": -1, "slow_ms": rnd.choice([0, 5, 20])}
                 for _ in range(14)]
        cases.append({"idx": 1000 + j, "maxrun": 1, "procs": rnd.choice([2, 16]), "rotate": False, "widen": 12, "plans": plans})
    cases.append({"idx": 2000, "maxrun": 1, "procs": 4, "rotate": False, "widen": 0,
                  "plans": [{"text": "*", "start_ms": k * 5, "cancel_ms": -1, "slow_ms": 2500} for k in range(3)]})
    # cancel storms: many queries, most of them cancelled (twice) at random moments while others keep starting
    for j in range(4 if quick else 12):
        plans = []
        for _ in range(90):
            c1 = rnd.choice([0, 1, 2, 3, 5, 8, 13, 20, 30])
            plans.append({"text": rnd.choice(TEXTS), "start_ms": rnd.randrange(0, 60), "cancel_ms": c1 if rnd.random() < 0.85 else -1,
                          "cancel2_ms": c1 + rnd.choice([0, 1, 2]) if rnd.random() < 0.5 else -1,
                          "slow_ms": rnd.choice([0, 40, 120, 300])})
        cases.append({"idx": nruns + j, "maxrun": [40, 12][j % 2], "procs": [4, 16][j % 2], "rotate": False, "widen": 0, "churn": 8,
                      "plans": plans})

    def one(c):
        try:
            return stress_run(binary, c)
        except vlib.DriverDead as e:
            return e
    results = vlib.pmap(one, cases, workers=6)
    by_max = {}
    for c, r in zip(cases, results):
        if isinstance(r, vlib.DriverDead):
            if r.kind == "hang":
                raise vlib.Infra("stress run did not answer in time: %s" % r)
            chk.violation("C17:life:process-died", "engine process died during concurrent queries: %s" % r, c)
            continue
        chk.count(("stress", c["idx"]), nontrivial=any(o["outcome"] in ("cancelled", "timeout") for o in r["outs"]))
        for key, what in analyse(c, r):
            chk.violation(key, what, {"case": c, "outs": r["outs"], "events": r["events"][:400]})
        if not c.get("churn"):      # forced starts of the churn workers have no handler: not a behaviour of the trace spec
            by_max.setdefault(c["maxrun"], []).append(r)
    chk.cov["stress"] = {"runs": len(cases), "queries": len(cases) * nq,
                         "outcomes": {k: sum(1 for r in results if not isinstance(r, Exception) for o in r["outs"] if o["outcome"].split(":")[0] == k)
                                      for k in ("ok", "err", "cancelled", "timeout", "stuck")}}
    for maxrun, runs in sorted(by_max.items()):
        res, trace = validate(chk, runs, maxrun, "maxrun=%d" % maxrun)
        chk.replayed(len(runs))
        inv = [v for v in res.violated if v not in ("Deadlock",)]
        if inv:
            # an invariant of the spec was false in a state of a REAL execution
            for v in inv:
                key = {"TAdmission": "C17:admission:exceeded", "TClean": "C17:cleanup:table-after-return",
                       "TOneTerminal": "C17:life:terminal-state", "NoDoubleBooking": "C17:tables:double-booking"}.get(v, "C17:trace-invariant:" + v)
                chk.violation(key, "invariant %s violated on a recorded execution (MAXRUN=%d)" % (v, maxrun),
                              {"trace_tail": trace[-60:], "tlc": res.out[-3000:]})
        elif res.rc != 0:
            # rejected without a property-level failure: the code no longer takes the steps the spec describes.  Not a
            # verdict; remembered, and reported as exit 2 only if nothing else in this run is a real violation.
            at = res.depth
            chk.drift.append("SPEC-DRIFT: recorded trace (MAXRUN=%d) is not a behaviour of Trace_QueryLifecycle; validation stopped at "
                             "event %s: %s" % (maxrun, at, json.dumps(trace[at - 1:at + 1])[:400] if at else res.out[-600:]))
    if results and not isinstance(results[0], Exception):
        chk.sample({"kind": "stress-run", "plans": cases[0]["plans"][:4], "outs": results[0]["outs"][:4],
                    "events": [(e["ev"], e["kv"]) for e in results[0]["events"][:25]]})

    # ---------------- (B) forced schedules, (G) grammar: separate modules
    import c17_sched
    import c17_grammar
    import c17_async
    c17_sched.run(chk, binary)
    c17_async.run(chk, binary)
    c17_grammar.run(chk, binary)

    chk.assumptions += [
        "hook events logged under arqMapLock/waitingQueriesLock are totally ordered with the state they report",
        "trace validation covers the synchronous path; the websocket path is executed and checked for answers, tables and goroutines",
        "goroutine leak detection compares goroutine signatures before/after each run (query/pipesearch/segment frames only)",
    ]
    chk.describe(rule="stress runs: seeded plans of %d concurrent queries (cancel at 0-40 ms, second cancel, executor delays up to "
                      "1.25 s against a 1 s timeout, admission limit 1-3, GOMAXPROCS 1-16); non-trivial = run in which at least "
                      "one query ended cancelled or timed out; forced schedules and grammar strings are counted by their own "
                      "keys" % nq, exhaustive=False)


def replay(chk, path):
    d = json.load(open(path))
    print(json.dumps(d, indent=1)[:6000])
    return 0
