"""C10 - the metrics write-ahead logs replay a faithful prefix after any crash.

Model   spec/WAL.tla: one action per file-system call of the datapoint log (Buffer, the three writes of Append, RotateWal,
        block rotation = block file flush + DeleteOnBlockRotate + next file), of the meta-entry log rewrite (Truncate0,
        WriteVersion, three block writes), Crash between any two (also during recovery), Truncate / FlipByte of a log
        region while the process is down, the recovery loop of RecoverWALData one file at a time (directory order, stop at
        the first bad block, delete, flush the rebuilt block), RecoverMEntryWALData, and the restarted process ingesting
        while recovery runs.  TLC checks PrefixPerFile / NoInvent / Rejected / InOrder / CompleteReplay for the code as it
        is, everything incl. Durable / MetaDurable for the candidate repairs, and shows the model-level counterexamples of the
        code as it is (candidates only; each is then tried on the real code).
Binding (fn)  spec/Gen_WAL.tla enumerates append histories (kind x items per block); the in-package harness writes each with
        the real Wal and reads back EVERY truncation length and single-byte flips (all offsets x 3 masks, all 256 values at
        region edges) with the real iterators; outcome must be the spec's: the complete blocks before the cut / the damage.
        (e2e) crash-state enumeration (lib/crashfs.py): a writer history of OpenTSDB puts and explicit one-iteration steps of
        the WAL timer loops (datapoint flush, metric-name flush, tags-tree flush, meta-entry rewrite, block flush) runs once
        under strace; every prefix of its file operations is a crash state; each is restarted (init, the three Recover*
        functions, metadata refresh), observed (selector query per series, recovered block files, .mnm, meta entries),
        ingested into, crashed and restarted again.  Also: crash states of the RECOVERY run itself, ingest before recovery
        (the real server accepts ingest while recovery runs), WAL-file rotation up to index >= 10.
        (e2e, shards) spec/WALShards.tla: N per-shard logs appended concurrently share nothing; bound by one goroutine per
        metrics segment ingesting through the real handler with size-triggered appends + the flusher running meanwhile, then every
        log read back with the real iterator, crash, restart, recovery: each shard replays exactly ITS OWN appends.
"""
import json
import os
import random
import re
import shutil
import struct
import subprocess
import tempfile
import time

import crashfs
import vlib

LEVEL = "model_checking"
CLAIMED = True   # set by the lead after review; only claimed checks enter MANIFEST.json

MANIFEST = dict(
    category="model_checking",
    technique=("TLA+ spec of the metrics WAL append/rotate/rewrite/recover protocol with Crash, Truncate and FlipByte (TLC) + "
               "byte-exhaustive truncation / flip replay of TLC-enumerated append histories on the real Wal writer and iterators "
               "+ crash-state enumeration of a real writer and of the real recovery run (strace-recorded system calls replayed "
               "prefix by prefix, each state restarted, recovered and queried)"),
    text=("spec/WAL.tla models the datapoint log (version byte, blocks of length + CRC + payload written by three calls), log-file "
          "and block rotation, the in-place rewrite of the meta-entry log, a crash between any two calls (also during recovery), "
          "damage to any region of a log file, the recovery loop file by file and the restarted process ingesting meanwhile; TLC "
          "checks that what recovery reads from a file is a block-prefix of what was appended, nothing is invented, a damaged block "
          "is rejected, order is kept, and (for the candidate repairs) every completed append survives. The real code is bound "
          "twice: (fn) every TLC-enumerated append history is written with the real Wal and read back with the real iterators "
          "for every truncation length and single-byte flips, the result must be exactly the complete blocks before the cut or "
          "damage, no panic, no hang; (e2e) a writer process driven through puts and one-iteration steps of the WAL timer loops "
          "runs once under strace, every prefix of its file operations is materialised as a crash state and restarted with the "
          "real Recover* functions: datapoints, metric names and meta entries whose log append (and the tags tree / meta entry a "
          "selector query needs) had completed must come back bit-exact and exactly once, nothing that was never put may appear, "
          "a further ingest + crash + restart must neither double nor lose them. The recovery run itself is crash-enumerated the "
          "same way, ingest before recovery and log-file indexes >= 10 are exercised. spec/WALShards.tla composes N per-shard logs "
          "appended concurrently (they share nothing; each replays a prefix of ITS OWN appends) and is bound by a concurrent scenario: "
          "one goroutine per metrics segment ingests through the real handler at a rate that makes the ingest goroutines append, "
          "the flusher runs meanwhile, then every log is read back with the real iterator and the process is crashed, restarted and "
          "recovered; every datapoint carries its shard and position in value and timestamp."),
    note=("Process-crash model (completed system calls persist, no torn write, no power loss). Crash points are those of the "
          "recorded schedules. Length fields that make the reader allocate more than 32 MiB are executed for a sample only (1 ms per "
          "MiB). One tenant; the tags tree is not a log: a crash inside its truncate-then-write flush is treated as 'series may be "
          "unreachable', not as a WAL violation. Prometheus/OTLP ingest paths share the same WAL code and are not driven separately."),
    design_ref="DESIGN.md 4/C10",
)

WORKERS = int(os.environ.get("VERIF_WORKERS", "6"))
T0 = 1_700_000_000
WAL_PKG = "pkg/segment/writer/metrics/wal"
INPKG = os.path.join(vlib.VERIF, "harness", "inpkg", WAL_PKG, "zz_verif_wal_test.go")


# =========================================================================== model

EXPECT_VIOLATED = {
    # cfg -> (invariant that the code as it is violates in the model, what it is a candidate for)
    "MC_WAL_meta.cfg": ("MetaDurable", "crash between Truncate0 and the last block write of the meta-entry log rewrite loses the previously logged entry"),
    "MC_WAL_reccrash.cfg": ("Durable", "crash during recovery after a log file was deleted and before the rebuilt block was flushed loses completed appends"),
    "MC_WAL_rotdel.cfg": ("Durable", "crash between two log-file deletions of a block rotation: recovery rebuilds the block from the files left and overwrites the flushed block"),
    "MC_WAL_lex.cfg": ("InOrder", "log file index 10 is listed (and replayed) before index 2"),
    "MC_WAL_startup.cfg": ("NewProcWalIntact", "recovery deletes the datapoint log the restarted process has just created"),
    "MC_WAL_startup_meta.cfg": ("MetaDurable", "the restarted process O_TRUNC-creates the meta-entry log before recovery has read it"),
    "MC_WAL_metaseg_skip.cfg": ("MetaSegDurable", "model of a meta-entry rewrite that leaves out a segment whose CURRENT block is empty: flushed block, empty current block, rewrite, crash - the segment's logged entry is gone"),
    "MC_WAL_nocrc.cfg": ("NoInvent", "model sensitivity: a reader that does not compare the CRC decodes datapoints that were never written"),
}


def run_model(chk, quick):
    deep = "" if quick else "_deep"        # 3 datapoints, 2 files per block (quick) / 4 datapoints, 3 files per block (thorough)
    hold = [("MC_WAL_asis%s.cfg" % deep, "code as it is: TypeOK PrefixPerFile NoInvent Rejected InOrder MetaNoInvent CompleteReplay; crash x2, one Truncate/FlipByte"),
            ("MC_WAL_fixed%s.cfg" % deep, "candidate repairs (flush before delete, flushed block kept, numeric listing): all of the above + Durable"),
            ("MC_WAL_meta_fixed.cfg", "meta-entry log written to a temporary file and renamed: MetaDurable MetaNoInvent"),
            ("MC_WAL_startup_safe.cfg", "code as it is with the restarted process ingesting during recovery: the safety invariants"),
            ("MC_WAL_metaseg.cfg", "datapoint log + block rotation + meta-entry rewrites together: the entry of a segment with a flushed block stays logged (MetaSegDurable)")]
    jobs = [(cfg, True) for cfg, _ in hold] + [(cfg, False) for cfg in EXPECT_VIOLATED]
    # 3 TLC processes x 2 workers
    res = dict(zip([j[0] for j in jobs], vlib.pmap(lambda j: vlib.run_tlc("MC_WAL", j[0], timeout=900, coverage=j[1], workers=2, heap="3g"), jobs, workers=3)))
    zero = None
    for cfg, note in hold:
        r = res[cfg]
        vlib.tlc_must_hold(r, "WAL " + cfg)
        z = set(r.coverage_zero)
        zero = z if zero is None else (zero & z)
    for cfg, note in hold:
        res[cfg].coverage_zero = sorted(zero)          # an action is vacuous only if no configuration ever takes it
        chk.add_tlc(cfg, res[cfg], note)
    if zero:
        raise vlib.Infra("WAL spec: actions never taken in any configuration: %s" % sorted(zero))
    # multi-shard composition: N logs appended concurrently share nothing
    rs = vlib.run_tlc("MC_WALShards", "MC_WALShards.cfg", timeout=600, coverage=True, workers=2, heap="2g")
    vlib.tlc_must_hold(rs, "WALShards (one encoder per log)")
    if rs.coverage_zero:
        raise vlib.Infra("WALShards spec: actions never taken: %s" % rs.coverage_zero)
    chk.add_tlc("MC_WALShards.cfg", rs, "3 shards x 2 datapoints, appends interleaved step by step, crash anywhere: OwnPrefix OwnComplete NoForeign")
    rx = vlib.run_tlc("MC_WALShards", "MC_WALShards_shared.cfg", timeout=600, workers=2, heap="2g")
    if rx.error:
        raise vlib.Infra("WALShards shared-encoder config: TLC failed (%s)" % rx.error)
    if not set(rx.violated) & {"OwnPrefix", "OwnComplete", "NoForeign"}:
        raise vlib.Infra("model sensitivity lost: one encoder shared by all logs no longer violates OwnPrefix/OwnComplete/NoForeign")
    chk.add_tlc("MC_WALShards_shared.cfg", rx, "expected model counterexample: logs that share one encoder object replay another shard's block (%s)" % rx.violated)
    cands = {}
    for cfg, (inv, what) in EXPECT_VIOLATED.items():
        r = res[cfg]
        if r.error:
            raise vlib.Infra("WAL %s: TLC failed (%s)\n%s" % (cfg, r.error, r.out[-2000:]))
        if inv not in r.violated:
            raise vlib.Infra("model sensitivity lost: %s no longer violates %s" % (cfg, inv))
        acts = re.findall(r"State \d+: <(\w+) line", r.out)
        cands[cfg] = {"violates": inv, "candidate": what, "trace": " ".join(acts)}
        chk.add_tlc(cfg, r, "expected model counterexample (%s): %s" % (inv, what))
    chk.cov["model_candidates"] = cands


# =========================================================================== fn level

def run_fn(chk, quick):
    beh, rg = vlib.tlc_generate("Gen_WAL", "Gen_WAL.cfg", timeout=600)
    chk.add_tlc("Gen_WAL", rg, "behaviour generation: kind x number of items per block (1-3 blocks x 1-3 items)")
    if len(beh) < 100:
        raise vlib.Infra("Gen_WAL produced %d histories" % len(beh))
    beh = vlib.dedup(beh)
    if quick:
        # all datapoint-log shapes; the other two encoders: every shape of <= 2 blocks and a seeded third of the 3-block shapes
        rnd = random.Random(chk.seed)
        beh = [b for b in beh if b["kind"] == "dp" or len(b["blocks"]) <= 2 or rnd.random() < 0.34]
    shm = "/dev/shm" if os.path.isdir("/dev/shm") and os.access("/dev/shm", os.W_OK) else None
    tmp = tempfile.mkdtemp(prefix="c10fn-", dir=shm) if shm else vlib.scratch("c10fn")      # one ~6 KB file rewritten ~700k times
    sc = vlib.scratch("c10fn")
    try:
        bp, op = os.path.join(sc, "beh.ndjson"), os.path.join(sc, "out.json")
        with open(bp, "w") as f:
            for b in beh:
                f.write(json.dumps(b) + "\n")
        rc, out = vlib.go_test_inpkg(WAL_PKG, [INPKG], "TestVerifWalReplay$", timeout=2400,
                                     env={"C10_BEH": bp, "C10_OUT": op, "C10_SEED": str(chk.seed), "C10_SWEEP": "2" if quick else "3",
                                          "C10_BIG": "0" if quick else "1", "TMPDIR": tmp})
        if not os.path.exists(op):
            if "panic:" in out or "fatal error:" in out:
                chk.violation("C10:fn:process-died", "the test process running the real WAL readers died: " + out[-1500:], {"level": "fn", "output": out[-4000:]})
                return
            raise vlib.Infra("fn harness failed rc=%s\n%s" % (rc, out[-3000:]))
        res = json.load(open(op))
        chk.replayed(res["histories"])
        chk.count(n=res["reads"])
        for k in res["classes"]:
            chk.count(("fn", k), nontrivial=True, n=0)
        chk.cov["fn"] = {k: res[k] for k in ("histories", "reads", "truncations", "flips", "skipped_large", "max_alloc_requested",
                                             "max_alloc_case", "max_read_ms", "intact_prefix_kept")}
        chk.cov["fn"]["outcome_classes"] = len(res["classes"])
        chk.cov["fn"]["big_length_reads"] = res.get("big") or []
        if res.get("sample"):
            s = dict(res["sample"])
            s["file_hex"] = s.get("file_hex", "")[:160]
            chk.sample({"kind": "fn-history", "case": s})
        for v in res.get("violations") or []:
            chk.violation(v["key"], v["what"], v["replay"])
        # a corrupt length field: how much memory / time before the block is rejected (alone in a process)
        big = {}
        for lenv in ([0xff000033] if quick else [0x40000033, 0x80000033, 0xff000033]):
            runs = []
            for attempt in range(3):
                if os.path.exists(op):
                    os.unlink(op)
                rc, out = vlib.go_test_inpkg(WAL_PKG, [INPKG], "TestVerifWalBigLen$", timeout=600,
                                             env={"C10_OUT": op, "C10_LEN": str(lenv), "C10_KIND": "dp", "TMPDIR": tmp})
                if not os.path.exists(op):
                    if "out of memory" in out or "signal: killed" in out:
                        runs.append({"died": out[-400:]})
                        continue
                    raise vlib.Infra("big-length probe failed rc=%s\n%s" % (rc, out[-2000:]))
                runs.append(json.load(open(op)))
                if runs[-1].get("read_ms", 0) <= 2000 and not runs[-1].get("hang"):
                    break
            big["0x%08x" % lenv] = [{k: r.get(k) for k in ("read_ms", "sys_growth_mib", "err", "items", "died")} for r in runs]
            slow = [r for r in runs if r.get("died") or r.get("hang") or r.get("read_ms", 0) > 2000]
            if len(slow) == 3 and len(runs) == 3:
                chk.violation("C10:fn:corrupt-length:stall",
                              "a datapoint log whose first length field reads 0x%08x (one flipped byte) makes DPWalIterator.Next allocate and clear "
                              "%d MiB before it looks at the file size: %s ms, %s MiB taken from the OS, in each of 3 runs alone in a process; "
                              "recovery keeps the file (it is deleted only after the read loop), so every restart repeats it" % (
                                  lenv, lenv >> 20, [int(r.get("read_ms", -1)) for r in runs], [r.get("sys_growth_mib") for r in runs]),
                              {"level": "fn", "kind": "dp", "planted_length": lenv, "runs": runs})
        chk.cov["fn"]["corrupt_length_probe"] = big
    finally:
        vlib.rmtree(sc)
        vlib.rmtree(tmp)


# =========================================================================== e2e: histories

# series index -> (metric, tags).  Metric names decide the shard (xxhash(name) % number of segments); read back with wal_shard.
SERIES = [("cpu", {"a": "b"}), ("cpu", {"a": "c"}), ("mem", {"h": "x"}), ("disk", {"d": "1"}), ("net", {"n": "e", "z": "q"})]
POST = [("cpu", {"a": "b"}), ("late", {"p": "1"})]      # ingested after the first recovery


def f2hex(f):
    return "%016x" % struct.unpack(">Q", struct.pack(">d", f))[0]


def dpval(n):
    return 1000.0 + n + (n % 7) / 8.0


def history(name):
    """-> dict(steps=[...], walmax=None|bytes).  put rows are (series index, n); timestamp = T0 + 10 n, value = dpval(n)."""
    P = lambda *rows: ("put", list(rows))
    H = {
        # two WAL appends, tags + meta durable, a third append after a second meta rewrite
        "basic": [P((0, 1), (0, 2), (2, 3)), ("dp",), ("mn",), ("tt",), ("me",), P((0, 4), (3, 5)), ("dp",), ("mn",), ("tt",), ("me",),
                  P((0, 6), (2, 7)), ("dp",), ("me",)],
        # block rotation in the middle: WAL files of block 0 deleted, block 1 started
        "block": [P((0, 1), (2, 2), (1, 3)), ("dp",), ("mn",), ("tt",), ("me",), P((0, 4)), ("dp",), ("blk",), ("me",), P((0, 5), (1, 6)), ("dp",),
                  ("me",), P((2, 7)), ("blk",), ("me",)],
        # the log file is rotated after every append (size threshold 1 byte): several files per block, then a block rotation
        "walrot": [P((0, 1)), ("dp",), ("mn",), ("tt",), ("me",), P((0, 2), (2, 3)), ("dp",), P((0, 4)), ("dp",), ("me",), ("blk",), P((0, 5)), ("dp",),
                   ("me",)],
        # 12 files in one block: indexes 10 and 11 sort before 2 in the directory listing
        "lex": [P((0, 1), (2, 2)), ("dp",), ("mn",), ("tt",), ("me",)] + sum([[P((0, 3 + 2 * j), (2, 4 + 2 * j)), ("dp",)] for j in range(12)], []) + [("me",)],
        "tiny": [P((0, 1)), ("dp",), ("mn",), ("tt",), ("me",)],
        # the engine's own timers do the logging: put, wait for the real 1 s flushers, block rotation, the shards stay idle while
        # the real meta-entry timer rewrites its log (segments with flushed blocks and an empty current block), more datapoints
        "realtimers": [P((0, 1), (2, 2), (3, 3)), ("tick",), ("tt",), ("blk",), ("tick",), P((3, 4)), ("tick",), ("blk",), ("tick",)],
        # WAL_BLOCK_FLUSH_SIZE = 2: the third buffered datapoint makes appendToWALBuffer itself append the first two
        "sizeflush": [P((0, 1)), P((0, 2)), P((0, 3)), ("mn",), ("tt",), ("me",), P((0, 4)), P((2, 5)), P((0, 6)), ("me",), P((0, 7)), ("dp",), ("me",)],
        # metric names are logged before (and without) their datapoints
        "namesfirst": [P((0, 1), (2, 2)), ("mn",), ("dp",), ("tt",), ("me",), P((3, 3), (4, 4)), ("mn",), ("me",)],
        "many": [P((0, 1), (1, 2), (2, 3), (3, 4), (4, 5)), ("dp",), ("mn",), ("tt",), ("me",), P((0, 6), (1, 7), (2, 8), (3, 9), (4, 10)), ("dp",), ("me",),
                 ("blk",), ("me",), P((4, 11), (3, 12)), ("dp",), ("mn",), ("tt",), ("me",), P((0, 13)), ("dp",), ("me",)],
    }
    return {"steps": H[name], "walmax": 1 if name in ("walrot", "lex") else None, "block_dps": 2 if name == "sizeflush" else None}


STEP_OP = {"dp": "wal_dpflush", "mn": "wal_mnflush", "tt": "wal_ttflush", "me": "wal_metaflush", "blk": "mblockflush"}
# "tick": nothing is driven; the step waits until the engine's OWN 1 s timer goroutines (timeBasedMetaEntryWalFlush,
# timeBasedWalDPSFlush, timeBasedMNameWalFlush) have run - the only way a change to those loop bodies is seen (the shims above
# are copies of the bodies).  What the timers wrote is read from the recorded system calls, like everything else.
TICK_CMD = {"op": "wal_wait_ticks", "meta": 2, "timeout_ms": 8000}


def put_body(rows, series=SERIES):
    return json.dumps([{"metric": series[si][0], "tags": series[si][1], "timestamp": T0 + 10 * n, "value": dpval(n)} for si, n in rows])


def writer_script(hist, mark):
    cmds = [{"op": "init", "dir": "data"}]
    if hist["walmax"]:
        cmds.append({"op": "wal_setmax", "file_bytes": hist["walmax"]})
    if hist.get("block_dps"):
        cmds.append({"op": "wal_setmax", "block_dps": hist["block_dps"]})
    for k, st in enumerate(hist["steps"], 1):
        cmds.append({"op": "mark", "file": mark, "text": "%s.begin %d" % (st[0], k)})
        if st[0] == "put":
            cmds.append({"op": "otsdb", "body": put_body(st[1])})
        elif st[0] == "tick":
            cmds.append(dict(TICK_CMD))
        else:
            cmds.append({"op": STEP_OP[st[0]]})
        cmds.append({"op": "mark", "file": mark, "text": "%s.done %d" % (st[0], k)})
    for si, (m, tags) in enumerate(SERIES):
        cmds.append({"op": "wal_shard", "name": m})
        cmds.append({"op": "wal_tsid", "body": json.dumps({"metric": m, "tags": tags, "timestamp": 1, "value": 1})})
    cmds.append({"op": "quit"})
    return cmds


class EngineFailed(Exception):
    """the engine itself failed on a legal command of a recording run (panic / process exit): a verdict, not infrastructure"""

    def __init__(self, key, what):
        Exception.__init__(self, what)
        self.key, self.what = key, what


def record(binary, cmds, sc, cwd, tag):
    """run sigdrv once under strace with the command script on stdin; -> (parsed results per command, trace path)"""
    cp, tr, outp = os.path.join(sc, tag + ".cmds"), os.path.join(sc, tag + ".trace"), os.path.join(sc, tag + ".out")
    open(cp, "w").write("\n".join(json.dumps(c) for c in cmds) + "\n")
    full = ["strace", "-f", "-y", "-xx", "-s", "33554432", "-e", "trace=" + crashfs.TRACE_CALLS, "-o", tr, binary]
    env = dict(os.environ)
    env.pop("SIGDRV_OUT_FD", None)
    with open(cp, "rb") as fin, open(outp, "wb") as fout:
        p = subprocess.run(full, stdin=fin, stdout=fout, stderr=subprocess.DEVNULL, cwd=cwd, env=env, timeout=300)
    res = []
    for line in open(outp, errors="replace"):
        if line.startswith('{"') and '"ok"' in line:
            try:
                res.append(json.loads(line))
            except ValueError:
                pass
    for c, r in zip(cmds, res):
        if not r.get("ok"):
            if "PANIC" in str(r.get("err")):
                raise EngineFailed("engine-panic:" + c["op"], "%s run: the engine panicked in %s: %s" % (tag, c["op"], str(r.get("err"))[:600]))
            raise vlib.Infra("recording run %s: %s failed: %s" % (tag, c["op"], r.get("err")))
    if p.returncode == 2 and len(res) < len(cmds):
        raise EngineFailed("engine-died:" + cmds[len(res)]["op"], "%s run: the engine process ended by itself (rc=2) during %s" % (tag, cmds[len(res)]["op"]))
    if p.returncode != 0:
        raise vlib.Infra("recording run %s failed rc=%s" % (tag, p.returncode))
    if len(res) != len(cmds):
        raise vlib.Infra("recording run %s: %d answers for %d commands" % (tag, len(res), len(cmds)))
    return res, tr


RE_DP = re.compile(r"/wal-ts/shardID_(\d+)_segID_(\d+)_blockID_(\d+)_(\d+)\.wal$")
RE_MN = re.compile(r"/wal-ts/mname/shardID_(\d+)_segID_(\d+)_\.wal$")
RE_ME = re.compile(r"/wal-ts/metaentry/metricsMetaEntry\.wal$")
RE_ME_TMP = re.compile(r"/wal-ts/metaentry/metricsMetaEntry\.wal\.tmp$")
RE_TT = re.compile(r"/final/tth/(\d+)/(\d+)/([^/]+)$")
RE_TS = re.compile(r"/final/ts/(\d+)/(\d+)/([^/]+)$")


def op_path(o):
    return o.get("path") or o.get("dst") or ""


def op_class(o):
    p = op_path(o)
    if RE_DP.search(p):
        return "dpwal"
    if RE_MN.search(p):
        return "mnwal"
    if RE_ME.search(p):
        return "mewal"
    if RE_ME_TMP.search(p):
        return "mewal-tmp"
    if RE_TT.search(p):
        return "tagstree"
    m = RE_TS.search(p)
    if m:
        return "block-" + m.group(3).rsplit(".", 1)[-1]
    if "/suffix/" in p:
        return "suffix"
    if p.endswith("metricmeta.json"):
        return "metricmeta"
    return "other"


class Timeline:
    """Everything the oracle needs, derived from the recorded operation list (positions are 1-based: position j = the
    j-th operation has completed)."""

    def __init__(self, ops, data, hist, results, cmds):
        self.ops, self.data, self.hist = ops, data, hist
        self.n = len(ops)
        self.begin, self.done = {}, {}
        self.appends = {"dp": {}, "mn": {}}     # shard -> [(start, end, path)]
        self.me = []                            # [(start(truncate pos), end(payload pos) or None, entries or None)]
        self.tt = {}                            # (shard, key) -> [(start, end or None)]
        self.block_span = {}                    # log file -> [(offset of the length field, end offset, position of the length write)]
        st = {}                                 # log path -> {"ph": -1 version expected | 0 length | 1 crc | 2 payload, "start", "off"}
        for j, o in enumerate(ops, 1):
            p = op_path(o)
            if not p.startswith(data):
                if o["k"] == "write":
                    t = o["data"].decode().strip().split()
                    kind, which = t[0].split(".")
                    (self.begin if which == "begin" else self.done)[int(t[1])] = j
                continue
            c = op_class(o)
            if o["k"] == "rename" and RE_ME.search(o["dst"]) and RE_ME_TMP.search(o["src"]):
                # a repaired Wal.Write: the new content was written to a temporary file and is renamed over the log (atomic)
                t = st.get(o["src"]) or {}
                self.me.append([t.get("created", j), j, t.get("ents")])
                continue
            if c == "mewal-tmp":
                if o["k"] == "create":
                    st[p] = {"ph": -1, "created": j, "ents": None}
                elif o["k"] == "write":
                    f = st.setdefault(p, {"ph": -1, "created": j, "ents": None})
                    f["ph"] += 1
                    if f["ph"] == 3:
                        try:
                            f["ents"] = json.loads(o["data"].decode())
                        except ValueError:
                            pass
                continue
            if c in ("dpwal", "mnwal", "mewal"):
                if o["k"] == "create":
                    if o.get("trunc"):
                        st[p] = {"ph": -1, "start": j, "off": None}
                        if c == "mewal":
                            self.me.append([j, None, None])      # O_TRUNC create of the meta-entry log empties it too
                elif o["k"] == "truncate":
                    st[p] = {"ph": -1, "start": j, "off": None}
                    self.me.append([j, None, None])
                elif o["k"] == "write":
                    f = st.setdefault(p, {"ph": -1, "start": j, "off": None})
                    if f["ph"] == -1:
                        f["ph"] = 0                                # version byte
                    elif f["ph"] == 0:
                        f.update(ph=1, start=j, off=o["off"])      # length
                    elif f["ph"] == 1:
                        f["ph"] = 2                                # crc
                    else:
                        f["ph"] = 0                                # payload: the append is complete
                        if c == "mewal":
                            try:
                                ents = json.loads(o["data"].decode())
                            except ValueError:
                                ents = None
                            self.me[-1][1], self.me[-1][2] = j, ents
                        else:
                            m = (RE_DP if c == "dpwal" else RE_MN).search(p)
                            self.appends["dp" if c == "dpwal" else "mn"].setdefault(m.group(1), []).append((f["start"], j, p))
                            self.block_span.setdefault(p, []).append((f["off"], o["off"] + len(o["data"]), f["start"]))
            elif c == "tagstree":
                m = RE_TT.search(p)
                key = (m.group(1), m.group(3))
                if o["k"] == "create" and key not in self.tt:
                    self.tt[key] = [[j, None]]            # first creation: the tree file exists and is empty until its first write
                elif o["k"] == "truncate":
                    if self.tt.get(key) and self.tt[key][-1][1] is None:
                        pass                              # still the window opened by the creation
                    else:
                        self.tt.setdefault(key, []).append([j, None])
                elif o["k"] == "write" and self.tt.get(key):
                    self.tt[key][-1][1] = j
        # shard / tsid of every series from the recorded answers
        self.shard, self.tsid = {}, {}
        it = iter([(c, r) for c, r in zip(cmds, results) if c["op"] in ("wal_shard", "wal_tsid")])
        for si in range(len(SERIES)):
            (_, a), (_, b) = next(it), next(it)
            self.shard[si] = str(a["res"]["mid"])
            self.tsid[si] = b["res"]["tsid"]
        self.puts = {}                      # step k -> rows
        self.first_put_series, self.first_put_shard, self.first_put_name = {}, {}, {}
        for k, s in enumerate(hist["steps"], 1):
            if s[0] == "put":
                self.puts[k] = s[1]
                for si, n in s[1]:
                    self.first_put_series.setdefault(si, k)
                    self.first_put_shard.setdefault(self.shard[si], k)
                    self.first_put_name.setdefault((self.shard[si], SERIES[si][0]), k)
        for c, r in zip(cmds, results):
            if c["op"] == "otsdb" and (r["res"].get("failed") or r["res"].get("herr")):
                raise vlib.Infra("recording run: a put was rejected: %s" % r["res"])

    # -- predicates at crash point i (operations 1..i completed)
    def _after(self, k):
        return self.done.get(k, 10 ** 9)

    def dp_logged(self, si, k, i):
        return any(s > self._after(k) and e <= i for s, e, _ in self.appends["dp"].get(self.shard[si], []))

    def name_logged(self, shard, name, i):
        k = self.first_put_name[(shard, name)]
        return any(s > self._after(k) and e <= i for s, e, _ in self.appends["mn"].get(shard, []))

    def tags_state(self, si, i):
        """'durable' | 'window' (a rewrite of one of its tree files is in progress) | 'no'"""
        k = self.first_put_series.get(si)
        if k is None:
            return "no"
        res = "durable"
        if self.tags_dir_missing(i):
            res = "window"
        for (sh, key), fls in self.tt.items():
            # the query path opens the tree files of every tags-tree directory in the time range: one emptied file (of any
            # shard) fails the whole query
            fl = [f for f in fls if f[0] <= i]
            if fl and (fl[-1][1] is None or fl[-1][1] > i):
                res = "window"
        for key in SERIES[si][1]:
            fl = [f for f in self.tt.get((self.shard[si], key), []) if f[0] <= i]
            if not fl:
                return "no"
            if fl[-1][1] is None or fl[-1][1] > i:
                res = "window"
            elif not any(f[0] > self._after(k) and f[1] is not None and f[1] <= i for f in fl):
                return "no"
        return res

    def tags_dir_missing(self, i):
        """shards whose meta entry (non-empty time range) has been logged by instant i while no tags-tree flush of the shard has
        begun: the replayed entry names a tags-tree directory that does not exist, and the query path fails every query of the
        entry's time range on it (InitAllTagsTreeReader).  The tags tree is not a log (flushed every 60 s): outside C10, the
        affected crash points only demand what does not need a selector query."""
        out = set()
        for seg, en in self.meta_per_segment(i).items():
            m = re.search(r"/final/ts/(\d+)/", seg)
            if not m or en.get("earliestEpochSec", 1) > en.get("latestEpochSec", 0):
                continue
            sh = m.group(1)
            if not any(f[0] <= i for (s2, _), fls in self.tt.items() if s2 == sh for f in fls):
                out.add(sh)
        return out

    def meta_logged(self, i):
        """(entries of the last rewrite that completed by i or None, is a rewrite window open at i)"""
        last, window = None, False
        for s, e, ents in self.me:
            if s > i:
                break
            if e is not None and e <= i:
                last, window = (s, ents), False
            else:
                window = last is not None        # a logged entry exists and its file is being rewritten
        return last, window

    def meta_per_segment(self, i):
        """segment dir -> the entry of the LAST completed rewrite that listed it (its log append had completed; a later rewrite of
        the whole file that leaves a still unrotated segment out does not un-log it)"""
        out = {}
        for s, e, ents in self.me:
            if s > i:
                break
            if e is not None and e <= i and ents:
                for en in ents:
                    if isinstance(en, dict) and en.get("mSegmentDir"):
                        out[en["mSegmentDir"]] = en
        return out

    def meta_covers(self, si, i):
        last, _ = self.meta_logged(i)
        k = self.first_put_shard.get(self.shard[si])
        if last is None or k is None or last[1] is None:
            return False
        # some rewrite that began after the shard's first put has completed (its entry carries a non-empty time range)
        sh = self.shard[si]
        return any(e is not None and e <= i and s > self._after(k) and
                   any(isinstance(en, dict) and re.search(r"/final/ts/%s/" % sh, en.get("mSegmentDir", "")) for en in (ents or []))
                   for s, e, ents in self.me)

    def window(self, i):
        """semantic label of the crash point (used in violation keys)"""
        _, mew = self.meta_logged(i)
        if mew:
            return "metaentry-rewrite-window"
        kinds = {}
        for k, b in self.begin.items():
            if b <= i and self.done.get(k, 10 ** 9) > i:
                kinds[self.hist["steps"][k - 1][0]] = k
        if "blk" in kinds:
            inside = self.ops[self.begin[kinds["blk"]]:i]
            unl = [o for o in inside if o["k"] == "unlink" and op_class(o) == "dpwal"]
            made = [o for o in inside if o["k"] == "create" and op_class(o) == "dpwal"]
            flushed = [o for o in inside if o["k"] == "write" and op_class(o) == "block-tsg"]
            if unl and not flushed:
                return "block-rotation:logs-deleted-before-block-flush"
            if unl and not made:
                return "block-rotation:logs-partly-deleted"
            return "block-rotation:" + ("block-flush" if not unl else "next-log-created")
        for kind, lab in (("dp", "datapoint-append"), ("mn", "name-append"), ("tt", "tagstree-flush"), ("me", "metaentry-rewrite"), ("tick", "timer-tick"), ("put", "ingest")):
            if kind in kinds:
                return lab
        return "between-steps"

    def expectation(self, i):
        allowed, must_q, must_b, maybe_q = {}, set(), set(), set()
        for k, rows in self.puts.items():
            if self.begin.get(k, 10 ** 9) > i:
                continue
            for si, n in rows:
                allowed[(si, T0 + 10 * n)] = f2hex(dpval(n))
                if self.dp_logged(si, k, i):
                    must_b.add((si, T0 + 10 * n))
                    ts = self.tags_state(si, i)
                    if ts == "durable" and self.meta_covers(si, i):
                        must_q.add((si, T0 + 10 * n))
        names_must, names_allowed = {}, {}
        for (shard, name), k in self.first_put_name.items():
            if self.begin.get(k, 10 ** 9) <= i:
                names_allowed.setdefault(shard, set()).add(name)
                if self.name_logged(shard, name, i):
                    names_must.setdefault(shard, set()).add(name)
        flushed = set()          # datapoints that a completed block flush of the writer had put into a block file by instant i
        for k, b in self.begin.items():
            if self.hist["steps"][k - 1][0] != "blk" or b > i:
                continue
            for j in range(b, min(i, self.done.get(k, self.n))):
                o = self.ops[j]
                if o["k"] == "write" and op_class(o) == "block-tsg":
                    sh = RE_TS.search(op_path(o)).group(1)
                    for k2, rows in self.puts.items():
                        if self.done.get(k2, 10 ** 9) < b:
                            flushed |= {(si, T0 + 10 * n) for si, n in rows if self.shard[si] == sh}
        last, mew = self.meta_logged(i)
        files_per_block = {}
        for v in self.appends["dp"].values():
            for _, e, p in v:
                if e <= i:
                    m = RE_DP.search(p)
                    files_per_block.setdefault(m.group(1, 2, 3), set()).add(m.group(4))
        order_cause = "log-index-10-listed-before-2" if any(len(x) > 10 for x in files_per_block.values()) else None
        tags_window = any(f and f[-1][0] <= i and (f[-1][1] is None or f[-1][1] > i)
                          for f in ([x for x in fl if x[0] <= i] for fl in self.tt.values()))
        tags_missing = self.tags_dir_missing(i)
        tags_window = tags_window or bool(tags_missing)
        return {"order_cause": order_cause, "flushed": flushed, "tags_window": tags_window, "tags_dir_missing": sorted(tags_missing), "allowed": allowed, "must_q": must_q, "must_b": must_b, "names_must": names_must, "names_allowed": names_allowed,
                "meta": (self._needed_meta(list(self.meta_per_segment(i).values()), must_b) or None) if last else None, "meta_window": mew, "window": self.window(i)}

    def _needed_meta(self, entries, must_b):
        """the logged meta entries that must be replayed: those of segments of which at least one datapoint is recoverable
        (an entry of a segment without any block is of no use to a query; replaying it or not are both accepted)"""
        shards = {self.shard[si] for si, _ in must_b}
        out = []
        for e in entries:
            m = re.search(r"/final/ts/(\d+)/", e.get("mSegmentDir", ""))
            if m and m.group(1) in shards:
                out.append(e)
        return out


# =========================================================================== e2e: recovery + observation

def selector(si, series=SERIES):
    m, tags = series[si]
    return m + "{" + ",".join('%s="%s"' % (k, v) for k, v in sorted(tags.items())) + "}"


def observe(dr, tsid2si, series=SERIES):
    """-> dict: q[si] = {ts: hex} from the selector query, blocks[si] = [(ts, hex) ...] over all flushed blocks, names, metas"""
    o = {"q": {}, "qerr": {}, "blocks": {}, "unknown_tsids": [], "block_errs": [], "names": {}, "metas": {}}
    for si in range(len(series)):
        r = dr.ok("mquery", promql=selector(si, series), start=T0 - 100, end=T0 + 100000, step=1)
        if "qerr" in r or r.get("errs"):
            o["qerr"][si] = str(r.get("qerr") or r.get("errs"))[:300]
            continue
        got = r.get("series") or {}
        if len(got) > 1:
            o["merged"] = "%s returned %d series: %s" % (selector(si, series), len(got), sorted(got))
        pts = {}
        for gid, ps in got.items():
            for p in ps:
                pts[p[0]] = p[1]
        o["q"][si] = pts
    for b in dr.ok("wal_blocks"):
        if b.get("err"):
            o["block_errs"].append("shard %s segment %s block %s: %s" % (b["mid"], b["suffix"], b["block"], b["err"]))
        for tsid, pts in (b.get("series") or {}).items():
            si = tsid2si.get(tsid)
            if si is None:
                o["unknown_tsids"].append(tsid)
                continue
            o["blocks"].setdefault(si, []).append([(p[0], p[1]) for p in (pts or [])])
    for k, v in dr.ok("wal_mnm").items():
        shard = k.split("/")[0]
        if isinstance(v, list):
            o["names"].setdefault(shard, set()).update(v)
        else:
            o["block_errs"].append("mnm %s: %s" % (k, v))
    o["metas"] = dr.ok("wal_metas")["entries"]
    return o


def judge(o, exp, stage, tsid_ok=True):
    """compare one observation with the expectation -> list of (key suffix, what)"""
    bad = []
    w = exp["window"]
    if o.get("merged"):
        bad.append(("series-split:" + w, "%s: %s" % (stage, o["merged"])))
    for si, pts in o["q"].items():
        for ts, hx in pts.items():
            want = exp["allowed"].get((si, ts))
            if want is None:
                bad.append(("invented:" + w, "%s: %s returned a datapoint that was never put: ts=%d value=%s" % (stage, selector(si), ts, hx)))
            elif want != hx:
                bad.append(("value:" + w, "%s: %s ts=%d returned bits %s, put %s" % (stage, selector(si), ts, hx, want)))
    miss = sorted((si, ts) for (si, ts) in exp["must_q"] if ts not in o["q"].get(si, {}))
    if miss:
        errs = sorted(set(o["qerr"][si] for si, _ in miss if si in o["qerr"]))
        dangling = errs and all(".mbsu: no such file" in e for e in errs)
        bad.append(("lost:" + ("dangling-meta-entry" if dangling else w), "%s: datapoints whose WAL append, tags tree and meta entry were durable are not returned by the selector query: %s%s" % (
            stage, ["%s@%d" % (selector(si), ts) for si, ts in miss[:6]], ("; the query fails: %s" % errs[:2]) if errs else "")))
    seen = {}
    for si, blocks in o["blocks"].items():
        for pts in blocks:
            tss = [t for t, _ in pts]
            if tss != sorted(tss) or len(set(tss)) != len(tss):
                bad.append(("order:" + (exp.get("order_cause") or w), "%s: a recovered block holds series %s out of order / twice: %s" % (stage, selector(si), tss[:12])))
            for ts, hx in pts:
                want = exp["allowed"].get((si, ts))
                if want is None:
                    bad.append(("invented-block:" + w, "%s: a flushed block holds a datapoint that was never put: %s ts=%d %s" % (stage, selector(si), ts, hx)))
                elif want != hx:
                    bad.append(("value-block:" + w, "%s: block datapoint %s ts=%d has bits %s, put %s" % (stage, selector(si), ts, hx, want)))
                seen[(si, ts)] = seen.get((si, ts), 0) + 1
    behind = sorted(k for k in exp.get("forbidden", ()) if k in seen)
    if behind:
        bad.append(("replayed-behind-damage:" + w, "%s: datapoints of the damaged block / of blocks behind it in the same log file were replayed: %s" % (
            stage, ["%s@%d" % (selector(si), ts) for si, ts in behind[:6]])))
    dups = sorted(k for k, c in seen.items() if c > 1)
    if dups:
        bad.append(("dup:" + w, "%s: datapoints stored in more than one block after recovery: %s" % (stage, ["%s@%d" % (selector(si), ts) for si, ts in dups[:6]])))
    missb = sorted(k for k in exp["must_b"] if k not in seen)
    if missb:
        bad.append(("lost-block:" + w, "%s: datapoints whose WAL append had completed are in no metrics block after recovery: %s%s" % (
            stage, ["%s@%d" % (selector(si), ts) for si, ts in missb[:6]], ("; unreadable: %s" % o["block_errs"][:2]) if o["block_errs"] else "")))
    if exp.get("tags_dir_missing") and any("failed to read the base directory" in e for e in o["qerr"].values()):
        bad.append(("OBS:meta-entry-replayed-without-tags-tree-directory:" + w, "%s: the meta entries of shards %s were logged before their tags tree was ever flushed; "
                    "after the restart every selector query of their time range fails: %s" % (stage, exp["tags_dir_missing"], sorted(set(o["qerr"].values()))[0][:200])))
    gone = sorted(k for k in exp.get("flushed", ()) if k not in seen and k not in exp["must_b"])
    if gone:
        bad.append(("OBS:flushed-block-overwritten:" + w, "%s: datapoints that were in a completely flushed block at the crash (but not in a log) are gone after recovery: %s" % (
            stage, ["%s@%d" % (selector(si), ts) for si, ts in gone[:6]])))
    if o["unknown_tsids"]:
        bad.append(("invented-series:" + w, "%s: flushed blocks hold series ids that were never ingested: %s" % (stage, o["unknown_tsids"][:4])))
    for shard, names in exp["names_must"].items():
        lostn = sorted(names - o["names"].get(shard, set()))
        if lostn:
            bad.append(("lost-name:" + w, "%s: metric names whose name-log append had completed are in no .mnm file of shard %s: %s" % (stage, shard, lostn)))
    for shard, names in o["names"].items():
        extra = sorted(names - exp["names_allowed"].get(shard, set()))
        if extra:
            bad.append(("invented-name:" + w, "%s: .mnm of shard %s lists names never ingested there: %s" % (stage, shard, extra)))
    if exp["meta"]:
        for e in exp["meta"]:
            got = o["metas"].get(e["mSegmentDir"])
            if got is None:
                bad.append(("lost-meta:" + w, "%s: the meta entry of %s whose log write had completed is not replayed (metricmeta.json has %d entries)" % (
                    stage, e["mSegmentDir"], len(o["metas"]))))
                break
            if got != e:
                bad.append(("meta-differs:" + w, "%s: replayed meta entry of %s differs from the logged one: %s vs %s" % (stage, e["mSegmentDir"], got, e)))
                break
    return bad


def recover_and_check(binary, state_dir, exp, tl, label, pre_ingest=False):
    """recover a crash state on a private copy; a state on which the engine did not answer in time (machine load) is tried again"""
    for attempt in (1, 2, 3):
        work = state_dir + ".try%d" % attempt
        shutil.copytree(state_dir, work)
        try:
            return recover_and_check1(binary, work, exp, tl, label, pre_ingest)
        except vlib.Infra as e:
            if attempt == 3 or "did not answer" not in str(e):
                raise
            vlib.log("[C10] %s: %s - retrying" % (label, str(e)[:120]))
            time.sleep(2 * attempt)
        finally:
            vlib.rmtree(work)


def recover_and_check1(binary, state_dir, exp, tl, label, pre_ingest=False):
    """Fresh engine on one crash state -> list of (key suffix, what).  pre_ingest: ingest BEFORE running recovery."""
    bad = []
    dr = None
    tsid2si = {v: k for k, v in tl.tsid.items()}
    w = exp["window"]
    errp = os.path.join(state_dir, "stderr.txt")
    try:
        dr = vlib.Driver(binary, cwd=state_dir, stderr_path=errp)
        try:
            dr.ok("init", dir="data", wait_ms=100)
        except vlib.Infra as e:
            return [("startup-error:" + w, "start-up on the crash state failed: %s" % str(e)[:300])]
        post = [(0, 901), (0, 902)]           # series 0 again (new segment of its shard), later timestamps
        if pre_ingest:
            r = dr.ok("otsdb", body=put_body(post))
            if r.get("failed"):
                bad.append(("ingest-refused:" + w, "ingest before recovery was refused: %s" % r))
        try:
            dr.ok("wal_recover")
        except vlib.Infra as e:
            return bad + [("recover-error:" + w, "recovery failed: %s" % str(e)[:400])]
        dr.ok("wal_refresh")
        o1 = observe(dr, tsid2si)
        exp1 = exp
        if pre_ingest:
            exp1 = dict(exp)
            exp1["allowed"] = dict(exp["allowed"])
            for si, n in post:
                exp1["allowed"][(si, T0 + 10 * n)] = f2hex(dpval(n))
            exp1["names_allowed"] = {k: set(v) for k, v in exp["names_allowed"].items()}
            exp1["names_allowed"].setdefault(tl.shard[0], set()).add(SERIES[0][0])
            fds = dr.ok("wal_openfds")
            gone = [f for f in fds if f["deleted"]]
            if gone:
                bad.append(("open-wal-deleted:" + w, "recovery deleted log files the running process has open (its further appends go to unlinked files): %s" % (
                    sorted("%s/%s" % (f["dir"], f["path"]) for f in gone))))
        bad += judge(o1, exp1, "after restart" + (" (ingest before recovery)" if pre_ingest else ""))
        # a second recovery call in the same process must change nothing
        dr.ok("wal_recover")
        dr.ok("wal_refresh")
        o1b = observe(dr, tsid2si)
        if (o1b["q"], o1b["blocks"]) != (o1["q"], o1["blocks"]):
            bad.append(("second-recover-changes:" + w, "running the recovery functions a second time changed what is stored / returned"))
        # further ingest, everything flushed to the logs, then the process is killed
        if not pre_ingest:
            r = dr.ok("otsdb", body=put_body(post))
            if r.get("failed"):
                bad.append(("ingest-refused:" + w, "ingest after recovery was refused: %s" % r))
        for op in ("wal_dpflush", "wal_mnflush", "wal_ttflush", "wal_metaflush"):
            dr.ok(op)
        dr.kill()
        dr = vlib.Driver(binary, cwd=state_dir, stderr_path=errp)
        dr.ok("init", dir="data", wait_ms=100)
        dr.ok("wal_recover")
        dr.ok("wal_refresh")
        o2 = observe(dr, tsid2si)
        exp2 = dict(exp)
        exp2["allowed"] = dict(exp["allowed"])
        exp2["must_q"], exp2["must_b"] = set(exp["must_q"]), set(exp["must_b"])
        for si, n in post:
            exp2["allowed"][(si, T0 + 10 * n)] = f2hex(dpval(n))
        gone_fd = pre_ingest and any(k.startswith("open-wal-deleted") for k, _ in bad)
        # an emptied tags-tree file (crash inside its truncate-then-write flush; not a log, outside C10) fails every later
        # query of that shard's tree directory, the new datapoints included
        if not gone_fd and not exp.get("tags_window"):
            for si, n in post:
                exp2["must_b"].add((si, T0 + 10 * n))
                exp2["must_q"].add((si, T0 + 10 * n))
        exp2["names_allowed"] = {k: set(v) for k, v in exp["names_allowed"].items()}
        exp2["names_allowed"].setdefault(tl.shard[0], set()).add(SERIES[0][0])
        exp2["names_must"] = {k: set(v) for k, v in exp["names_must"].items()}
        exp2["meta"] = None
        # whatever the first restart returned must still be there
        for si, pts in o1["q"].items():
            for ts in pts:
                if (si, ts) in exp["allowed"]:
                    exp2["must_q"].add((si, ts))
        for si, blocks in o1["blocks"].items():
            for pts in blocks:
                for ts, _ in pts:
                    if (si, ts) in exp["allowed"]:
                        exp2["must_b"].add((si, ts))
        b2 = judge(o2, exp2, "after further ingest, kill and second restart")
        bad += [(k.replace("lost:", "lost-after-second-restart:").replace("lost-block:", "lost-block-after-second-restart:"), v) for k, v in b2]
    except vlib.DriverDead as e:
        if e.kind == "hang":
            raise vlib.Infra("engine did not answer on crash state %s: %s" % (label, e))
        tail = ""
        try:
            txt = open(errp, errors="replace").read()
            k = max(txt.rfind("panic:"), txt.rfind("fatal error:"))
            tail = " :: " + " | ".join(txt[k:k + 700].splitlines()[:8]) if k >= 0 else ""
        except OSError:
            pass
        bad.append(("engine-died:" + w, "engine process died on the crash state: %s%s" % (e, tail)))
    finally:
        if dr is not None:
            dr.kill()
    return bad


def tree(d):
    out = {}
    for dp, _, fns in os.walk(d):
        for fn in fns:
            p = os.path.join(dp, fn)
            out[os.path.relpath(p, d)] = open(p, "rb").read()
    return out


def materialise(sc, ops, data, pts, base=None, prefix="state"):
    """-> [(i, state_dir)] : state_dir/data = base (or empty) + replay of ops[0..i)"""
    work = os.path.join(sc, prefix + "-work")
    if base:
        shutil.copytree(base, work)
    rp = crashfs.Replayer(data, work)
    want, states = set(pts), []
    for i in range(len(ops) + 1):
        if i in want:
            sd = os.path.join(sc, "%s-%d" % (prefix, i))
            os.makedirs(sd)
            if os.path.exists(work):
                shutil.copytree(work, os.path.join(sd, "data"))
            else:
                os.makedirs(os.path.join(sd, "data"))
            states.append((i, sd))
        if i < len(ops):
            o = ops[i]
            if op_path(o).startswith(data):
                rp.apply(o)
    vlib.rmtree(work)
    return states


def report(chk, name, hist, tl_n, i, label, exp, bad, extra=None):
    seen = set()
    for key, what in bad:
        if key in seen:
            continue
        seen.add(key)
        if key.startswith("OBS:"):
            # outside the statement of C10 (not about logged data): recorded, never a verdict
            obs = chk.cov.setdefault("observations_outside_c10", {})
            obs.setdefault(key[4:], {"count": 0, "first": "history %s, crash after %d of %d file operations (%s): %s" % (name, i, tl_n, label, what)})["count"] += 1
            continue
        rep = {"level": "e2e", "history": name, "steps": [list(s) for s in hist["steps"]], "walmax": hist["walmax"], "crash_after_ops": i, "of": tl_n,
               "where": label, "window": exp["window"],
               "must_query": sorted("%s@%d" % (selector(si), ts) for si, ts in exp["must_q"]),
               "must_block": sorted("%s@%d" % (selector(si), ts) for si, ts in exp["must_b"])}
        if extra:
            rep.update(extra)
        chk.violation("C10:e2e:" + key, "history %s, crash after %d of %d file operations (%s): %s" % (name, i, tl_n, label, what), rep)


def run_history(chk, binary, name, quick, rnd, extras):
    hist = history(name)
    sc = vlib.scratch("c10")
    try:
        data = os.path.join(sc, "data")
        os.makedirs(data)
        mark = os.path.join(sc, "marks.txt")
        cmds = writer_script(hist, mark)
        try:
            results, tr = record(binary, cmds, sc, sc, "writer")
        except EngineFailed as e:
            chk.violation("C10:e2e:" + e.key, "history %s: %s" % (name, e.what), {"level": "e2e", "history": name, "steps": [list(x) for x in hist["steps"]],
                                                                                     "walmax": hist["walmax"], "block_dps": hist.get("block_dps")})
            return
        ops, unsup = crashfs.parse(tr, [data, mark])
        if unsup:
            raise vlib.Infra("writer used file operations the replayer does not model: %s" % unsup)
        os.unlink(tr)
        full = os.path.join(sc, "full")
        rp = crashfs.Replayer(data, full)
        for o in ops:
            if op_path(o).startswith(data):
                rp.apply(o)
        ta, tb = tree(full), tree(data)
        if ta != tb:
            diff = sorted(set(ta) ^ set(tb)) + [k for k in ta if k in tb and ta[k] != tb[k]]
            raise vlib.Infra("replay of the recorded system calls does not reproduce the real directory (history %s): %s" % (name, diff[:6]))
        tl = Timeline(ops, data, hist, results, cmds)
        n = len(ops)
        first = min(tl.begin.values())
        pts = list(range(n + 1))
        if quick:
            keep = {0, n, first}
            for i in range(first, n + 1):
                a = ops[i - 1]
                if op_class(a) in ("dpwal", "mnwal", "mewal", "tagstree") or op_class(a).startswith("block-") or (op_path(a) == mark and i % 3 == 0):
                    keep.add(i)
            rest = [i for i in pts if i not in keep]
            keep |= set(rnd.sample(rest, min(len(rest), 10)))
            pts = sorted(keep)
        states = materialise(sc, ops, data, pts)

        def one(st):
            i, sd = st
            try:
                return recover_and_check(binary, sd, tl.expectation(i), tl, "%s@%d" % (name, i))
            finally:
                vlib.rmtree(sd)
        results_ = vlib.pmap(one, states, workers=WORKERS)
        labels = set()
        for (i, sd), bad in zip(states, results_):
            exp = tl.expectation(i)
            last = ops[i - 1] if i > 0 else None
            label = ("after %s:%s" % (last["k"], op_class(last))) if last else "start"
            labels.add((exp["window"], label))
            chk.replayed(1)
            chk.count(("crash", name, exp["window"], label), nontrivial=bool(exp["must_b"] or exp["names_must"] or exp["meta"]))
            report(chk, name, hist, n, i, label, exp, bad)
        chk.cov.setdefault("histories", {})[name] = {"file_operations": n, "crash_states_recovered": len(states), "distinct_windows": len(labels),
                                                       "wal_appends": sum(len(v) for v in tl.appends["dp"].values()),
                                                       "meta_rewrites": len(tl.me), "shards": sorted(set(tl.shard.values()))}
        if len(chk.cov["samples"]) < 4:
            i = pts[len(pts) * 2 // 3]
            exp = tl.expectation(i)
            chk.sample({"kind": "crash-state", "history": name, "steps": [list(s) for s in hist["steps"]], "crash_after_ops": i, "of": n,
                        "window": exp["window"], "must_query": sorted("%s@%d" % (selector(si), ts) for si, ts in exp["must_q"]),
                        "must_block": len(exp["must_b"]), "names_must": {k: sorted(v) for k, v in exp["names_must"].items()}})
        # ---- crash states of the recovery run itself, and ingest before recovery, on chosen states of this history
        for what, at in extras:
            i = n if at == "end" else max(e for v in tl.appends["dp"].values() for _, e, _ in v if e <= n)
            base_states = materialise(sc, ops, data, [i], prefix="base")
            base = base_states[0][1]
            exp = tl.expectation(i)
            if what == "recovery-crash":
                run_recovery_crash(chk, binary, sc, base, name, hist, tl, i, exp, quick, rnd)
            elif what == "log-damage":
                run_corruption(chk, binary, sc, base, name, hist, tl, i, exp)
            elif what == "ingest-before-recovery":
                exp = dict(exp, window="ingest-before-recovery")
                bad = recover_and_check(binary, base, exp, tl, "%s@%d/pre" % (name, i), pre_ingest=True)
                chk.replayed(1)
                chk.count(("startup-race", name, i), nontrivial=True)
                report(chk, name, hist, n, i, "restart, ingest, then recovery", exp, bad, {"scenario": "ingest-before-recovery"})
            vlib.rmtree(base)
    finally:
        vlib.rmtree(sc)


def run_corruption(chk, binary, sc, base, name, hist, tl, i, exp0):
    """damage one byte / cut inside each region of each block of the datapoint log with the most blocks in crash state
    `base`, then restart: blocks before the damage are replayed, the damaged block and what follows it in that file are not"""
    cands = [(p, sp) for p, sp in tl.block_span.items()
             if RE_DP.search(p) and os.path.exists(os.path.join(base, "data", os.path.relpath(p, tl.data)))]      # not deleted by a block rotation
    if not cands:
        return
    path, spans = max(cands, key=lambda x: len([1 for y in x[1] if y[2] <= i]))
    spans = [sp for sp in spans if sp[2] <= i]
    shard = RE_DP.search(path).group(1)
    rel = os.path.relpath(path, tl.data)
    # datapoints per block of that file, from the put history: block b holds the shard's datapoints put between append b-1 and b
    apps = [a for a in tl.appends["dp"][shard] if a[2] == path and a[1] <= i]
    allapps = sorted(a for a in tl.appends["dp"][shard] if a[1] <= i)
    per_block = []
    for a in apps:
        prev = max([x[0] for x in allapps if x[0] < a[0]] or [0])
        dps = set()
        for k, rows in tl.puts.items():
            if prev < tl.done.get(k, 10 ** 9) < a[0] or (prev == 0 and tl.done.get(k, 10 ** 9) < a[0]):
                if not any(x[0] > tl.done[k] and x[0] < a[0] for x in allapps):
                    dps |= {(si, T0 + 10 * n) for si, n in rows if tl.shard[si] == shard}
        per_block.append(dps)
    cases = []
    for b, (off, end, _) in enumerate(spans):
        for region, at in (("len", off + 1), ("crc", off + 5), ("payload", (off + 8 + end) // 2)):
            for mut in ("flip", "truncate"):
                cases.append((b, region, at, mut))
    states = []
    for ci, (b, region, at, mut) in enumerate(cases):
        sd = os.path.join(sc, "corrupt-%d" % ci)
        shutil.copytree(base, sd)
        fp = os.path.join(sd, "data", rel)
        raw = bytearray(open(fp, "rb").read())
        if mut == "flip":
            raw[at] ^= 0x40
        else:
            raw = raw[:at]
        open(fp, "wb").write(bytes(raw))
        states.append((ci, sd))

    def one(st):
        ci, sd = st
        b, region, at, mut = cases[ci]
        lostset = set().union(*per_block[b:])
        e = dict(exp0, window="log-damaged:%s-in-%s" % (mut, region))
        e["must_b"] = set(exp0["must_b"]) - lostset
        e["must_q"] = set(exp0["must_q"]) - lostset
        e["forbidden"] = lostset
        e["meta"] = tl._needed_meta(exp0["meta"] or [], e["must_b"]) or None
        try:
            return e, recover_and_check(binary, sd, e, tl, "%s@%d/corrupt%d" % (name, i, ci))
        finally:
            vlib.rmtree(sd)
    res = vlib.pmap(one, states, workers=WORKERS)
    for (ci, sd), (e, bad) in zip(states, res):
        b, region, at, mut = cases[ci]
        chk.replayed(1)
        chk.count(("e2e-damage", name, region, mut, b), nontrivial=True)
        report(chk, name, hist, tl.n, i, "then %s at byte %d (%s of block %d of %d) of %s" % (mut, at, region, b + 1, len(spans), os.path.basename(path)), e, bad,
               {"scenario": "log-damaged", "file": rel, "mutation": mut, "offset": at, "region": region, "block": b})
    chk.cov.setdefault("e2e_damage", {})["%s@%d" % (name, i)] = {"file": os.path.basename(path), "blocks": len(spans), "cases": len(cases)}


def rec_phase(rops, j):
    """which of the three recovery functions the crash interrupts (from the files touched so far)"""
    ph = "before-first-log"
    for o in rops[:j]:
        c = op_class(o)
        if c in ("dpwal",) or (c.startswith("block-") and c != "block-mnm"):
            ph = "datapoint-logs"
        elif c in ("mnwal", "block-mnm"):
            ph = "name-logs"
        elif c == "metricmeta":
            ph = "meta-entries"
    if j >= len(rops) - 1 and ph == "meta-entries":
        ph = "finished"
    return ph


def run_recovery_crash(chk, binary, sc, base, name, hist, tl, i, exp, quick, rnd):
    """record the recovery of crash state `base` under strace; every prefix of ITS file operations is a crash state again"""
    rdir = os.path.join(sc, "rec-%d" % i)
    shutil.copytree(base, rdir)
    data = os.path.join(rdir, "data")
    mark = os.path.join(rdir, "marks.txt")
    cmds = [{"op": "init", "dir": "data", "wait_ms": 100}, {"op": "mark", "file": mark, "text": "rec.begin 1"}, {"op": "wal_recover"},
            {"op": "mark", "file": mark, "text": "rec.done 1"}, {"op": "quit"}]
    before = os.path.join(sc, "rec-before-%d" % i)
    shutil.copytree(os.path.join(base, "data"), before)
    try:
        _, tr = record(binary, cmds, sc, rdir, "recovery-%d" % i)
    except EngineFailed as e:
        chk.violation("C10:e2e:" + e.key, "history %s, crash after %d file operations, then restart: %s" % (name, i, e.what),
                      {"level": "e2e", "history": name, "steps": [list(x) for x in hist["steps"]], "crash_after_ops": i, "scenario": "recovery"})
        return
    ops, unsup = crashfs.parse(tr, [data, mark])
    if unsup:
        raise vlib.Infra("recovery used file operations the replayer does not model: %s" % unsup)
    os.unlink(tr)
    rops = [o for o in ops]
    n = len(rops)
    pts = list(range(n + 1))
    if quick and n > 40:
        keep = {0, n} | {j for j in range(1, n + 1) if op_class(rops[j - 1]) in ("dpwal", "mnwal") or op_class(rops[j - 1]).startswith("block-")}
        rest = [j for j in pts if j not in keep]
        keep |= set(rnd.sample(rest, min(len(rest), 8)))
        pts = sorted(keep)
    states = materialise(sc, rops, data, pts, base=before, prefix="rstate-%d" % i)
    # fidelity: full replay on top of the state = what the real recovery left
    vlib.rmtree(before)

    def one(st):
        j, sd = st
        try:
            e2 = dict(exp)
            e2["window"] = "crash-during-recovery:" + rec_phase(rops, j)
            return e2, recover_and_check(binary, sd, e2, tl, "%s@%d/rec%d" % (name, i, j))
        finally:
            vlib.rmtree(sd)
    res = vlib.pmap(one, states, workers=WORKERS)
    for (j, sd), (e2, bad) in zip(states, res):
        chk.replayed(1)
        chk.count(("recovery-crash", name, i, e2["window"]), nontrivial=True)
        report(chk, name, hist, tl.n, i, "then crash of the recovering process after %d of its %d file operations" % (j, n), e2, bad,
               {"scenario": "crash-during-recovery", "recovery_crash_after_ops": j, "recovery_ops": n})
    chk.cov.setdefault("recovery_runs", {})["%s@%d" % (name, i)] = {"file_operations": n, "crash_states_recovered": len(states)}
    vlib.rmtree(rdir)


def ingest_possible_before_recovery():
    """Is the interleaving 'restarted process ingests before recovery ran' possible in the code under test?
    cmd/startup/startup.go startIngestServer starts the listener goroutine and calls the three Recover* functions; the
    interleaving exists iff the goroutine is started BEFORE the calls (sigdrv forces the order itself, so this is read
    from the source of the tree under test)."""
    src = open(os.path.join(vlib.REPO, "cmd", "startup", "startup.go")).read()
    a = src.find("func startIngestServer(")
    if a < 0:
        raise vlib.Infra("startIngestServer not found in cmd/startup/startup.go")
    b = src.find("\nfunc ", a + 10)
    body = src[a:b if b > 0 else len(src)]
    g, r = body.find("go func()"), body.find("metrics.RecoverWALData()")
    if g < 0 or r < 0:
        raise vlib.Infra("startIngestServer: listener goroutine or RecoverWALData call not found")
    return g < r


def run(chk):
    quick = chk.tier == "quick"
    only = os.environ.get("C10_ONLY", "model,fn,e2e").split(",")      # development aid; the full check runs all three parts
    t0 = time.time()
    if "model" in only:
        run_model(chk, quick)
    vlib.log("[C10] model %.0fs" % (time.time() - t0))
    t0 = time.time()
    if "fn" in only:
        run_fn(chk, quick)
    vlib.log("[C10] fn %.0fs" % (time.time() - t0))
    if "e2e" not in only:
        return
    binary = vlib.build_driver()
    rnd = random.Random(chk.seed)
    plan = [("basic", [("recovery-crash", "end"), ("ingest-before-recovery", "end"), ("log-damage", "end")]), ("walrot", []), ("sizeflush", []), ("namesfirst", []), ("realtimers", [])]
    if not quick:
        plan = [("basic", [("recovery-crash", "end"), ("ingest-before-recovery", "end"), ("recovery-crash", "lastappend"), ("log-damage", "end")]),
                ("block", [("recovery-crash", "end")]), ("walrot", [("recovery-crash", "end"), ("ingest-before-recovery", "end")]),
                ("lex", [("recovery-crash", "end")]), ("tiny", []), ("many", [("ingest-before-recovery", "end"), ("log-damage", "end")]),
                ("sizeflush", [("recovery-crash", "end")]), ("namesfirst", [("recovery-crash", "end")]), ("realtimers", [("recovery-crash", "end")])]
    race = ingest_possible_before_recovery()
    chk.cov["ingest_before_recovery_reachable"] = race
    if not race:
        plan = [(nm, [e for e in ex if e[0] != "ingest-before-recovery"]) for nm, ex in plan]
    for name, extras in plan:
        t0 = time.time()
        run_history(chk, binary, name, quick, rnd, extras)
        vlib.log("[C10] history %s %.0fs" % (name, time.time() - t0))
    if quick:
        run_lex_final(chk, binary)
    t0 = time.time()
    run_concurrent(chk, binary, quick, rnd)
    vlib.log("[C10] concurrent shards %.0fs" % (time.time() - t0))
    chk.assumptions += [
        "process-crash model: a completed system call is durable, the call in flight at the crash is not applied, writes are not torn",
        "crash points are those of the recorded runs; strace sees every file-system mutating call (verified per run: full replay == real directory)",
        "a WAL append counts as completed when its third write call returned; a datapoint is expected from a selector query only if, in addition, a "
        "tags-tree flush after the series' first put and a meta-entry rewrite after the shard's first put had completed (and no tags-tree rewrite was in progress)",
        "CRC32 collisions are not constructed: a flipped byte is expected to be detected",
    ]
    chk.describe(rule="fn: every TLC-enumerated append history x every truncation length x byte flips (all offsets x 3 masks, 256 values at region edges); "
                      "distinct = (encoder, mutation, region, outcome) classes.  e2e: every prefix of the recorded file operations of each writer history "
                      "(thorough) / every prefix ending in a log, tags-tree or block-file operation + a seeded sample (quick), plus every prefix of the recorded "
                      "recovery run and the ingest-before-recovery scenario; non-trivial = a state in which at least one log append had completed",
                 exhaustive=not quick)


# =========================================================================== e2e: several shards ingested concurrently

CONC_T0 = 1_700_100_000
MAX_SANE_COUNT = 1_000_000      # a block that announces more datapoints than this is not given to the real reader (24 B each)


def conc_value(g, i):
    return f2hex(g * 1000000 + i + 0.5)


def run_concurrent_round(binary, rnd_no, block_dps, n, flush_every_us, race_binary=None):
    """One round: fresh engine, one goroutine per shard ingests through the real OpenTSDB handler into ITS shard (metric names
    chosen so that they hash to different segments), the WAL buffer size is `block_dps` so that appendToWALBuffer appends from
    the ingest goroutines, the flusher's loop body runs concurrently.  Then the process is killed and
      (a) every datapoint log is read back with the real DPWalIterator: it must hold exactly what its shard appended, in order;
      (b) restart + Recover* + refresh: every series has exactly its datapoints, in blocks and through the selector query.
    -> (list of (key, what, detail), info)"""
    bad, info = [], {"round": rnd_no, "block_dps": block_dps, "n": n}
    sc = vlib.scratch("c10conc")
    dr = None
    try:
        errp = os.path.join(sc, "stderr.txt")
        dr = vlib.Driver(race_binary or binary, cwd=sc, stderr_path=errp)
        dr.ok("init", dir="data", wait_ms=50)
        dr.ok("wal_setmax", block_dps=block_dps)
        byshard, nshards, k = {}, None, 0
        while k < 2000 and (nshards is None or len(byshard) < nshards):
            nm = "cs%d" % k
            byshard.setdefault(str(dr.ok("wal_shard", name=nm)["mid"]), nm)
            if nshards is None:
                nshards = len(dr.ok("wal_states"))
            k += 1
        if nshards is None or len(byshard) < nshards:
            raise vlib.Infra("could not find a metric name for every one of the %s metrics segments" % nshards)
        shards = sorted(byshard)
        info["shards"] = nshards
        if nshards < 2:
            info["skipped"] = "the engine runs a single metrics segment here: no concurrent appends of different shards"
            return bad, info
        groups = [[{"metric": byshard[sh], "tags": {"g": str(g), "v": "0"}}, {"metric": byshard[sh], "tags": {"g": str(g), "v": "1"}}] for g, sh in enumerate(shards)]
        tsid = {}
        for g, grp in enumerate(groups):
            for j, se in enumerate(grp):
                tsid[(g, j)] = dr.ok("wal_tsid", body=json.dumps({"metric": se["metric"], "tags": se["tags"], "timestamp": 1, "value": 1}))["tsid"]
        try:
            r = dr.ok("wal_conc_ingest", groups=groups, n=n, t0=CONC_T0, flush_every_us=flush_every_us, timeout_ms=90000, timeout=150)
        except vlib.DriverDead as e:
            if e.kind == "hang":
                raise vlib.Infra("concurrent ingest round did not answer: %s" % e)
            txt = open(errp, errors="replace").read()
            kx = max(txt.rfind("panic:"), txt.rfind("fatal error:"))
            first_trace = txt[kx:].split("\n\ngoroutine ", 2)
            first_trace = "\n\ngoroutine ".join(first_trace[:2]) if kx >= 0 else ""
            if not re.search(r"metrics/wal\.|appendToWALBuffer|VerifWalDPSFlushOnce|rotateWAL|initNewDpWal", first_trace):
                # the process ended for a reason outside the log code (e.g. an unsynchronised map elsewhere in the ingest path):
                # not a statement about the logs, and timing dependent
                raise vlib.Infra("the engine died during the concurrent ingest, outside the WAL code (not a C10 verdict): %s" % " | ".join(first_trace.splitlines()[:10]))
            return [("engine-died-during-ingest", "the engine process died while %d goroutines ingested into %d shards: %s :: %s" % (
                len(groups), nshards, e, " | ".join(txt[kx:kx + 600].splitlines()[:8]) if kx >= 0 else ""), {})], info
        info["elapsed_ms"], info["flusher_iterations"] = r["elapsed_ms"], r["flusher_iterations"]
        panics = [(g, p) for g, gr in enumerate(r["goroutines"]) for p in (gr.get("panics") or [])] + [("flusher", p) for p in r.get("flusher_panics") or []]
        if str(r.get("final_flush", "")).startswith("PANIC"):
            panics.append(("final flush", r["final_flush"]))
        if panics:
            bad.append(("ingest-panic", "the WAL append path panicked while %d goroutines ingested into %d different shards: %s" % (
                len(groups), nshards, ["%s: %s" % (g, p[:300]) for g, p in panics[:3]]), {"panics": panics[:6]}))
        if r["hang"]:
            if panics:
                return bad, info          # a panic left a lock held: the verdict is the panic
            raise vlib.Infra("concurrent ingest round hung without a panic (machine load?): %s" % json.dumps(r)[:300])
        errs = [e for gr in r["goroutines"] for e in (gr.get("errors") or [])] + (r.get("flusher_errors") or [])
        if errs or r.get("final_flush") not in ("ok",) and not panics:
            bad.append(("append-error", "WAL appends / puts failed while %d goroutines ingested into %d different shards: %s" % (
                len(groups), nshards, (errs or [r.get("final_flush")])[:3]), {"errors": errs[:6]}))
        # what every shard appended, in its order
        expected, owner = {}, {}
        for g, sh in enumerate(shards):
            rej = set(r["goroutines"][g].get("rejected_idx") or [])
            seq = [(tsid[(g, i % 2)], CONC_T0 + i, conc_value(g, i)) for i in range(n) if i not in rej]
            expected[sh] = seq
            for it in seq:
                owner[it] = sh
        for op in ("wal_mnflush", "wal_ttflush", "wal_metaflush"):
            dr.ok(op)
        if race_binary:
            dr.kill()
            txt = open(errp, errors="replace").read()
            info["race_reports"] = txt.count("WARNING: DATA RACE")
            reports = [blk.split("==================")[0] for blk in txt.split("WARNING: DATA RACE")[1:]]
            info["race_reports_in_wal_code"] = len([1 for blk in reports if "metrics/wal" in blk])
            info["race_report_sites"] = sorted(set(" / ".join(re.findall(r"siglens/pkg/([\w/.()*]+)\(", blk)[:2]) for blk in reports))[:8]
            return bad, info
        dr.kill()
        # ---- (a) crash, then every datapoint log read back with the real iterator
        dr = vlib.Driver(binary, cwd=sc, stderr_path=errp)
        dr.ok("init", dir="data", wait_ms=50)
        files = [f["path"] for f in dr.ok("wal_files") if RE_DP.search("/wal-ts/" + f["path"])]
        unsafe, blocks_total = False, 0
        seen_shards = set()
        for fpath in sorted(files):
            sh = RE_DP.search("/wal-ts/" + fpath).group(1)
            seen_shards.add(sh)
            full = os.path.join("data", "vm.test-uuid", "wal-ts", fpath)
            host = [d for d in os.listdir(os.path.join(sc, "data")) if os.path.isdir(os.path.join(sc, "data", d, "wal-ts"))]
            full = os.path.join("data", host[0], "wal-ts", fpath)
            scan = dr.ok("wal_scan", file=full)
            blocks_total += len(scan["blocks"])
            huge = [b for b in scan["blocks"] if b.get("crc_ok") and b.get("zstd_ok") and b.get("count", 0) > MAX_SANE_COUNT]
            exp = expected.get(sh, [])
            if huge:
                unsafe = True
                bad.append(("appended-block-garbage", "log %s of shard %s: a block with a VALID checksum announces %d datapoints (the shard buffered at most %d per append): "
                            "the bytes written are not the block the shard encoded; the real reader would allocate %d MiB for it" % (
                                fpath, sh, huge[0]["count"], block_dps, huge[0]["count"] * 24 >> 20), {"file": fpath, "block": huge[0]}))
                continue
            try:
                d = dr.ok("wal_dump", file=full, kind="dp", timeout=120)
            except vlib.Infra as e:
                if "PANIC" in str(e):
                    bad.append(("reader-panic", "log %s of shard %s, written by the engine itself: the real iterator panicked: %s" % (fpath, sh, str(e)[:400]), {"file": fpath}))
                    continue
                raise
            items = [tuple(x) for x in d.get("items") or []]
            mism = next((p for p, (a, b) in enumerate(zip(items, exp)) if a != b), None)
            if mism is None and len(items) > len(exp):
                mism = len(exp)
            if mism is not None:
                it = items[mism]
                if it in owner and owner[it] != sh:
                    key, how = "foreign-shard-datapoint", "a datapoint that shard %s appended" % owner[it]
                elif it in owner:
                    key, how = "out-of-order", "a datapoint of this shard, but not the one appended at that position"
                else:
                    key, how = "never-written-datapoint", "a datapoint nobody ever put"
                bad.append((key, "log %s of shard %s: replayed datapoint #%d is %s = %s; the shard appended %s there (%d of %d replayed items differ)" % (
                    fpath, sh, mism, list(it), how, list(exp[mism]) if mism < len(exp) else "nothing", sum(1 for a, b in zip(items, exp) if a != b) + max(0, len(items) - len(exp)), len(items)),
                    {"file": fpath, "position": mism, "replayed": list(it), "appended": list(exp[mism]) if mism < len(exp) else None}))
            if len(items) < len(exp) and mism is None:
                bad.append(("appended-not-replayed", "log %s of shard %s: all %d appends had completed but the real iterator replays only the first %d of %d datapoints%s" % (
                    fpath, sh, len(scan["blocks"]), len(items), len(exp), (" and stops with: %s" % d["err"]) if d.get("err") else ""), {"file": fpath, "err": d.get("err"), "scan_bad": [
                        b for b in scan["blocks"] if not (b.get("crc_ok") and b.get("zstd_ok") and b.get("consistent"))][:3]}))
        info["log_blocks"] = blocks_total
        for sh in shards:
            if sh not in seen_shards and expected[sh]:
                bad.append(("appended-not-replayed", "shard %s appended %d datapoints but has no datapoint log" % (sh, len(expected[sh])), {}))
        if unsafe or any(kx in ("reader-panic",) for kx, _, _ in bad):
            info["recovery"] = "not run: a log block announces more than %d datapoints (the real recovery would allocate gigabytes)" % MAX_SANE_COUNT
            return bad, info
        # ---- (b) recovery
        try:
            dr.ok("wal_recover", timeout=120)
        except vlib.Infra as e:
            bad.append(("recovery-panic", "recovery of logs written by %d concurrently ingested shards failed: %s" % (nshards, str(e)[:400]), {}))
            return bad, info
        dr.ok("wal_refresh")
        by_tsid = {}
        for b in dr.ok("wal_blocks"):
            if b.get("err"):
                bad.append(("recovered-block-unreadable", "recovered block of shard %s: %s" % (b["mid"], b["err"]), {}))
            for t, pts in (b.get("series") or {}).items():
                by_tsid.setdefault(t, []).extend((p[0], p[1]) for p in (pts or []))
        known = {v: k for k, v in tsid.items()}
        stray = sorted(t for t in by_tsid if t not in known)
        if stray:
            bad.append(("recovered-unknown-series", "recovered blocks hold %d series ids that were never ingested, e.g. %s" % (len(stray), stray[:3]), {}))
        for (g, j), t in sorted(tsid.items()):
            want = [(CONC_T0 + i, conc_value(g, i)) for i in range(n) if i % 2 == j and i not in set(r["goroutines"][g].get("rejected_idx") or [])]
            got = by_tsid.get(t, [])
            if got != want:
                extra = [x for x in got if x not in set(want)]
                bad.append(("recovered-differs", "shard %s series %s: recovery stored %d datapoints, %d were appended; %d stored ones were never appended to it (first: %s)" % (
                    shards[g], selector(0, [(groups[g][j]["metric"], groups[g][j]["tags"])]), len(got), len(want), len(extra), extra[:2]), {}))
                break
        for (g, j), t in sorted(tsid.items()):
            se = [(groups[g][j]["metric"], groups[g][j]["tags"])]
            q = dr.ok("mquery", promql=selector(0, se), start=CONC_T0 - 10, end=CONC_T0 + n + 10, step=1)
            pts = {p[0]: p[1] for ps in (q.get("series") or {}).values() for p in ps}
            want = {CONC_T0 + i: conc_value(g, i) for i in range(n) if i % 2 == j and i not in set(r["goroutines"][g].get("rejected_idx") or [])}
            if pts != want:
                bad.append(("query-after-recovery-differs", "shard %s %s: the selector query after recovery returns %d datapoints, %d were appended (%d wrong or foreign)%s" % (
                    shards[g], selector(0, se), len(pts), len(want), len([1 for k2, v in pts.items() if want.get(k2) != v]), ("; " + str(q.get("qerr") or q.get("errs"))[:200]) if (q.get("qerr") or q.get("errs")) else ""), {}))
                break
        return bad, info
    except vlib.DriverDead as e:
        if e.kind == "hang":
            raise vlib.Infra("engine did not answer in the concurrent-shards scenario: %s" % e)
        bad.append(("engine-died", "engine process died in the concurrent-shards scenario (reading back / recovering logs it wrote itself): %s" % e, {}))
        return bad, info
    finally:
        if dr is not None:
            dr.kill()
        vlib.rmtree(sc)


def run_concurrent(chk, binary, quick, rnd):
    rounds = [(50, 3000, 300), (rnd.choice([16, 24, 32, 80, 120]), rnd.choice([2000, 3000, 4000]), rnd.choice([100, 300, 1000]))]
    if not quick:
        rounds += [(rnd.choice([20, 40, 64, 100, 200]), rnd.choice([3000, 5000]), rnd.choice([100, 500, 2000])) for _ in range(4)]
        rounds += [(10000, 25000, 1000)]            # the real buffer size: two size-triggered appends per shard + timer appends
    infos = []
    for no, (bd, n, fe) in enumerate(rounds):
        bad, info = run_concurrent_round(binary, no, bd, n, fe)
        infos.append(info)
        chk.replayed(1)
        chk.count(("concurrent-shards", bd, n), nontrivial=not info.get("skipped"))
        seen = set()
        for key, what, detail in bad:
            if key in seen:
                continue
            seen.add(key)
            rep = {"level": "e2e", "scenario": "concurrent-shards", "wal_block_flush_size": bd, "datapoints_per_goroutine": n, "flusher_every_us": fe,
                   "goroutines": info.get("shards"), "value_of_datapoint": "g*1e6+i+0.5, timestamp %d+i, series i%%2 of goroutine g" % CONC_T0}
            rep.update(detail)
            chk.violation("C10:conc:" + key, "concurrent shards (buffer %d datapoints, %d per goroutine, %s goroutines): %s" % (bd, n, info.get("shards"), what), rep)
    chk.cov["concurrent_shards"] = infos
    if not quick:
        # evidence only: the same scenario on a -race build (never a verdict)
        try:
            rb = vlib.build_driver(race=True)
            _, info = run_concurrent_round(binary, 99, 50, 1500, 300, race_binary=rb)
            chk.cov["concurrent_shards_race_build"] = {k: info.get(k) for k in ("race_reports", "race_reports_in_wal_code", "race_report_sites", "elapsed_ms", "shards")}
        except (vlib.Infra, vlib.DriverDead, OSError) as e:
            chk.cov["concurrent_shards_race_build"] = {"unavailable": str(e)[:200]}


def run_lex_final(chk, binary):
    """quick tier: only the final state of the 12-files-per-block history (index 10, 11 listed before 2)"""
    name = "lex"
    hist = history(name)
    sc = vlib.scratch("c10")
    try:
        data = os.path.join(sc, "data")
        os.makedirs(data)
        mark = os.path.join(sc, "marks.txt")
        cmds = writer_script(hist, mark)
        results, tr = record(binary, cmds, sc, sc, "writer")
        ops, unsup = crashfs.parse(tr, [data, mark])
        os.unlink(tr)
        tl = Timeline(ops, data, hist, results, cmds)
        n = len(ops)
        sd = os.path.join(sc, "final")
        os.makedirs(sd)
        shutil.copytree(data, os.path.join(sd, "data"))
        exp = tl.expectation(n)
        bad = recover_and_check(binary, sd, exp, tl, "lex@end")
        chk.replayed(1)
        chk.count(("crash", name, "final"), nontrivial=True)
        report(chk, name, hist, n, n, "end of history (12 log files in block 0)", exp, bad)
        chk.cov.setdefault("histories", {})[name] = {"file_operations": n, "crash_states_recovered": 1,
                                                       "wal_files_in_block": len(set(p for v in tl.appends["dp"].values() for _, _, p in v))}
    finally:
        vlib.rmtree(sc)


def replay(chk, path):
    d = json.load(open(path))
    print(json.dumps(d, indent=1)[:6000])
    return 0
