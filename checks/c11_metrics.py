"""C11 for the METRICS store (called from c11.py): concurrent puts, block flushes, block / segment rotations and
queries on the real engine (harness op mvis_stress) + the model spec/MetricsVisibility.tla.

Model   spec/MetricsVisibility.tla: the three steps of a put (series lookup under the read lock / append / accounting),
        BlockFlush, SegRotate (the segment is in NEITHER list until the query side's 5 s MetaRefresh), Restart, and the
        five steps of a query (rotated list, unrotated snapshot, rotated blocks, in-memory block with the block-number
        test, flushed blocks).  TLC: NoDup, NoInvent, NoLoss (lower bound = put returned before the query began, minus the
        datapoints of a segment that was in the refresh window during the query), NoQueryError, QuiescentEq, StoredOnce.
        Must-violate configs: the pinned put path (lookup and append in different critical sections: QuiescentEq, NoLoss),
        accounting after the lock (empty block flushed, reader cannot read it: NoQueryError), no refresh-window exemption
        (NoLoss).
Stress  K series over all shards, value = series*1e6 + index + 0.5, ts = T0 + index; putters, a millisecond "timer" flush
        (one iteration of timeBasedMetricsFlush), size rotations of one shard (one iteration of timeBasedRotate: block only
        or block + segment), queriers (raw selector, sum by (s), sum, count over all time); every answer is checked against
        the bounds documented in harness/sigdrv/mvisstress.go; watchdog; at quiescence (every rotated segment loaded by the
        refresh loop) the contents must be exactly what was put, and again after the shutdown rotation + restart.
Verdicts: only answers that contradict the bounds (which are derived from what the code guarantees, see docs/C11-metrics.md),
        a dead process, or a stall are violations; a refresh that does not come within 30 s and a driver that does not answer
        are infrastructure errors.
"""
import os
import re

import vlib

WORKERS = min(8, vlib.NCPU)


def form_of(text):
    t = (text or "").replace(" ", "")
    if t.startswith("sumby"):
        return "sumby"
    if t.startswith("sum("):
        return "sum"
    if t.startswith("count("):
        return "count"
    return "raw" if t else "stress"


def first_frames(path, n=14):
    """the panic / fatal message and the first stack frames from the process' stderr"""
    try:
        txt = open(path, errors="replace").read()
    except OSError:
        return "(no stderr captured)"
    m = re.search(r"^(panic:|fatal error:|unexpected fault|SIGSEGV|runtime:)", txt, re.M)
    if m:
        txt = txt[m.start():]
    lines = [l for l in txt.splitlines() if l.strip()]
    return "\n".join(lines[:n])[:3000]


def one(binary, case):
    d = vlib.scratch("c11m")
    errp = os.path.join(d, "stderr.txt")
    dr = None
    try:
        dr = vlib.Driver(binary, env={"SIGDRV_GOMAXPROCS": str(case["procs"])}, stderr_path=errp)
        dr.ok("init", dir=d)
        r = dr.ok("mvis_stress", series=case["series"], metrics=case["metrics"], ms=case["ms"], seed=case["seed"],
                  queriers=case["queriers"], putters=case["putters"], seg_every=case["seg_every"], prerotate=case["prerotate"],
                  flush_us=case["flush_us"],
                  force_flush=True, timeout=240)
        if not r.get("deadlock") and not r.get("refresh_timeout"):
            # the shutdown rotation was done (once per process life): a new process must find exactly the same contents
            dr.quit()
            dr = vlib.Driver(binary, stderr_path=errp)
            dr.ok("init", dir=d, wait_ms=400)
            r2 = dr.ok("mvis_verify", metrics=r["metrics"], counts=r["counts"], timeout=120)
            r["restart_fails"] = r2["fails"]
        return r
    except vlib.DriverDead as e:
        e.frames = first_frames(errp) if e.kind != "hang" else ""
        return e
    finally:
        if dr is not None:
            dr.quit()
        vlib.rmtree(d)


def run_model(chk, quick):
    jobs = [("MC_MetricsVisibility.cfg" if quick else "MC_MetricsVisibility_deep.cfg", None),
            ("MC_MetricsVisibility_ascoded.cfg", "QuiescentEq"), ("MC_MetricsVisibility_ascoded_loss.cfg", "NoLoss"),
            ("MC_MetricsVisibility_emptyblock.cfg", "NoQueryError"), ("MC_MetricsVisibility_norefreshwindow.cfg", "NoLoss")]
    res = vlib.pmap(lambda j: vlib.run_tlc("MetricsVisibility", j[0], workers=max(2, WORKERS // 2), timeout=1500,
                                           coverage=(j[1] is None and not quick)), jobs, workers=len(jobs))
    vlib.tlc_must_hold(res[0], "MetricsVisibility exhaustive")
    chk.add_tlc("MC_MetricsVisibility", res[0], "metrics store: TypeOK NoDup NoInvent NoLoss NoQueryError QuiescentEq StoredOnce; put / block flush / "
                "segment rotation / metadata refresh / restart vs the five steps of a query; " +
                ("MaxDp=4 MaxFlush=3 MaxSegRot=2" if quick else "MaxDp=5 MaxFlush=4 MaxSegRot=3"))
    sens = {}
    for (cfg, inv), r in zip(jobs[1:], res[1:]):
        if r.error and not r.violated:
            raise vlib.Infra("MetricsVisibility %s: TLC failed (%s)" % (cfg, r.error))
        if inv not in r.violated:
            raise vlib.Infra("model sensitivity lost: %s no longer violates %s" % (cfg, inv))
        sens[cfg] = "violates %s (expected)" % inv
    chk.cov["metrics_model_sensitivity"] = sens


def run(chk, binary):
    quick = chk.tier == "quick"
    run_model(chk, quick)
    n = 6 if quick else 40
    cases = []
    for i in range(n):
        cases.append({"idx": i, "procs": [1, 2, 4, 16][i % 4], "ms": 2500 if quick else 6000, "seed": chk.seed * 1000 + 500 + i,
                      "series": 8, "metrics": 4, "queriers": 2 + i % 3, "putters": 2 + (i // 2) % 3,
                      "seg_every": [6, 3, 12][i % 3], "prerotate": i % 3 == 1,
                      "flush_us": [1000, 300, 600][(i + i // 3) % 3]})
    results = vlib.pmap(lambda c: one(binary, c), cases, workers=3 if quick else 4)
    tot = {"queries": 0, "query_errors": 0, "queries_with_exemption": 0, "puts": 0, "flushes": 0, "block_rotations": 0, "seg_rotations": 0}
    for c, r in zip(cases, results):
        if isinstance(r, vlib.DriverDead):
            if r.kind == "hang":
                raise vlib.Infra("metrics stress run did not answer: %s" % r)
            chk.violation("C11:metrics:crash:stress", "engine process died during concurrent metrics put/flush/rotation/query "
                          "(GOMAXPROCS=%d): %s\n%s" % (c["procs"], r, getattr(r, "frames", "")), c)
            continue
        if r.get("refresh_timeout"):
            raise vlib.Infra("metrics stress: %s rotated segment(s) not loaded by the query side's metadata refresh within 30 s (%s)" % (
                r["refresh_timeout"], r.get("phase", "quiescence")))
        chk.replayed(1)
        for k in tot:
            tot[k] += r.get(k, 0)
        chk.count(("metrics-stress", c["idx"]), nontrivial=r["queries"] > 20 and r["flushes"] > 20)
        if r.get("deadlock"):
            chk.violation("C11:metrics:deadlock:stress", "no progress for 25 s during concurrent metrics activity (GOMAXPROCS=%d)" % c["procs"],
                          {"case": c, "goroutines": r["deadlock"]})
            continue
        seen = set()
        for stage, fl in [("", f) for f in r["fails"]] + [("after-restart-", f) for f in r.get("restart_fails", [])]:
            key = "C11:metrics:%s%s:%s" % (stage, fl["kind"], form_of(fl["query"]))
            if key in seen:
                continue
            seen.add(key)
            chk.violation(key, "metrics stress (GOMAXPROCS=%d, seed %d), query %r: %s" % (c["procs"], c["seed"], fl["query"], fl["what"]),
                          {"case": c, "fail": fl})
    chk.cov["metrics_stress"] = dict(tot, runs=len(cases))
    if results and isinstance(results[0], dict):
        chk.sample({"kind": "metrics-stress", "case": cases[0], "stats": {k: results[0].get(k) for k in tot}, "shards": results[0].get("shards")})
    chk.assumptions += [
        "metrics stress: lower bound of an answer = datapoints whose put call had returned before the query began, minus the datapoints of "
        "segments that were size-rotated and not yet loaded by the query side's 5 s metadata refresh at some moment of the query (the engine "
        "keeps such a segment in neither list; a superset of the affected indices is exempt); upper bound = datapoints handed to a put call "
        "before the query returned; every (series, timestamp) once; values bit-exact",
        "metrics stress: a query that returns an error during the run is not judged; errors that persist at quiescence are",
        "metrics stress: every series gets its first datapoint before anything rotates (a series that first appears after a size rotation "
        "is invisible until the 60 s tags-tree flush - docs/C09.md)",
    ]
