"""C19 - user-supplied names cannot reach files outside the data directory.

Model: spec/Paths.tla - a name is a sequence of segment classes (incl. look-alikes of "." ".." "/": Unicode compatibility
  forms and overlong UTF-8); every API operation that derives a file path from request data is a record (transport,
  validation, guard, construction = string concatenation vs filepath.Join, effect, id-keyed store or not), explored per
  entry point (real HTTP / exported handler with the route parameter delivered verbatim) and per store history (fresh /
  a legitimate object created / created and deleted).  Resolve = Confined / Rejected / NotRouted / Escapes.  TLC proves
  Confined when every call site checks "single path component", lists the escaping triples for the guards as coded
  (replay candidates, not verdicts) and shows that normalising a name AFTER its guard breaks Confined.
Binding: the REAL ingest and query HTTP servers run inside sigdrv on loopback ports (paths_serve); handler-entry cases go
  through paths_call (the exported handler a route closure calls, on a fresh RequestCtx).  Every exported case is
  concretised (raw / bytes / URL-encoded / double-encoded, seven look-alike families, dot-dot depth amplified so that the
  path can actually reach a sentinel) and sent; the data directory lives inside a sentinel tree that is snapshotted
  (paths, sizes, hashes) before and after every request.  The verdict comes from the tree and the response bodies only,
  never from the HTTP status.
"""
import gzip
import hashlib
import json
import os
import random
import shutil
import socket
import time

import vlib

LEVEL = "model_checking"
CLAIMED = True   # set by the lead after review; only claimed checks enter MANIFEST.json

MANIFEST = dict(
    category="model_checking",
    technique="TLA+ model of every name-to-path call site (TLC exhaustive over name class sequences x entry point x store history) + replay of every exported case as raw HTTP / handler call against the real ingest/query servers inside a hashed sentinel tree",
    text=("spec/Paths.tla: names are sequences of segment classes {plain, dot, dot-dot, separator, absolute prefix, encoded separator, "
          "NUL, 4 KiB, and look-alikes of dot / dot-dot / separator: Unicode compatibility forms U+FF0E U+2024 U+FE52 U+2025 U+FF0F "
          "U+2215 U+2044 and overlong UTF-8}; 29 API operations (lookup upload/get/delete, inputlookup, index creation via bulk / "
          "OTLP logs resource attribute / Splunk HEC event field / PUT / single doc, mapping and alias files, alias add/remove via body, index delete, dashboard get/favorite/update/delete, "
          "folder create/get/delete, saved queries, alerts, contact points, scroll id, metric name, metric tag key) each with its "
          "transport (one raw path segment of the router vs body/form/query text), validation, guard and path construction "
          "transcribed from the call site; route-parameter APIs are explored at two entry points (HTTP, and the exported handler "
          "with the parameter delivered verbatim), id-keyed stores in three histories (fresh, object created, created+deleted) with "
          "the hostile name as an UNKNOWN id; APIs whose request can carry several names (bulk action lines, OTLP resources, HEC events, "
          "alias actions, metric datapoints) at the FIRST and at a REPEATED occurrence of the name within one request (per-request "
          "caches). TLC checks Confined with a single-path-component guard at every call site (all 11 "
          "classes <= 3 per name quick; core classes <= 4 thorough), lists the escaping triples for the guards as coded, and shows "
          "that a call site normalising look-alikes after its guard, or caching a name per request before validating it, violates "
          "Confined. Every exported case is concretised and sent "
          "to the real servers (cmd/startup's ConstructIngestServer/ConstructQueryServer.Run on loopback) or to the exported handler; "
          "oracle: nothing outside the data directory is created, modified or deleted (sentinel tree with known content at three "
          "directory levels above the data dir, hashed before/after each request) and no response contains sentinel content."),
    note=("Quick tier always replays the canonical traversal forms (real and look-alike dot-dot x separator, every look-alike family, "
          "three depths, existing and new targets) for every api x entry x history, plus a seeded sample of the TLC export; thorough "
          "replays all names of <= 2 classes and a third of the 3-class names in 3 encodings. Depth amplification, sentinel base names "
          "and the concrete code points of a look-alike class are chosen by the harness, not by TLC. Violations at the handler entry "
          "(key '<api>@handler') concern names the current router (fasthttp/router matches on the raw path) cannot deliver; they are "
          "reported because the handlers, not the router version, are the validation boundary. org id is not client-controlled in this "
          "build; static file / pprof routes are fasthttp's own code; Windows separators and symlinks inside the data dir are not "
          "considered. Prediction mismatches that do not escape are reported in the evidence only."),
    design_ref="DESIGN.md 4/C19, docs/C19.md",
)

TOKEN = b"SENTINEL-"
ALIASKEY = "SENTINEL-ALIASKEY"
WORKERS = int(os.environ.get("VERIF_WORKERS", "0")) or min(vlib.NCPU, 6)


# --------------------------------------------------------------------------- sentinel tree

LEVELS = ["a/b", "a", ""]          # directory of level 1, 2, 3 above the data dir (relative to root); data dir = root/a/b/data


def sentinel_files():
    """relative path -> content"""
    out = {}
    for li, d in enumerate(LEVELS, 1):
        tag = "L%d" % li
        p = lambda n: os.path.join(d, n) if d else n
        out[p("s.csv")] = b"col\nSENTINEL-%s-csv\n" % tag.encode()
        out[p("s.csv.gz")] = gzip.compress(b"col\nSENTINEL-%s-csvgz\n" % tag.encode(), mtime=0)
        out[p("s.json")] = json.dumps({"name": "SENTINEL-%s-json" % tag, "isFavorite": False}).encode()
        out[p("al.json")] = json.dumps({ALIASKEY: True}).encode()
        out[p("s.txt")] = b"SENTINEL-%s-txt\n" % tag.encode()
        out[p("s")] = b"SENTINEL-%s-noext\n" % tag.encode()
        out[p("sdir/inner.csv")] = b"col\nSENTINEL-%s-inner\n" % tag.encode()
        out[p("sdir/inner.json")] = json.dumps({ALIASKEY: True}).encode()
    return out


def build_tree(root):
    files = sentinel_files()
    for rel, content in files.items():
        full = os.path.join(root, rel)
        os.makedirs(os.path.dirname(full), exist_ok=True)
        with open(full, "wb") as f:
            f.write(content)
    os.makedirs(os.path.join(root, "a", "b", "data"), exist_ok=True)
    os.makedirs(os.path.join(root, "cwd"), exist_ok=True)
    return files


def snapshot(root):
    """everything under root AND its two guard directories, except the data directory and the driver's cwd:
    path relative to root -> ('d',) | ('f', size, sha1)"""
    snap = {}
    skip = (os.path.join(root, "a", "b", "data"), os.path.join(root, "cwd"))
    top = os.path.dirname(os.path.dirname(root))
    for dp, dns, fns in os.walk(top):
        dns[:] = [d for d in dns if os.path.join(dp, d) not in skip]
        for d in dns:
            snap[os.path.relpath(os.path.join(dp, d), root)] = ("d",)
        for fn in fns:
            p = os.path.join(dp, fn)
            try:
                b = open(p, "rb").read()
                snap[os.path.relpath(p, root)] = ("f", len(b), hashlib.sha1(b).hexdigest())
            except OSError:
                snap[os.path.relpath(p, root)] = ("?",)
    return snap


def diff(before, after):
    eff = []
    for p in sorted(set(before) | set(after)):
        if p not in before:
            eff.append(("create", p))
        elif p not in after:
            eff.append(("delete", p))
        elif before[p] != after[p]:
            eff.append(("overwrite", p))
    return eff


def restore(root, files, eff):
    for kind, rel in sorted(eff, key=lambda e: -len(e[1])):
        full = os.path.join(root, rel)
        if kind == "create":
            if os.path.isdir(full) and not os.path.islink(full):
                shutil.rmtree(full, ignore_errors=True)
            elif os.path.lexists(full):
                os.unlink(full)
    for rel, content in files.items():
        full = os.path.join(root, rel)
        try:
            if open(full, "rb").read() == content:
                continue
        except OSError:
            pass
        os.makedirs(os.path.dirname(full), exist_ok=True)
        with open(full, "wb") as f:
            f.write(content)


# --------------------------------------------------------------------------- raw HTTP

def free_port():
    s = socket.socket()
    s.bind(("127.0.0.1", 0))
    p = s.getsockname()[1]
    s.close()
    return p


def http(port, raw, timeout=20):
    try:
        s = socket.create_connection(("127.0.0.1", port), timeout=timeout)
    except OSError as e:
        return b"CONNECT-FAILED " + str(e).encode()
    chunks = []
    try:
        s.sendall(raw)
        while True:
            b = s.recv(65536)
            if not b:
                break
            chunks.append(b)
    except (socket.timeout, OSError):
        pass
    finally:
        s.close()
    return b"".join(chunks)


def req(method, target, body=b"", ctype="application/json"):
    """target: bytes, sent verbatim in the request line"""
    if isinstance(target, str):
        target = target.encode("latin1")
    head = b"%s %s HTTP/1.1\r\nHost: localhost\r\nConnection: close\r\nContent-Type: %s\r\nContent-Length: %d\r\n\r\n" % (
        method.encode(), target, ctype.encode(), len(body))
    return head + body


UNSAFE_TARGET = set(range(0, 33)) | {0x7f, ord("%"), ord("?"), ord("#")} | set(range(128, 256))


def enc_min(b):
    return b"".join(b"%%%02X" % c if c in UNSAFE_TARGET else bytes([c]) for c in b)


def enc_all(b):
    return b"".join(b"%%%02X" % c for c in b)


def multipart(fields):
    bnd = "----verifC19boundary"
    out = []
    for name, filename, value in fields:
        out.append(("--%s\r\nContent-Disposition: form-data; name=\"%s\"" % (bnd, name)).encode())
        if filename is not None:
            out.append(("; filename=\"%s\"\r\nContent-Type: text/csv" % filename).encode())
        out.append(b"\r\n\r\n" + value + b"\r\n")
    out.append(("--%s--\r\n" % bnd).encode())
    return b"".join(out), "multipart/form-data; boundary=" + bnd


# --------------------------------------------------------------------------- concretisation

# look-alike families (spec classes lkdot / lkup / lksep): Unicode compatibility forms and overlong UTF-8 of "." ".." "/"
U = lambda cp: chr(cp).encode("utf-8")
LOOKALIKES = [
    {"id": "fullwidth",        "sep": U(0xFF0F), "dot": U(0xFF0E), "up": U(0xFF0E) * 2},     # NFKC -> "/" "." ".."
    {"id": "leader",           "sep": U(0xFF0F), "dot": U(0x2024), "up": U(0x2025)},          # one / two dot leader
    {"id": "ascii-dots",       "sep": U(0xFF0F), "dot": b".",      "up": b".."},              # real dots, look-alike separator only
    {"id": "small-fraction",   "sep": U(0x2044), "dot": U(0xFE52), "up": U(0xFE52) * 2},     # fraction slash, small full stop
    {"id": "division",         "sep": U(0x2215), "dot": U(0x2024), "up": U(0x2024) * 2},     # division slash
    {"id": "overlong2",        "sep": b"\xc0\xaf", "dot": b"\xc0\xae", "up": b"\xc0\xae\xc0\xae"},       # overlong 2-byte UTF-8
    {"id": "overlong3",        "sep": b"\xe0\x80\xaf", "dot": b"\xe0\x80\xae", "up": b"\xe0\x80\xae" * 2},
]


def concretise(classes, rnd, idx, ups=1, target=None, root=None, prefix=False, lk=0):
    """class sequence -> bytes.  ups: every effective dot-dot (real or look-alike) becomes `ups` dot-dot segments; target:
    replaces the last plain segment (sentinel base name); lk: which look-alike family is used."""
    fam = LOOKALIKES[lk % len(LOOKALIKES)]
    out = []
    last_plain = max([i for i, c in enumerate(classes) if c == "plain"], default=None)
    seps = ("sep", "abs", "lksep")
    for i, c in enumerate(classes):
        if c == "plain":
            out.append((target if (target and i == last_plain) else "p%dx%d" % (idx, i)).encode())
        elif c == "dot":
            out.append(b".")
        elif c == "lkdot":
            out.append(fam["dot"])
        elif c in ("up", "lkup"):
            one = b".." if c == "up" else fam["up"]
            prev_ok = i == 0 or classes[i - 1] in seps
            next_ok = i == len(classes) - 1 or classes[i + 1] in seps
            joiner = fam["sep"] if (i + 1 < len(classes) and classes[i + 1] == "lksep") or (c == "lkup" and (i + 1 == len(classes) or classes[i + 1] != "sep")) else b"/"
            out.append(joiner.join([one] * ups) if (prev_ok and next_ok) else one)
        elif c == "sep":
            out.append(b"/")
        elif c == "lksep":
            out.append(fam["sep"])
        elif c == "abs":
            out.append((root + "/a/").encode())      # leading "/" + an absolute path into the sentinel tree
        elif c == "encsep":
            out.append(b"%2f")
        elif c == "nul":
            out.append(b"\x00")
        elif c == "long":
            out.append(b"L" * 4096)
    name = b"".join(out)
    if prefix:      # "<word>/../" in front: defeats guards that only look at the beginning of the name (lexically cancelled by Join)
        name = b"pfx%d/../" % idx + name
    return name


# --------------------------------------------------------------------------- per-API requests

NAME = "@@C19NAME@@"       # placeholder inside JSON documents; replaced by the (escaped) raw bytes of the name


def json_escape_bytes(b):
    out = bytearray()
    for c in b:
        if c == 0x22:
            out += b'\\"'
        elif c == 0x5C:
            out += b"\\\\"
        elif c < 0x20 or c == 0x7F:
            out += b"\\u%04x" % c
        else:
            out.append(c)          # bytes >= 0x80 go out raw: valid UTF-8 stays what it is, invalid UTF-8 reaches the server as sent
    return bytes(out)


def jbody(o, name=b""):
    return json.dumps(o).encode().replace(NAME.encode(), json_escape_bytes(name))


UNSAFE_BYTES = set(range(0, 33)) | {0x7f, ord("%"), ord("?"), ord("#")}


def enc_bytes(b):
    return b"".join(b"%%%02X" % c if c in UNSAFE_BYTES else bytes([c]) for c in b)


def url_seg(name, tag):
    if tag == "raw":
        return enc_min(name)
    if tag == "bytes":          # bytes >= 0x80 unescaped in the request line (the router matches on the raw path)
        return enc_bytes(name)
    if tag == "urlenc":
        return enc_all(name)
    return enc_all(enc_all(name))


def body_name(name, tag):
    if tag in ("raw", "bytes"):
        return name
    if tag == "urlenc":
        return enc_all(name)
    return enc_all(enc_all(name))


class Server:
    def __init__(self, binary, root):
        self.root = root
        last = None
        for attempt in range(6):     # the loopback ports are picked by bind(0)+close: another process can grab one in between
            self.ip, self.qp = free_port(), free_port()
            self.dr = vlib.Driver(binary, cwd=os.path.join(root, "cwd"), stderr_path=os.path.join(root, "cwd", "stderr.txt"))
            o = self.dr.cmd("paths_serve", timeout=120, dir=os.path.join(root, "a", "b", "data") + "/", iport=self.ip, qport=self.qp,
                            logfile=os.path.join(root, "cwd", "log.txt"))
            if o.get("ok"):
                self.info = o.get("res")
                return
            last = o.get("err") or ""
            self.dr.quit()
            if "address already in use" not in last and "did not come up" not in last:
                break
            time.sleep(0.2 * (attempt + 1))
        raise vlib.Infra("driver op paths_serve failed: %s" % last)

    def close(self):
        self.dr.quit()


NOW_MS = 1_700_000_000_000


def call(fn, method, user, body=b"", uri="/"):
    """handler-level request: executed by the driver op paths_call"""
    return ("call", fn, method, user, body, uri)


# ---- minimal protobuf writer for an OTLP ExportLogsServiceRequest (the OTLP endpoints accept protobuf only)

def _pb_varint(n):
    out = bytearray()
    while True:
        b = n & 0x7F
        n >>= 7
        if n:
            out.append(b | 0x80)
        else:
            out.append(b)
            return bytes(out)


def _pb_len(field, payload):
    return _pb_varint((field << 3) | 2) + _pb_varint(len(payload)) + payload


def _pb_kv(key, val):
    return _pb_len(1, key) + _pb_len(2, _pb_len(1, val))                 # KeyValue{key=1, value=2: AnyValue{string_value=1}}


def otlp_logs(resources):
    """resources: list of (index name bytes, body bytes) -> ExportLogsServiceRequest with one ResourceLogs per entry, the index
    name in the resource attribute siglensIndexName"""
    out = b""
    for index, body in resources:
        resource = _pb_len(1, _pb_kv(b"siglensIndexName", index)) + _pb_len(1, _pb_kv(b"service.name", b"c19"))
        record = _pb_varint((1 << 3) | 1) + (NOW_MS * 1_000_000).to_bytes(8, "little") + _pb_len(5, _pb_len(1, body))
        scope_logs = _pb_len(1, _pb_len(1, b"c19scope")) + _pb_len(2, record)
        out += _pb_len(1, _pb_len(1, resource) + _pb_len(2, scope_logs))
    return out


def requests_for(api, name, tag, srv, idx, entry="http", occ="first"):
    """-> (list of (port, raw request) | call(...), list of driver ops to run afterwards).
    occ == "repeated": the request carries the name several times (REP action lines / resources / events / actions / datapoints);
    a second request puts a well-formed name first"""
    I, Q = srv.ip, srv.qp
    REP = 3 if occ == "repeated" else 1
    seg = url_seg(name, tag)
    bn = body_name(name, tag)          # bytes
    hv = body_name(name, tag)          # what a route parameter carries at the handler entry
    J = lambda o: jbody(o, bn)
    H = entry == "handler"
    if api == "lookup-upload":
        out = []
        for ow in (b"true", b"false"):
            body, ct = multipart([("name", None, bn), ("overwrite", None, ow), ("file", "up.csv", b"col\nUPLOADED-%d\n" % idx)])
            out.append((Q, req("POST", "/api/lookup-upload", body, ct)))
        return out, []
    if api == "lookup-get":
        return ([call("lookup-get", "GET", {"lookupFilename": hv})] if H else [(Q, req("GET", b"/api/lookup-files/" + seg))]), []
    if api == "lookup-delete":
        return ([call("lookup-delete", "DELETE", {"lookupFilename": hv})] if H else [(Q, req("DELETE", b"/api/lookup-files/" + seg))]), []
    if api == "inputlookup":
        out = []
        for ext in (".csv", ".csv.gz"):
            for quote in ("", '"'):
                q = {"searchText": "| inputlookup %s%s%s%s" % (quote, NAME, ext, quote), "startEpoch": "now-1h",
                     "endEpoch": "now", "indexName": "*", "queryLanguage": "Splunk QL"}
                out.append((Q, req("POST", "/api/search", J(q))))
        return out, []
    if api == "bulk-index":
        pair = lambda ix, k: jbody({"index": {"_index": ix}}, bn) + b"\n" + json.dumps({"timestamp": NOW_MS, "msg": "x%d-%d" % (idx, k)}).encode() + b"\n"
        out = [(I, req("POST", "/elastic/_bulk", b"".join(pair(NAME, k) for k in range(REP))))]
        if REP > 1:
            out.append((I, req("POST", "/elastic/_bulk", pair("okidx", 0) + b"".join(pair(NAME, k) for k in range(1, REP)) + pair("okidx", 9))))
        return out, ["flush", "rotate"]
    if api == "otlp-logs-index":
        out = [(I, req("POST", "/otlp/v1/logs", otlp_logs([(bn, b"o%d-%d" % (idx, k)) for k in range(REP)]), "application/x-protobuf"))]
        if REP > 1:
            out.append((I, req("POST", "/otlp/v1/logs", otlp_logs([(b"okidx", b"ok")] + [(bn, b"p%d-%d" % (idx, k)) for k in range(REP)]),
                               "application/x-protobuf")))
        return out, ["flush", "rotate"]
    if api == "hec-index":
        ev = lambda ix, k: jbody({"event": {"msg": "h%d-%d" % (idx, k)}, "index": ix, "time": NOW_MS // 1000}, bn)
        out = [(I, req("POST", "/services/collector/event", b"".join(ev(NAME, k) for k in range(REP))))]
        if REP > 1:
            out.append((I, req("POST", "/services/collector/event", ev("okidx", 0) + b"".join(ev(NAME, k) for k in range(1, REP)))))
        return out, ["flush", "rotate"]
    if api == "put-index":
        b = json.dumps({"mappings": {"properties": {"f": {"type": "keyword"}}}}).encode()
        if H:
            return [call("put-index", "PUT", {"indexName": hv}, b)], []
        return [(I, req("PUT", b"/elastic/" + seg, b)), (I, req("PUT", b"/elastic/" + seg + b"/_mapping", b)),
                (Q, req("PUT", b"/elastic/" + seg, b))], []
    if api == "doc-index":
        b = json.dumps({"timestamp": NOW_MS, "msg": "d%d" % idx}).encode()
        if H:
            return [call("doc-index", "POST", {"indexName": hv}, b)], ["flush", "rotate"]
        return [(I, req("POST", b"/elastic/" + seg + b"/_doc", b))], ["flush", "rotate"]
    if api == "alias-put":
        if H:
            return [call("alias-put", "PUT", {"indexName": hv, "aliasName": b"al%d" % idx}),
                    call("alias-put", "PUT", {"indexName": b"idx0", "aliasName": hv})], []
        return [(Q, req("PUT", b"/elastic/" + seg + b"/_alias/al%d" % idx)), (Q, req("PUT", b"/elastic/idx0/_alias/" + seg))], []
    if api == "aliases-add":
        return [(Q, req("POST", "/elastic/_aliases", J({"actions": [{"add": {"index": NAME, "alias": "al%d-%d" % (idx, k)}} for k in range(REP)]}))),
                (Q, req("POST", "/elastic/_aliases", J({"actions": [{"add": {"indices": [NAME] * REP, "alias": "bl%d" % idx}}]}))),
                (Q, req("POST", "/elastic/_aliases", J({"actions": [{"add": {"index": "idx0", "alias": NAME}}] * REP})))], []
    if api == "aliases-remove":
        return [(Q, req("POST", "/elastic/_aliases", J({"actions": [{"remove": {"index": NAME, "alias": ALIASKEY}}] * REP})))], []
    if api == "alias-get":
        if H:
            return [call("alias-get-index", "GET", {"indexName": hv, "aliasName": b"x"}), call("alias-get", "GET", {"aliasName": hv})], []
        return [(Q, req("GET", b"/elastic/" + seg + b"/_alias/x")), (Q, req("GET", b"/elastic/_alias/" + seg)),
                (Q, req("HEAD", b"/elastic/" + seg + b"/_alias/x"))], []
    if api == "index-delete":
        if H:
            return [call("index-delete", "DELETE", {"indexName": hv})], []
        return [(Q, req("DELETE", b"/elastic/" + seg)), (Q, req("POST", b"/api/deleteIndex/" + seg))], []
    if api == "dashboard-get":
        return ([call("dashboard-get", "GET", {"dashboard-id": hv})] if H else [(Q, req("GET", b"/api/dashboards/" + seg))]), []
    if api == "dashboard-fav":
        return ([call("dashboard-fav", "PUT", {"dashboard-id": hv})] if H else [(Q, req("PUT", b"/api/dashboards/favorite/" + seg))]), []
    if api == "dashboard-update":
        return [(Q, req("POST", "/api/dashboards/update", J({"id": NAME, "details": {"name": "n%d" % idx, "description": "d"}})))], []
    if api == "dashboard-delete":
        return ([call("dashboard-delete", "GET", {"dashboard-id": hv})] if H else [(Q, req("GET", b"/api/dashboards/delete/" + seg))]), []
    if api == "folder-create":
        return [(Q, req("POST", "/api/dashboards/folders/create", J({"name": NAME, "parentId": "root-folder"}))),
                (Q, req("POST", "/api/dashboards/folders/create", J({"name": "f%d" % idx, "parentId": NAME}))),
                (Q, req("POST", "/api/dashboards/create", J({"name": NAME, "description": "d", "parentId": "root-folder"})))], []
    if api == "folder-get":
        if H:
            return [call("folder-get", "GET", {"folder-id": hv}), call("folder-count", "GET", {"folder-id": hv}),
                    call("folder-update", "PUT", {"folder-id": hv}, json.dumps({"name": "r%d" % idx}).encode())], []
        return [(Q, req("GET", b"/api/dashboards/folders/" + seg)), (Q, req("GET", b"/api/dashboards/folders/" + seg + b"/count")),
                (Q, req("PUT", b"/api/dashboards/folders/" + seg, json.dumps({"name": "r%d" % idx}).encode()))], []
    if api == "folder-delete":
        return ([call("folder-delete", "DELETE", {"folder-id": hv})] if H else [(Q, req("DELETE", b"/api/dashboards/folders/" + seg))]), []
    if api == "usq-save":
        return [(Q, req("POST", "/api/usersavedqueries/save", J({"queryName": NAME, "queryDescription": "d", "searchText": "*",
                                                                 "indexName": "*", "queryLanguage": "Splunk QL"})))], []
    if api == "usq-delete":
        if H:
            return [call("usq-get", "GET", {"qname": hv}), call("usq-delete", "GET", {"qname": hv})], []
        return [(Q, req("GET", b"/api/usersavedqueries/" + seg)), (Q, req("GET", b"/api/usersavedqueries/deleteone/" + seg))], []
    if api == "alert-get":
        if H:
            return [call("alert-get", "GET", {"alertID": hv}), call("alert-history", "GET", {"alertID": hv})], []
        return [(Q, req("GET", b"/api/alerts/" + seg)), (Q, req("GET", b"/api/alerts/" + seg + b"/history"))], []
    if api == "alert-delete":
        return [(Q, req("DELETE", "/api/alerts/delete", J({"alert_id": NAME, "alert_name": NAME})))], []
    if api == "contact-delete":
        return [(Q, req("DELETE", "/api/alerts/deleteContact", J({"contact_id": NAME})))], []
    if api == "scroll-id":
        return [(Q, req("POST", "/elastic/_search?scroll=1m", J({"scroll": "1m", "scroll_id": NAME, "query": {"match_all": {}}}))),
                (Q, req("POST", "/elastic/_search", J({"scroll_id": NAME})))], []
    if api == "metric-name":
        return [(I, req("POST", "/otsdb/api/put", J([{"metric": NAME, "timestamp": NOW_MS // 1000 + k, "value": 1.5, "tags": {"host": "h"}}
                                                     for k in range(REP)])))], []
    if api == "metric-tagkey":
        return [(I, req("POST", "/otsdb/api/put", J([{"metric": "m%d-%d" % (idx, k), "timestamp": NOW_MS // 1000, "value": 1.5,
                                                      "tags": {NAME: "v", "host": "h"}} for k in range(REP)])))], []
    raise vlib.Infra("no request builder for api %s" % api)


INGEST_APIS = ("bulk-index", "doc-index", "otlp-logs-index", "hec-index")     # every case is followed by flush + rotate
FIXED_PATH_APIS = ("folder-create", "folder-get", "folder-delete", "usq-save", "usq-delete", "metric-name", "alert-get", "alert-delete",
                   "contact-delete")
BATCH_APIS = {"metric-name": ["mrotate"], "metric-tagkey": ["mrotate"]}    # effects appear at the (once per life) shutdown flush


# ---- store histories: a legitimate object of the API's store is created / created and deleted before the hostile ids are used

def _resp_json(resp):
    try:
        return json.loads(resp.split(b"\r\n\r\n", 1)[-1].decode("utf8", "replace"))
    except ValueError:
        return None


def legit_create(api, srv, n):
    """-> handle (whatever legit_delete needs) or None if the store refused"""
    Q = srv.qp
    if api.startswith("dashboard"):
        r = _resp_json(http(Q, req("POST", "/api/dashboards/create", json.dumps({"name": "legit%d" % n, "description": "d", "parentId": "root-folder"}).encode())))
        return next(iter(r), None) if isinstance(r, dict) and r else None
    if api.startswith("folder"):
        r = _resp_json(http(Q, req("POST", "/api/dashboards/folders/create", json.dumps({"name": "legitf%d" % n, "parentId": "root-folder"}).encode())))
        return (r or {}).get("id") if isinstance(r, dict) else None
    if api.startswith("usq"):
        r = http(Q, req("POST", "/api/usersavedqueries/save", json.dumps({"queryName": "legitq%d" % n, "queryDescription": "d", "searchText": "*",
                                                                          "indexName": "*", "queryLanguage": "Splunk QL"}).encode()))
        return "legitq%d" % n if r.startswith(b"HTTP/1.1 200") else None
    if api.startswith("alert") or api.startswith("contact"):
        http(Q, req("POST", "/api/alerts/createContact", json.dumps({"contact_name": "legitc%d" % n, "webhook": [{"webhook": "http://127.0.0.1:9/hook"}]}).encode()))
        r = _resp_json(http(Q, req("GET", "/api/alerts/allContacts")))
        for c in ((r or {}).get("contacts") or []) if isinstance(r, dict) else []:
            if c.get("contact_name") == "legitc%d" % n:
                return c.get("contact_id")
        return None
    return None


def legit_delete(api, srv, h):
    Q = srv.qp
    if h is None:
        return False
    if api.startswith("dashboard"):
        return http(Q, req("GET", "/api/dashboards/delete/" + h)).startswith(b"HTTP/1.1 200")
    if api.startswith("folder"):
        return http(Q, req("DELETE", "/api/dashboards/folders/" + h)).startswith(b"HTTP/1.1 200")
    if api.startswith("usq"):
        return http(Q, req("GET", "/api/usersavedqueries/deleteone/" + h)).startswith(b"HTTP/1.1 200")
    if api.startswith("alert") or api.startswith("contact"):
        return http(Q, req("DELETE", "/api/alerts/deleteContact", json.dumps({"contact_id": h}).encode())).startswith(b"HTTP/1.1 200")
    return False


def run_api(binary, api, cases, seed):
    """cases: list of {classes, predicted, entry, hist, tag, ups, target, lk, ...}.  One server life; store histories are played in
    the order fresh -> created -> deleted."""
    import base64
    import glob
    outer = vlib.scratch("c19-" + api)
    # two guard directories above the sentinel tree: a traversal that climbs higher than the model assumes still lands inside
    # the scratch directory of this run (and is seen by the snapshot, which covers `outer`)
    root = os.path.join(outer, "g1", "g2")
    os.makedirs(root)
    results = []
    srv = None
    try:
        files = build_tree(root)
        for c in cases:     # names may refer to the root of THIS tree
            c["name"] = concretise(c["classes"], None, c["idx"], ups=c["ups"], target=c.get("target"), root=root, prefix=c.get("prefix", False),
                                   lk=c.get("lk", 0))
        srv = Server(binary, root)
        before = snapshot(root)
        if set(os.path.normpath(p) for p, v in before.items() if v[0] == "f") != set(os.path.normpath(f) for f in files):
            raise vlib.Infra("sentinel tree is not what was built")
        pending = []
        order = {"fresh": 0, "created": 1, "deleted": 2}
        cases = sorted(cases, key=lambda c: order[c.get("hist", "fresh")])
        state, handle, hist_ok = "fresh", None, {}
        for c in cases:
            want = c.get("hist", "fresh")
            while state != want:
                if state == "fresh":
                    handle = legit_create(api, srv, c["idx"])
                    hist_ok["created"] = handle is not None
                    state = "created"
                elif state == "created":
                    hist_ok["deleted"] = legit_delete(api, srv, handle)
                    state = "deleted"
                else:
                    break
                eff = diff(before, snapshot(root))      # legitimate operations must not touch the outside either
                if eff:
                    results.append({"case": {"key": "legit-" + state, "classes": ["legit-" + state], "predicted": "Confined", "tag": "-", "name": b"(legitimate object)",
                                             "idx": -1, "ups": 1, "entry": "http", "hist": state}, "statuses": [], "leak": None, "effects": eff})
                    restore(root, files, eff)
                    before = snapshot(root)
            reqs, ops = requests_for(api, c["name"], c["tag"], srv, c["idx"], c.get("entry", "http"), c.get("occ", "first"))
            leak = None
            statuses = []
            for rq in reqs:
                if rq[0] == "call":
                    _, fn, method, user, body, uri = rq
                    try:
                        o = srv.dr.cmd("paths_call", timeout=60, fn=fn, method=method, uri=uri,
                                       user={k: base64.b64encode(v).decode() for k, v in user.items()},
                                       body_b64=base64.b64encode(body).decode())
                    except vlib.DriverDead as e:
                        raise vlib.Infra("driver died during %s/%s: %s" % (api, c["key"], e))
                    if not o.get("ok"):
                        statuses.append("PANIC" if "PANIC" in (o.get("err") or "") else "ERR")
                        body_out, raw = (o.get("err") or "").encode(), b""
                    else:
                        statuses.append(str(o["res"]["status"]))
                        body_out, raw = base64.b64decode(o["res"]["body_b64"]), b""
                else:
                    port, raw = rq
                    resp = http(port, raw)
                    statuses.append(resp[9:12].decode("latin1") if resp.startswith(b"HTTP/") else "---")
                    body_out = resp.split(b"\r\n\r\n", 1)[-1]
                if TOKEN in body_out and TOKEN not in raw:
                    i = body_out.find(TOKEN)
                    leak = body_out[max(0, i - 40):i + 60].decode("latin1")
            try:
                for op in ops:
                    srv.dr.ok(op)
            except vlib.DriverDead as e:
                raise vlib.Infra("driver died during %s/%s: %s" % (api, c["key"], e))
            res = {"case": c, "statuses": statuses, "leak": leak, "effects": []}
            if api in BATCH_APIS:
                pending.append(res)
            else:
                after = snapshot(root)
                eff = diff(before, after)
                if eff:
                    res["effects"] = eff
                    restore(root, files, eff)
                    before = snapshot(root)
            results.append(res)
        if api in BATCH_APIS:
            for op in BATCH_APIS[api]:
                srv.dr.ok(op)
            time.sleep(0.3)
            eff = diff(before, snapshot(root))
            # exact attribution: an effect belongs to the case whose name, appended to one of the tags-tree base directories
            # the engine really used, normalises to the affected path
            bases = [b for b in glob.glob(os.path.join(root, "a", "b", "data", "*", "final", "tth", "*", "*")) if os.path.isdir(b)]
            for kind, rel in eff:
                full = os.path.normpath(os.path.join(root, rel))
                owner = None
                for res in pending:
                    nm = res["case"]["name"].decode("latin1")
                    if "\x00" in nm:
                        continue
                    if any(os.path.normpath(b + "/" + nm) == full or os.path.normpath(b + "/" + nm).startswith(full + "/") for b in bases):
                        owner = res
                        break
                if owner is None:
                    owner = {"case": {"key": "unattributed", "classes": ["?"], "predicted": "?", "tag": "-", "name": b"?", "idx": -1, "ups": 0,
                                      "entry": "http", "hist": "fresh"},
                             "statuses": [], "leak": None, "effects": []}
                    results.append(owner)
                owner["effects"].append((kind, rel))
        # the process must still be alive and serving
        alive = http(srv.qp, req("GET", "/api/health"))
        if not alive.startswith(b"HTTP/1.1 200"):
            results.append({"case": {"key": "health", "classes": [], "predicted": "-", "tag": "-", "name": b"", "idx": -1, "entry": "http",
                                     "hist": "fresh"},
                            "statuses": [alive[:30].decode("latin1")], "leak": None, "effects": [], "dead": True})
        if results:
            results[0]["hist_ok"] = hist_ok
        return results
    finally:
        if srv is not None:
            srv.close()
        vlib.rmtree(outer)


# --------------------------------------------------------------------------- the check

# class sequences that are ALWAYS replayed, depth-amplified, for every (api, entry, store history) - whatever the model predicts
CORE_ASCII = [["up", "sep", "plain"], ["up", "sep"], ["up"], ["plain", "sep", "up"]]
CORE_LOOKALIKE = [["lkup", "lksep", "plain"], ["lkup", "sep", "plain"], ["up", "lksep", "plain"], ["lkup", "lksep"]]


def run(chk):
    quick = chk.tier == "quick"
    r = vlib.run_tlc("Paths", "MC_Paths_quick.cfg" if quick else "MC_Paths.cfg", timeout=1200, coverage=quick)
    vlib.tlc_must_hold(r, "Paths (guarded call sites)")
    chk.add_tlc("MC_Paths", r, "Confined for every (api, entry, history) x name with a single-path-component guard at every call site: "
                + ("all 11 classes, <= 3 per name" if quick else "core classes, <= 4 per name"))
    r2 = vlib.run_tlc("Paths", "MC_Paths_ascode.cfg", timeout=600)
    if r2.error and not r2.violated:
        raise vlib.Infra("Paths as-coded run failed: %s" % r2.error)
    chk.add_tlc("MC_Paths_ascode", r2, "guards as in the code: the escaping (api, entry, name) triples are replay candidates, not verdicts"
                + ("" if r2.violated else " (none: every modelled call site is guarded)"))
    r3 = vlib.run_tlc("Paths", "MC_Paths_normafter.cfg", timeout=600)
    if "Confined" not in r3.violated:
        raise vlib.Infra("model sensitivity lost: normalising a name after its guard no longer violates Confined")
    chk.add_tlc("MC_Paths_normafter", r3, "sensitivity: a call site that normalises look-alikes AFTER its guard violates Confined (expected)")
    r4 = vlib.run_tlc("Paths", "MC_Paths_cachefirst.cfg", timeout=600)
    if "Confined" not in r4.violated:
        raise vlib.Infra("model sensitivity lost: a per-request cache filled before the guard no longer violates Confined")
    chk.add_tlc("MC_Paths_cachefirst", r4, "sensitivity: a call site that caches a name per request BEFORE validating it violates Confined on the repeated occurrence (expected)")
    beh, rg = vlib.tlc_generate("Gen_Paths", "Gen_Paths.cfg", timeout=1500)
    chk.add_tlc("Gen_Paths", rg, "export of every (api, entry, history, name class sequence) with the predicted outcome")
    if not beh:
        raise vlib.Infra("no cases generated")

    rnd = random.Random(chk.seed * 7919 + 19)
    groups = {}
    for b in beh:
        groups.setdefault((b["api"], b["entry"]), []).append(b)
    binary = vlib.build_driver()
    work = []
    total_cases = 0
    for (api, entry) in sorted(groups):
        lst_all = groups[(api, entry)]
        hists = sorted(set(b["hist"] for b in lst_all), key=["fresh", "created", "deleted"].index)
        base = lst_all[0]["base"]
        pathparam = lst_all[0]["transport"] == "pathparam"
        occs = sorted(set(b.get("occ", "first") for b in lst_all))      # ["first"] or ["first", "repeated"]
        by_name = {(b["hist"], b.get("occ", "first"), tuple(b["name"])): b for b in lst_all}
        cases = []
        idx = 0

        def add(b, tag, ups, target=None, prefix=False, lk=0, hist="fresh", occ="first"):
            nonlocal idx
            idx += 1
            cases.append({"classes": b["name"], "predicted": b["predicted"], "base": base, "suffix": b["suffix"], "tag": tag, "ups": ups,
                          "target": target, "prefix": prefix, "lk": lk, "entry": entry, "hist": hist, "occ": occ, "idx": idx,
                          "key": "-".join(b["name"]) + ("" if occ == "first" else ":repeated") + ("" if tag == "raw" else ":" + tag) + ("" if ups == 1 else ":x%d" % ups) +
                                 ("" if not target else ":" + target) + (":pfx" if prefix else "") +
                                 (":" + LOOKALIKES[lk % len(LOOKALIKES)]["id"] if any(c.startswith("lk") for c in b["name"]) else "")})

        def lookup(seq, hist, occ="first"):
            return by_name.get((hist, occ, tuple(seq))) or {"name": list(seq), "predicted": "?", "suffix": lst_all[0]["suffix"]}

        # ---- core: canonical traversal forms, real and look-alike, in every store history
        lkc = rnd.randrange(len(LOOKALIKES))
        for hist, occ in [(h, o) for h in hists for o in occs]:
            for seq in CORE_ASCII:
                b = lookup(seq, hist, occ)
                for ups in (base + 1, base + 2, base + 3):
                    for tg in (["s", "al", "nw"] if seq[-1] == "plain" else [None]):
                        add(b, "raw", ups, tg, hist=hist, occ=occ)
                if seq == ["up", "sep", "plain"]:
                    add(b, "raw", base + 1, "s", prefix=True, hist=hist, occ=occ)
                    add(b, "urlenc", base + 1, "s", hist=hist, occ=occ)
            for seq in CORE_LOOKALIKE:
                b = lookup(seq, hist, occ)
                for ups in (base + 1, base + 2, base + 3):
                    for tg in (["s", "al", "nw"] if seq[-1] == "plain" else [None]):
                        lkc += 1          # rotate through the look-alike families: every family meets every core form
                        add(b, "bytes" if (pathparam and entry == "http") else "raw", ups, tg, lk=lkc, hist=hist, occ=occ)
            if hist == "fresh" and occ == "first":
                # every look-alike family on the canonical form (one depth, existing + new target)
                b = lookup(CORE_LOOKALIKE[0], hist)
                for lk in range(len(LOOKALIKES)):
                    for tg in ("s", "nw"):
                        add(b, "raw", base + 1, tg, lk=lk, hist=hist)
        # repeated occurrence: a sample of the exported names of <= 2 classes as well
        if "repeated" in occs:
            rep = [b for b in lst_all if b["hist"] == hists[0] and b.get("occ") == "repeated" and len(b["name"]) <= 2]
            for b in rnd.sample(rep, min(len(rep), 12 if quick else 80)):
                add(b, "raw", 1, lk=rnd.randrange(len(LOOKALIKES)), occ="repeated")
        # ---- the TLC export of the first history, sampled in the quick tier
        lst = [b for b in lst_all if b["hist"] == hists[0] and b.get("occ", "first") == "first"]
        esc = [b for b in lst if b["predicted"] == "Escapes"]
        one = [b for b in lst if len(b["name"]) == 1]
        two = [b for b in lst if len(b["name"]) == 2 and b["predicted"] != "Escapes"]
        rest = [b for b in lst if len(b["name"]) > 2 and b["predicted"] != "Escapes"]
        if quick:
            two = rnd.sample(two, min(len(two), 30))
            rest = rnd.sample(rest, min(len(rest), 40))
        elif api in INGEST_APIS:
            rest = rnd.sample(rest, min(len(rest), 300))       # each case costs a flush + rotate
        elif api in FIXED_PATH_APIS:
            # the path does not depend on the name; folder_structure.json / usq.json are rewritten on every request (quadratic)
            two = rnd.sample(two, min(len(two), 60))
            rest = rnd.sample(rest, min(len(rest), 150))
        else:
            rest = rnd.sample(rest, min(len(rest), 400))       # all names of <= 2 classes, a third of the 3-class names
        tagset = ["raw", "urlenc", "dblenc"]
        for b in one:
            for tag in tagset:
                add(b, tag, 1, lk=rnd.randrange(len(LOOKALIKES)))
        for b in two + rest:
            for tag in (tagset if not quick else [rnd.choice(tagset)]):
                add(b, tag, 1, lk=rnd.randrange(len(LOOKALIKES)))
        # every class sequence containing a (real or look-alike) dot-dot is also depth-amplified so that it can reach the sentinels
        amp = [b for b in lst if ("up" in b["name"] or "lkup" in b["name"]) and b not in esc]
        amp = esc + rnd.sample(amp, min(len(amp), 12 if quick else (15 if api in FIXED_PATH_APIS else 40)))
        for b in amp:
            for ups in (base + 1, base + 2, base + 3):
                for tg in (["s", "al", "nw"] if "plain" in b["name"] else [None]):
                    for tag in (["raw", "urlenc"] if (not quick or b in esc) else ["raw"]):
                        add(b, tag, ups, tg, lk=rnd.randrange(len(LOOKALIKES)))
        for b in esc:
            add(b, "raw", 1)
        # one server life handles at most `chunk` cases: every bulk/doc case creates an index, and flush/rotate cost grows with
        # the number of indexes a process has seen; shorter lives also spread the work over the workers
        chunk = 250 if api in INGEST_APIS else 700
        for i in range(0, len(cases), chunk):
            work.append((api, entry, cases[i:i + chunk]))
        total_cases += len(cases)
    vlib.log("[C19] %d (api, entry) groups, %d server lives, %d cases" % (len(groups), len(work), total_cases))

    out = vlib.pmap(lambda w: run_api(binary, w[0], w[2], chk.seed), work, workers=WORKERS)

    vio = {}
    pred_stats = {}
    surprises = []
    hist_ok = {}
    reproduced, not_reproduced = set(), set()
    for (api, entry, cases), results in zip(work, out):
        for res in results:
            c = res["case"]
            apik = api + ("@handler" if entry == "handler" else "") + ("+repeated" if c.get("occ") == "repeated" else "")
            if res.get("hist_ok"):
                for k, v in res["hist_ok"].items():
                    hist_ok.setdefault(api, {})[k] = hist_ok.get(api, {}).get(k, True) and v
            if res.get("dead"):
                vio.setdefault("C19:%s:server-unresponsive" % apik, {"what": "the query server stopped answering after the %s requests: %s" % (apik, res["statuses"]),
                                                                     "rep": {"api": api}, "n": 0})["n"] += 1
                continue
            chk.count((apik, c.get("hist"), "-".join(c["classes"])),
                      nontrivial=any(x in c["classes"] for x in ("up", "sep", "abs", "encsep", "nul", "long", "lkup", "lksep", "lkdot")))
            if "PANIC" in res["statuses"]:
                v = vio.setdefault("C19:%s:handler-panic" % apik, {"what": "%s with name %r panicked in the request handler" % (apik, c["name"][:120].decode("latin1")),
                                                                   "rep": {"api": api, "entry": entry, "classes": c["classes"], "name_latin1": c["name"].decode("latin1"),
                                                                           "tag": c["tag"], "ups": c["ups"], "target": c.get("target"), "lk": c.get("lk", 0),
                                                                           "hist": c.get("hist", "fresh")}, "n": 0})
                v["n"] += 1
            escaped = bool(res["effects"]) or bool(res["leak"])
            ps = pred_stats.setdefault(apik, {})
            k = "%s->%s" % (c["predicted"], "ESCAPED" if escaped else "confined")
            ps[k] = ps.get(k, 0) + 1
            cls = "-".join(c["classes"])
            if c["predicted"] == "Escapes":
                (reproduced if escaped else not_reproduced).add((apik, cls))
            if not escaped:
                continue
            if c["predicted"] not in ("Escapes", "?") and c["ups"] == 1:     # (the prediction is for the un-amplified class sequence)
                surprises.append("%s %s predicted %s" % (apik, c["key"], c["predicted"]))
            effects = [e[0] for e in res["effects"]] + (["read"] if res["leak"] else [])
            for eff in sorted(set(effects)):
                key = "C19:%s:%s:%s" % (apik, eff, cls)
                paths = [e[1] for e in res["effects"] if e[0] == eff][:4]
                what = ("%s%s with name %r (%s encoding; classes %s; store history %s%s) %s outside the data directory: %s%s; status %s" % (
                    api, " [handler entry: route parameter delivered verbatim]" if entry == "handler" else "",
                    c["name"][:120].decode("utf8", "backslashreplace"), c["tag"], cls, c.get("hist", "fresh"),
                    "; the name occurs 3 times in one request" if c.get("occ") == "repeated" else "",
                    {"create": "CREATED", "overwrite": "OVERWROTE", "delete": "DELETED", "read": "RETURNED THE CONTENT OF a file"}[eff],
                    paths if eff != "read" else "", (" response contains ...%s..." % res["leak"]) if eff == "read" else "", res["statuses"]))
                v = vio.setdefault(key, {"what": what, "rep": {"api": api, "entry": entry, "hist": c.get("hist", "fresh"), "occ": c.get("occ", "first"), "classes": c["classes"],
                                                               "name_latin1": c["name"].decode("latin1"), "lk": c.get("lk", 0),
                                                               "tag": c["tag"], "ups": c["ups"], "target": c.get("target"), "prefix": c.get("prefix", False), "effects": res["effects"][:10],
                                                               "leak": res["leak"], "statuses": res["statuses"], "predicted": c["predicted"]}, "n": 0})
                v["n"] += 1
            if len(chk.cov["samples"]) < 5:
                chk.sample({"api": apik, "name": c["name"][:100].decode("latin1"), "encoding": c["tag"], "effects": res["effects"][:3], "leak": res["leak"]})
        chk.replayed(len(results))
    # one violation per (api, effect): a canonical class sequence is the signature, the others are listed
    grouped = {}
    pref = {"up-sep-plain": 0, "lkup-lksep-plain": 1, "up-lksep-plain": 2, "lkup-sep-plain": 3, "up-sep": 4, "up": 5}
    for key in sorted(vio, key=lambda k: (pref.get(k.split(":", 3)[-1], 9), len(k), k)):
        api_eff = ":".join(key.split(":")[:3])
        g = grouped.setdefault(api_eff, {"key": key, "v": vio[key], "others": [], "n": 0})
        g["n"] += vio[key]["n"]
        if key != g["key"]:
            g["others"].append(key.split(":", 3)[-1])
    for api_eff in sorted(grouped):
        g = grouped[api_eff]
        g["v"]["rep"]["other_name_classes"] = g["others"][:40]
        chk.violation(g["key"], "%s [%d escaping case(s) for this api/effect; %d further name classes]" % (g["v"]["what"], g["n"], len(g["others"])),
                      g["v"]["rep"])
    chk.cov["prediction_vs_real"] = pred_stats
    chk.cov["store_history_played"] = hist_ok
    chk.cov["model_candidates_reproduced"] = sorted("%s %s" % x for x in reproduced)[:200]
    chk.cov["model_candidates_not_reproduced"] = sorted("%s %s" % x for x in (not_reproduced - reproduced))[:200]
    chk.cov["escapes_not_predicted_by_model"] = surprises[:50]
    chk.assumptions += [
        "the servers are started as cmd/startup does (ConstructIngestServer/ConstructQueryServer + Run) with the testing configuration; no auth hooks (open-source build)",
        "handler entry: the exported handler of a route is called as the route closure calls it, with the route parameter set verbatim (paths_call)",
        "tenant id is fixed to 0 by server_utils.GetMyIds (not client controlled)",
        "effects of metric names / tag keys are observed after ForceFlushMetricsBlock (what shutdown does), attributed by file name",
    ]
    chk.describe(rule="one case = one concretised (api, entry, store history, name class sequence, encoding, look-alike family, dot-dot depth, "
                      "target) sent as raw HTTP / handler call with a hashed sentinel tree snapshot before/after; distinct_nontrivial = distinct "
                      "(api@entry, history, class sequence) triples containing at least one path metacharacter or look-alike class",
                 exhaustive=not quick)


def replay(chk, path):
    rec = json.load(open(path))
    rp = rec["replay"]
    binary = vlib.build_driver()
    case = {"classes": rp["classes"], "predicted": rp.get("predicted", "?"), "base": 0, "suffix": False, "tag": rp["tag"], "ups": rp["ups"],
            "target": rp.get("target"), "prefix": rp.get("prefix", False), "lk": rp.get("lk", 0), "entry": rp.get("entry", "http"),
            "hist": rp.get("hist", "fresh"), "occ": rp.get("occ", "first"), "idx": 1, "key": "replay"}
    res = run_api(binary, rp["api"], [case], 1)
    for r in res:
        print(json.dumps({"name": r["case"]["name"].decode("latin1") if isinstance(r["case"].get("name"), bytes) else "", "statuses": r["statuses"],
                          "effects": r["effects"], "leak": r["leak"]}, indent=1))
    return 1 if any(r["effects"] or r["leak"] for r in res) else 0
