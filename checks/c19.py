"""C19 - user-supplied names cannot reach files outside the data directory.

Model: spec/Paths.tla - a name is a sequence of segment classes; every API operation that derives a file
  path from request data is a record (transport, validation, construction = string concatenation vs
  filepath.Join, effect); Resolve(api, name) = Confined / Rejected / NotRouted / Escapes.  TLC proves Confined
  for the repaired call sites (Guard=TRUE) and lists the escaping (api, name) pairs of the code as it is
  (Guard=FALSE) - replay candidates, not verdicts.
Binding: the REAL ingest and query HTTP servers run inside sigdrv on loopback ports (paths_serve); every
  TLC-exported (api, name-class-sequence) case is concretised (raw / URL-encoded / double-encoded, dot-dot depth
  amplified so that the path can actually reach a sentinel) and sent as raw HTTP; the data directory lives inside
  a sentinel tree that is snapshotted (paths, sizes, hashes) before and after every request.
"""
import gzip
import hashlib
import json
import os
import random
import shutil
import socket
import time

import vlib

LEVEL = "model_checking"
CLAIMED = True   # set by the lead after review; only claimed checks enter MANIFEST.json

MANIFEST = dict(
    category="model_checking",
    technique="TLA+ model of every name-to-path call site (TLC exhaustive over name class sequences) + replay of every exported (api, name) case as raw HTTP against the real ingest/query servers inside a hashed sentinel tree",
    text=("spec/Paths.tla: names are sequences of segment classes {plain, dot, dot-dot, separator, absolute prefix, encoded separator, "
          "NUL, 4 KiB}; 23 API operations (lookup upload/get/delete, inputlookup, index creation via bulk / PUT / single doc, "
          "mapping and alias files, alias add/remove via body, index delete, dashboard get/favorite/update/delete, folders, saved "
          "queries, scroll id, metric name, metric tag key) each with its transport (route parameter after fasthttp path "
          "normalisation vs body/form/query text), its validation and its path construction transcribed from the call site. TLC "
          "checks Confined for all names of <= 3 (quick) / 4 (thorough) classes on the repaired call sites and lists the escaping "
          "pairs of the code as it is. Every exported case is concretised and sent to the real servers (cmd/startup's "
          "ConstructIngestServer/ConstructQueryServer.Run on loopback, so router, path normalisation, handlers are production "
          "code); oracle: nothing outside the data directory is created, modified or deleted (sentinel tree with known content at "
          "three directory levels above the data dir, hashed before/after each request) and no response contains sentinel content."),
    note=("Quick tier replays a seeded sample of the length-3 names plus every model-predicted escape and the depth-amplified "
          "targets; thorough replays all names of <= 3 classes in 3 encodings (4-class names are model-checked only). Depth amplification (k x '../') and sentinel base names are chosen by the harness, not by "
          "TLC. org id is not client-controlled in this build (server_utils.GetMyIds returns the single tenant 0) and is not "
          "exercised; the static file handler and pprof routes are fasthttp's own code and out of scope; Windows separators not "
          "modelled; symlinks inside the data dir not considered. Prediction mismatches between model and code that do not "
          "escape are reported in the evidence only."),
    design_ref="DESIGN.md 4/C19, docs/C19.md",
)

TOKEN = b"SENTINEL-"
ALIASKEY = "SENTINEL-ALIASKEY"
WORKERS = int(os.environ.get("VERIF_WORKERS", "0")) or min(vlib.NCPU, 6)


# --------------------------------------------------------------------------- sentinel tree

LEVELS = ["a/b", "a", ""]          # directory of level 1, 2, 3 above the data dir (relative to root); data dir = root/a/b/data


def sentinel_files():
    """relative path -> content"""
    out = {}
    for li, d in enumerate(LEVELS, 1):
        tag = "L%d" % li
        p = lambda n: os.path.join(d, n) if d else n
        out[p("s.csv")] = b"col\nSENTINEL-%s-csv\n" % tag.encode()
        out[p("s.csv.gz")] = gzip.compress(b"col\nSENTINEL-%s-csvgz\n" % tag.encode(), mtime=0)
        out[p("s.json")] = json.dumps({"name": "SENTINEL-%s-json" % tag, "isFavorite": False}).encode()
        out[p("al.json")] = json.dumps({ALIASKEY: True}).encode()
        out[p("s.txt")] = b"SENTINEL-%s-txt\n" % tag.encode()
        out[p("s")] = b"SENTINEL-%s-noext\n" % tag.encode()
        out[p("sdir/inner.csv")] = b"col\nSENTINEL-%s-inner\n" % tag.encode()
        out[p("sdir/inner.json")] = json.dumps({ALIASKEY: True}).encode()
    return out


def build_tree(root):
    files = sentinel_files()
    for rel, content in files.items():
        full = os.path.join(root, rel)
        os.makedirs(os.path.dirname(full), exist_ok=True)
        with open(full, "wb") as f:
            f.write(content)
    os.makedirs(os.path.join(root, "a", "b", "data"), exist_ok=True)
    os.makedirs(os.path.join(root, "cwd"), exist_ok=True)
    return files


def snapshot(root):
    """everything under root AND its two guard directories, except the data directory and the driver's cwd:
    path relative to root -> ('d',) | ('f', size, sha1)"""
    snap = {}
    skip = (os.path.join(root, "a", "b", "data"), os.path.join(root, "cwd"))
    top = os.path.dirname(os.path.dirname(root))
    for dp, dns, fns in os.walk(top):
        dns[:] = [d for d in dns if os.path.join(dp, d) not in skip]
        for d in dns:
            snap[os.path.relpath(os.path.join(dp, d), root)] = ("d",)
        for fn in fns:
            p = os.path.join(dp, fn)
            try:
                b = open(p, "rb").read()
                snap[os.path.relpath(p, root)] = ("f", len(b), hashlib.sha1(b).hexdigest())
            except OSError:
                snap[os.path.relpath(p, root)] = ("?",)
    return snap


def diff(before, after):
    eff = []
    for p in sorted(set(before) | set(after)):
        if p not in before:
            eff.append(("create", p))
        elif p not in after:
            eff.append(("delete", p))
        elif before[p] != after[p]:
            eff.append(("overwrite", p))
    return eff


def restore(root, files, eff):
    for kind, rel in sorted(eff, key=lambda e: -len(e[1])):
        full = os.path.join(root, rel)
        if kind == "create":
            if os.path.isdir(full) and not os.path.islink(full):
                shutil.rmtree(full, ignore_errors=True)
            elif os.path.lexists(full):
                os.unlink(full)
    for rel, content in files.items():
        full = os.path.join(root, rel)
        try:
            if open(full, "rb").read() == content:
                continue
        except OSError:
            pass
        os.makedirs(os.path.dirname(full), exist_ok=True)
        with open(full, "wb") as f:
            f.write(content)


# --------------------------------------------------------------------------- raw HTTP

def free_port():
    s = socket.socket()
    s.bind(("127.0.0.1", 0))
    p = s.getsockname()[1]
    s.close()
    return p


def http(port, raw, timeout=20):
    try:
        s = socket.create_connection(("127.0.0.1", port), timeout=timeout)
    except OSError as e:
        return b"CONNECT-FAILED " + str(e).encode()
    chunks = []
    try:
        s.sendall(raw)
        while True:
            b = s.recv(65536)
            if not b:
                break
            chunks.append(b)
    except (socket.timeout, OSError):
        pass
    finally:
        s.close()
    return b"".join(chunks)


def req(method, target, body=b"", ctype="application/json"):
    """target: bytes, sent verbatim in the request line"""
    if isinstance(target, str):
        target = target.encode("latin1")
    head = b"%s %s HTTP/1.1\r\nHost: localhost\r\nConnection: close\r\nContent-Type: %s\r\nContent-Length: %d\r\n\r\n" % (
        method.encode(), target, ctype.encode(), len(body))
    return head + body


UNSAFE_TARGET = set(range(0, 33)) | {0x7f, ord("%"), ord("?"), ord("#")} | set(range(128, 256))


def enc_min(b):
    return b"".join(b"%%%02X" % c if c in UNSAFE_TARGET else bytes([c]) for c in b)


def enc_all(b):
    return b"".join(b"%%%02X" % c for c in b)


def multipart(fields):
    bnd = "----verifC19boundary"
    out = []
    for name, filename, value in fields:
        out.append(("--%s\r\nContent-Disposition: form-data; name=\"%s\"" % (bnd, name)).encode())
        if filename is not None:
            out.append(("; filename=\"%s\"\r\nContent-Type: text/csv" % filename).encode())
        out.append(b"\r\n\r\n" + value + b"\r\n")
    out.append(("--%s--\r\n" % bnd).encode())
    return b"".join(out), "multipart/form-data; boundary=" + bnd


# --------------------------------------------------------------------------- concretisation

def concretise(classes, rnd, idx, ups=1, target=None, root=None, prefix=False):
    """class sequence -> bytes.  ups: every effective dot-dot class becomes `ups` dot-dot segments; target: replaces the
    last plain segment (sentinel base name)."""
    out = []
    last_plain = max([i for i, c in enumerate(classes) if c == "plain"], default=None)
    for i, c in enumerate(classes):
        if c == "plain":
            out.append((target if (target and i == last_plain) else "p%dx%d" % (idx, i)).encode())
        elif c == "dot":
            out.append(b".")
        elif c == "up":
            prev_ok = i == 0 or classes[i - 1] in ("sep", "abs")
            next_ok = i == len(classes) - 1 or classes[i + 1] == "sep"
            out.append(b"/".join([b".."] * ups) if (prev_ok and next_ok) else b"..")
        elif c == "sep":
            out.append(b"/")
        elif c == "abs":
            out.append((root + "/a/").encode())      # leading "/" + an absolute path into the sentinel tree
        elif c == "encsep":
            out.append(b"%2f")
        elif c == "nul":
            out.append(b"\x00")
        elif c == "long":
            out.append(b"L" * 4096)
    name = b"".join(out)
    if prefix:      # "<word>/../" in front: defeats guards that only look at the beginning of the name (lexically cancelled by Join)
        name = b"pfx%d/../" % idx + name
    return name


def variants(name):
    """(tag, name as the client types it) - for URL transports the tag says how the path segment is encoded"""
    return [("raw", name), ("urlenc", name), ("dblenc", name)]


# --------------------------------------------------------------------------- per-API requests

def jbody(o):
    return json.dumps(o).encode()


def jstr(b):
    """bytes -> python str for a JSON body (NUL and non-UTF8 preserved through latin1)"""
    return b.decode("latin1")


def url_seg(name, tag):
    if tag == "raw":
        return enc_min(name)
    if tag == "urlenc":
        return enc_all(name)
    return enc_all(enc_all(name))


def body_name(name, tag):
    if tag == "raw":
        return name
    if tag == "urlenc":
        return enc_all(name)
    return enc_all(enc_all(name))


class Server:
    def __init__(self, binary, root):
        self.root = root
        self.ip, self.qp = free_port(), free_port()
        self.dr = vlib.Driver(binary, cwd=os.path.join(root, "cwd"), stderr_path=os.path.join(root, "cwd", "stderr.txt"))
        self.info = self.dr.ok("paths_serve", dir=os.path.join(root, "a", "b", "data") + "/", iport=self.ip, qport=self.qp,
                               logfile=os.path.join(root, "cwd", "log.txt"))

    def close(self):
        self.dr.quit()


NOW_MS = 1_700_000_000_000


def requests_for(api, name, tag, srv, idx):
    """-> (list of (port, raw request), list of driver ops to run afterwards)"""
    I, Q = srv.ip, srv.qp
    seg = url_seg(name, tag)
    bn = jstr(body_name(name, tag))
    if api == "lookup-upload":
        out = []
        for ow in (b"true", b"false"):
            body, ct = multipart([("name", None, body_name(name, tag)), ("overwrite", None, ow),
                                  ("file", "up.csv", b"col\nUPLOADED-%d\n" % idx)])
            out.append((Q, req("POST", "/api/lookup-upload", body, ct)))
        return out, []
    if api == "lookup-get":
        return [(Q, req("GET", b"/api/lookup-files/" + seg))], []
    if api == "lookup-delete":
        return [(Q, req("DELETE", b"/api/lookup-files/" + seg))], []
    if api == "inputlookup":
        out = []
        for ext in (".csv", ".csv.gz"):
            for quote in ("", '"'):
                q = {"searchText": "| inputlookup %s%s%s%s" % (quote, bn, ext, quote), "startEpoch": "now-1h", "endEpoch": "now",
                     "indexName": "*", "queryLanguage": "Splunk QL"}
                out.append((Q, req("POST", "/api/search", jbody(q))))
        return out, []
    if api == "bulk-index":
        body = (json.dumps({"index": {"_index": bn}}) + "\n" + json.dumps({"timestamp": NOW_MS, "msg": "x%d" % idx}) + "\n").encode()
        return [(I, req("POST", "/elastic/_bulk", body))], ["flush", "rotate"]
    if api == "put-index":
        b = jbody({"mappings": {"properties": {"f": {"type": "keyword"}}}})
        return [(I, req("PUT", b"/elastic/" + seg, b)), (I, req("PUT", b"/elastic/" + seg + b"/_mapping", b)),
                (Q, req("PUT", b"/elastic/" + seg, b))], []
    if api == "doc-index":
        b = jbody({"timestamp": NOW_MS, "msg": "d%d" % idx})
        return [(I, req("POST", b"/elastic/" + seg + b"/_doc", b))], ["flush", "rotate"]
    if api == "alias-put":
        return [(Q, req("PUT", b"/elastic/" + seg + b"/_alias/al%d" % idx)), (Q, req("PUT", b"/elastic/idx0/_alias/" + seg))], []
    if api == "aliases-add":
        return [(Q, req("POST", "/elastic/_aliases", jbody({"actions": [{"add": {"index": bn, "alias": "al%d" % idx}}]}))),
                (Q, req("POST", "/elastic/_aliases", jbody({"actions": [{"add": {"indices": [bn], "alias": "bl%d" % idx}}]}))),
                (Q, req("POST", "/elastic/_aliases", jbody({"actions": [{"add": {"index": "idx0", "alias": bn}}]})))], []
    if api == "aliases-remove":
        return [(Q, req("POST", "/elastic/_aliases", jbody({"actions": [{"remove": {"index": bn, "alias": ALIASKEY}}]})))], []
    if api == "alias-get":
        return [(Q, req("GET", b"/elastic/" + seg + b"/_alias/x")), (Q, req("GET", b"/elastic/_alias/" + seg)),
                (Q, req("HEAD", b"/elastic/" + seg + b"/_alias/x"))], []
    if api == "index-delete":
        return [(Q, req("DELETE", b"/elastic/" + seg)), (Q, req("POST", b"/api/deleteIndex/" + seg))], []
    if api == "dashboard-get":
        return [(Q, req("GET", b"/api/dashboards/" + seg))], []
    if api == "dashboard-fav":
        return [(Q, req("PUT", b"/api/dashboards/favorite/" + seg))], []
    if api == "dashboard-update":
        return [(Q, req("POST", "/api/dashboards/update", jbody({"id": bn, "details": {"name": "n%d" % idx, "description": "d"}})))], []
    if api == "dashboard-delete":
        return [(Q, req("GET", b"/api/dashboards/delete/" + seg))], []
    if api == "folder-create":
        return [(Q, req("POST", "/api/dashboards/folders/create", jbody({"name": bn, "parentId": "root-folder"}))),
                (Q, req("POST", "/api/dashboards/folders/create", jbody({"name": "f%d" % idx, "parentId": bn}))),
                (Q, req("POST", "/api/dashboards/create", jbody({"name": bn, "description": "d", "parentId": "root-folder"})))], []
    if api == "folder-get":
        return [(Q, req("GET", b"/api/dashboards/folders/" + seg)), (Q, req("DELETE", b"/api/dashboards/folders/" + seg))], []
    if api == "usq-save":
        return [(Q, req("POST", "/api/usersavedqueries/save", jbody({"queryName": bn, "queryDescription": "d", "searchText": "*",
                                                                     "indexName": "*", "queryLanguage": "Splunk QL"})))], []
    if api == "usq-delete":
        return [(Q, req("GET", b"/api/usersavedqueries/" + seg)), (Q, req("GET", b"/api/usersavedqueries/deleteone/" + seg))], []
    if api == "scroll-id":
        return [(Q, req("POST", "/elastic/_search?scroll=1m", jbody({"scroll": "1m", "scroll_id": bn, "query": {"match_all": {}}}))),
                (Q, req("POST", "/elastic/_search", jbody({"scroll_id": bn})))], []
    if api == "metric-name":
        return [(I, req("POST", "/otsdb/api/put", jbody([{"metric": bn, "timestamp": NOW_MS // 1000, "value": 1.5, "tags": {"host": "h"}}])))], []
    if api == "metric-tagkey":
        return [(I, req("POST", "/otsdb/api/put", jbody([{"metric": "m%d" % idx, "timestamp": NOW_MS // 1000, "value": 1.5,
                                                          "tags": {bn: "v", "host": "h"}}])))], []
    raise vlib.Infra("no request builder for api %s" % api)


FIXED_PATH_APIS = ("folder-create", "folder-get", "usq-save", "usq-delete", "metric-name")
BATCH_APIS = {"metric-name": ["mrotate"], "metric-tagkey": ["mrotate"]}    # effects appear at the (once per life) shutdown flush


def run_api(binary, api, cases, seed):
    """cases: list of {classes, predicted, base, suffix, name(bytes), tag, key}.  One server life per API."""
    outer = vlib.scratch("c19-" + api)
    # two guard directories above the sentinel tree: a traversal that climbs higher than the model assumes still lands inside
    # the scratch directory of this run (and is seen by the snapshot, which covers `outer`)
    root = os.path.join(outer, "g1", "g2")
    os.makedirs(root)
    results = []
    srv = None
    try:
        files = build_tree(root)
        for c in cases:     # names may refer to the root of THIS tree
            c["name"] = concretise(c["classes"], None, c["idx"], ups=c["ups"], target=c.get("target"), root=root, prefix=c.get("prefix", False))
        srv = Server(binary, root)
        before = snapshot(root)
        if set(os.path.normpath(p) for p, v in before.items() if v[0] == "f") != set(os.path.normpath(f) for f in files):
            raise vlib.Infra("sentinel tree is not what was built")
        pending = []
        for c in cases:
            reqs, ops = requests_for(api, c["name"], c["tag"], srv, c["idx"])
            leak = None
            statuses = []
            for port, raw in reqs:
                resp = http(port, raw)
                statuses.append(resp[9:12].decode("latin1") if resp.startswith(b"HTTP/") else "---")
                body = resp.split(b"\r\n\r\n", 1)[-1]
                if TOKEN in body and TOKEN not in raw:
                    i = body.find(TOKEN)
                    leak = body[max(0, i - 40):i + 60].decode("latin1")
            try:
                for op in ops:
                    srv.dr.ok(op)
            except vlib.DriverDead as e:
                raise vlib.Infra("driver died during %s/%s: %s" % (api, c["key"], e))
            res = {"case": c, "statuses": statuses, "leak": leak, "effects": []}
            if api in BATCH_APIS:
                pending.append(res)
            else:
                after = snapshot(root)
                eff = diff(before, after)
                if eff:
                    res["effects"] = eff
                    restore(root, files, eff)
                    before = snapshot(root)
            results.append(res)
        if api in BATCH_APIS:
            for op in BATCH_APIS[api]:
                srv.dr.ok(op)
            time.sleep(0.3)
            eff = diff(before, snapshot(root))
            # exact attribution: an effect belongs to the case whose name, appended to one of the tags-tree base directories
            # the engine really used, normalises to the affected path
            import glob
            bases = [b for b in glob.glob(os.path.join(root, "a", "b", "data", "*", "final", "tth", "*", "*")) if os.path.isdir(b)]
            for kind, rel in eff:
                full = os.path.normpath(os.path.join(root, rel))
                owner = None
                for res in pending:
                    nm = res["case"]["name"].decode("latin1")
                    if "\x00" in nm:
                        continue
                    for tagenc in (nm,):
                        if any(os.path.normpath(b + "/" + tagenc) == full or os.path.normpath(b + "/" + tagenc).startswith(full + "/") for b in bases):
                            owner = res
                            break
                    if owner:
                        break
                if owner is None:
                    owner = {"case": {"key": "unattributed", "classes": ["?"], "predicted": "?", "tag": "-", "name": b"?", "idx": -1, "ups": 0},
                             "statuses": [], "leak": None, "effects": []}
                    results.append(owner)
                owner["effects"].append((kind, rel))
        # the process must still be alive and serving
        alive = http(srv.qp, req("GET", "/api/health"))
        if not alive.startswith(b"HTTP/1.1 200"):
            results.append({"case": {"key": "health", "classes": [], "predicted": "-", "tag": "-", "name": b"", "idx": -1},
                            "statuses": [alive[:30].decode("latin1")], "leak": None, "effects": [], "dead": True})
        return results
    finally:
        if srv is not None:
            srv.close()
        vlib.rmtree(outer)


# --------------------------------------------------------------------------- the check

def run(chk):
    quick = chk.tier == "quick"
    r = vlib.run_tlc("Paths", "MC_Paths_quick.cfg" if quick else "MC_Paths.cfg", timeout=1200, coverage=quick)
    vlib.tlc_must_hold(r, "Paths (guarded call sites)")
    chk.add_tlc("MC_Paths", r, "Confined for every api x name of <= %d classes with the confinement guard at every call site" % (3 if quick else 4))
    r2 = vlib.run_tlc("Paths", "MC_Paths_ascode.cfg", timeout=600)
    if "Confined" not in r2.violated:
        raise vlib.Infra("model sensitivity lost: the as-coded model no longer violates Confined")
    chk.add_tlc("MC_Paths_ascode", r2, "code as it is (no guard): Confined is expected to fail - the escaping pairs are replay candidates, not verdicts")
    # (names of 4 classes are model-checked in the thorough tier; the replay uses the <= 3 class export plus depth amplification)
    beh, rg = vlib.tlc_generate("Gen_Paths", "Gen_Paths.cfg", timeout=1500)
    chk.add_tlc("Gen_Paths", rg, "export of every (api, name class sequence) with the predicted outcome")
    if not beh:
        raise vlib.Infra("no cases generated")

    rnd = random.Random(chk.seed * 7919 + 19)
    by_api = {}
    for b in beh:
        by_api.setdefault(b["api"], []).append(b)
    binary = vlib.build_driver()
    work = []
    total_cases = 0
    for api in sorted(by_api):
        lst = by_api[api]
        base = lst[0]["base"]
        esc = [b for b in lst if b["predicted"] == "Escapes"]
        short = [b for b in lst if len(b["name"]) <= 2 and b["predicted"] != "Escapes"]
        rest = [b for b in lst if len(b["name"]) > 2 and b["predicted"] != "Escapes"]
        if quick:
            rest = rnd.sample(rest, min(len(rest), 60))
        elif api in ("bulk-index", "doc-index"):
            rest = rnd.sample(rest, min(len(rest), 1500))      # each case costs a flush + rotate
        elif api in FIXED_PATH_APIS:
            # the path does not depend on the name; folder_structure.json / usq.json are rewritten on every request (quadratic)
            rest = rnd.sample(rest, min(len(rest), 300))
        cases = []
        idx = 0

        def add(b, tag, ups, target=None, prefix=False):
            nonlocal idx
            idx += 1
            cases.append({"classes": b["name"], "predicted": b["predicted"], "base": base, "suffix": b["suffix"], "tag": tag, "ups": ups,
                          "target": target, "prefix": prefix, "idx": idx, "key": "-".join(b["name"]) + ("" if tag == "raw" else ":" + tag) +
                          ("" if ups == 1 else ":x%d" % ups) + ("" if not target else ":" + target) + (":pfx" if prefix else "")})
        for b in short + rest:
            tags = ["raw", "urlenc", "dblenc"] if (not quick or len(b["name"]) <= 2) else [rnd.choice(["raw", "urlenc", "dblenc"])]
            for tag in tags:
                add(b, tag, 1)
        # every class sequence containing a dot-dot is also depth-amplified so that it can reach the sentinel levels
        amp = [b for b in lst if "up" in b["name"]]
        if quick:
            amp = esc + rnd.sample([b for b in amp if b not in esc], min(40, len([b for b in amp if b not in esc])))
        if api in FIXED_PATH_APIS and not quick:
            amp = rnd.sample(amp, min(len(amp), 60))
        for b in amp:
            for ups in (base + 1, base + 2, base + 3):
                targets = ["s", "al", "nw"] if "plain" in b["name"] else [None]     # two existing sentinel stems and a new name
                for tg in targets:
                    for tag in (["raw", "urlenc"] if (not quick or b in esc) else ["raw"]):
                        add(b, tag, ups, tg)
        for b in esc:
            add(b, "raw", 1)
            if b["name"][0] == "up" and "plain" in b["name"]:
                for ups in (base + 1, base + 2):
                    add(b, "raw", ups, "s", prefix=True)
        # one server life handles at most `chunk` cases: every bulk/doc case creates an index, and flush/rotate cost grows with
        # the number of indexes a process has seen; shorter lives also spread the work over the workers
        chunk = 250 if api in ("bulk-index", "doc-index") else 1200
        for i in range(0, len(cases), chunk):
            work.append((api, cases[i:i + chunk]))
        total_cases += len(cases)
    vlib.log("[C19] %d apis, %d server lives, %d cases" % (len(by_api), len(work), total_cases))

    out = vlib.pmap(lambda w: run_api(binary, w[0], w[1], chk.seed), work, workers=WORKERS)

    vio = {}
    pred_stats = {}
    surprises = []
    reproduced, not_reproduced = set(), set()
    for (api, cases), results in zip(work, out):
        for res in results:
            c = res["case"]
            if res.get("dead"):
                vio.setdefault("C19:%s:server-unresponsive" % api, {"what": "the query server stopped answering after the %s requests: %s" % (api, res["statuses"]),
                                                                    "rep": {"api": api}, "n": 0})["n"] += 1
                continue
            chk.count((api, "-".join(c["classes"])), nontrivial=any(x in c["classes"] for x in ("up", "sep", "abs", "encsep", "nul", "long")))
            escaped = bool(res["effects"]) or bool(res["leak"])
            ps = pred_stats.setdefault(api, {})
            k = "%s->%s" % (c["predicted"], "ESCAPED" if escaped else "confined")
            ps[k] = ps.get(k, 0) + 1
            cls = "-".join(c["classes"])
            if c["predicted"] == "Escapes":
                (reproduced if escaped else not_reproduced).add((api, cls))
            if not escaped:
                continue
            if c["predicted"] != "Escapes" and c["ups"] == 1:     # (the prediction is for the un-amplified class sequence)
                surprises.append("%s %s predicted %s" % (api, c["key"], c["predicted"]))
            effects = [e[0] for e in res["effects"]] + (["read"] if res["leak"] else [])
            for eff in sorted(set(effects)):
                key = "C19:%s:%s:%s" % (api, eff, cls)
                paths = [e[1] for e in res["effects"] if e[0] == eff][:4]
                what = ("%s with name %r (%s encoding; classes %s) %s outside the data directory: %s%s; HTTP status %s" % (
                    api, c["name"][:120].decode("latin1"), c["tag"], cls,
                    {"create": "CREATED", "overwrite": "OVERWROTE", "delete": "DELETED", "read": "RETURNED THE CONTENT OF a file"}[eff],
                    paths if eff != "read" else "", (" response contains ...%s..." % res["leak"]) if eff == "read" else "", res["statuses"]))
                v = vio.setdefault(key, {"what": what, "rep": {"api": api, "classes": c["classes"], "name_latin1": c["name"].decode("latin1"),
                                                               "tag": c["tag"], "ups": c["ups"], "target": c.get("target"), "prefix": c.get("prefix", False), "effects": res["effects"][:10],
                                                               "leak": res["leak"], "statuses": res["statuses"], "predicted": c["predicted"]}, "n": 0})
                v["n"] += 1
            if len(chk.cov["samples"]) < 5:
                chk.sample({"api": api, "name": c["name"][:100].decode("latin1"), "encoding": c["tag"], "effects": res["effects"][:3], "leak": res["leak"]})
        chk.replayed(len(results))
    # one violation per (api, effect): the shortest class sequence is the signature, the others are listed
    grouped = {}
    pref = {"up-sep-plain": 0, "up-sep": 1, "up": 2}
    for key in sorted(vio, key=lambda k: (pref.get(k.split(":", 3)[-1], 9), len(k), k)):
        api_eff = ":".join(key.split(":")[:3])
        g = grouped.setdefault(api_eff, {"key": key, "v": vio[key], "others": [], "n": 0})
        g["n"] += vio[key]["n"]
        if key != g["key"]:
            g["others"].append(key.split(":", 3)[-1])
    for api_eff in sorted(grouped):
        g = grouped[api_eff]
        g["v"]["rep"]["other_name_classes"] = g["others"][:40]
        chk.violation(g["key"], "%s [%d escaping case(s) for this api/effect; %d further name classes]" % (g["v"]["what"], g["n"], len(g["others"])),
                      g["v"]["rep"])
    chk.cov["prediction_vs_real"] = pred_stats
    chk.cov["model_candidates_reproduced"] = sorted("%s %s" % x for x in reproduced)[:200]
    chk.cov["model_candidates_not_reproduced"] = sorted("%s %s" % x for x in (not_reproduced - reproduced))[:200]
    chk.cov["escapes_not_predicted_by_model"] = surprises[:50]
    chk.assumptions += [
        "the servers are started as cmd/startup does (ConstructIngestServer/ConstructQueryServer + Run) with the testing configuration; no auth hooks (open-source build)",
        "tenant id is fixed to 0 by server_utils.GetMyIds (not client controlled)",
        "effects of metric names / tag keys are observed after ForceFlushMetricsBlock (what shutdown does), attributed by file name",
    ]
    chk.describe(rule="one case = one concretised (api, name class sequence, encoding, dot-dot depth, target) sent as raw HTTP with a hashed sentinel "
                      "tree snapshot before/after; distinct_nontrivial = distinct (api, class sequence) pairs containing at least one path "
                      "metacharacter class", exhaustive=not quick)


def replay(chk, path):
    rec = json.load(open(path))
    rp = rec["replay"]
    binary = vlib.build_driver()
    case = {"classes": rp["classes"], "predicted": rp.get("predicted", "?"), "base": 0, "suffix": False, "tag": rp["tag"], "ups": rp["ups"],
            "target": rp.get("target"), "prefix": rp.get("prefix", False), "idx": 1, "key": "replay"}
    res = run_api(binary, rp["api"], [case], 1)
    for r in res:
        print(json.dumps({"name": r["case"]["name"].decode("latin1") if isinstance(r["case"].get("name"), bytes) else "", "statuses": r["statuses"],
                          "effects": r["effects"], "leak": r["leak"]}, indent=1))
    return 1 if any(r["effects"] or r["leak"] for r in res) else 0
