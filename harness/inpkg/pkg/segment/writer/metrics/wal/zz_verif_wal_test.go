package wal

// C10 (fn level) harness.  Injected with `go test -overlay` by /verif; never copied into the repository.
// It only DRIVES the real Wal writer (NewWAL / Append / Write) and the real readers (DPWalIterator,
// MNameWalIterator, MMetaEntryIterator): for every append history enumerated by TLC (spec/Gen_WAL.tla: kind + number of
// items per block) it writes the real file, then reads back
//   - every truncation length 0..size,
//   - every single-byte flip (all offsets x 3 xor masks; all 256 values at the first and last byte of every region:
//     version, len, crc, payload of every block)
// exactly the way the recovery loops do (Next until error or nil) and reports what came back.  The expected outcome is
// the spec's: the complete blocks before the cut / before the damaged block, nothing else.
//
// env: C10_BEH (ndjson of histories), C10_OUT (result json), C10_SEED, C10_SWEEP (max blocks for the 256-value sweeps),
//      C10_BIG (1 = also run the sampled huge-length cases)

import (
	"bufio"
	"encoding/binary"
	"encoding/json"
	"fmt"
	"io"
	"math"
	"math/rand"
	"os"
	"path/filepath"
	"runtime"
	"strconv"
	"testing"
	"time"

	"github.com/siglens/siglens/pkg/segment/structs"
	log "github.com/sirupsen/logrus"
)

type vHist struct {
	Kind   string `json:"kind"`
	Blocks []int  `json:"blocks"`
}

type vViolation struct {
	Key    string      `json:"key"`
	What   string      `json:"what"`
	Replay interface{} `json:"replay"`
}

type vResult struct {
	Histories    int                    `json:"histories"`
	Reads        int                    `json:"reads"`
	Truncations  int                    `json:"truncations"`
	Flips        int                    `json:"flips"`
	Classes      map[string]int         `json:"classes"` // kind/mutation/region/outcome -> count
	Violations   []vViolation           `json:"violations"`
	SkippedLarge int                    `json:"skipped_large"`
	MaxAlloc     uint64                 `json:"max_alloc_requested"`
	MaxAllocCase interface{}            `json:"max_alloc_case"`
	MaxReadMs    float64                `json:"max_read_ms"`
	Slow         []interface{}          `json:"slow"`
	Big          []interface{}          `json:"big"`
	Sample       map[string]interface{} `json:"sample"`
	IntactPrefix [2]int                 `json:"intact_prefix_kept"` // [kept, of] for flips: blocks before the damaged one returned
}

const vLargeLimit = 32 << 20

type vFile struct {
	kind   string
	raw    []byte
	ends   []int      // file size after each append (block end offsets)
	items  [][]string // canonical items per block
	blocks []int
}

func vCanonDp(d WalDatapoint) string {
	return strconv.FormatUint(d.Tsid, 10) + "/" + strconv.FormatUint(uint64(d.Timestamp), 10) + "/" + fmt.Sprintf("%016x", math.Float64bits(d.DpVal))
}

func vCanonMeta(m *structs.MetricsMeta) string {
	b, _ := json.Marshal(m)
	return string(b)
}

func vRandName(r *rand.Rand) string {
	const al = "abcdefghijklmnopqrstuvwxyz_.:0123456789ABCXYZ-"
	n := 1 + r.Intn(12)
	b := make([]byte, n)
	for i := range b {
		b[i] = al[r.Intn(len(al))]
	}
	return string(b)
}

// write the real file for one history with the real writer
func vBuild(t *testing.T, dir string, h vHist, r *rand.Rand) *vFile {
	p := filepath.Join(dir, "h.wal")
	var enc walAppender
	switch h.Kind {
	case "dp":
		enc = NewDataPointEncoder()
	case "mname":
		enc = NewMetricNameEncoder()
	case "meta":
		enc = &MetricsMetaEncoder{}
	default:
		t.Fatalf("unknown kind %q", h.Kind)
	}
	w, err := NewWAL(p, enc)
	if err != nil {
		t.Fatalf("NewWAL: %v", err)
	}
	f := &vFile{kind: h.Kind, blocks: h.Blocks}
	for bi, n := range h.Blocks {
		var items []string
		var input any
		switch h.Kind {
		case "dp":
			dps := make([]WalDatapoint, n)
			for i := range dps {
				bits := r.Uint64()
				if r.Intn(4) == 0 {
					bits = []uint64{0, 0x8000000000000000, 0x3ff0000000000000, 0x7ff8000000000001, 0x7ff0000000000000}[r.Intn(5)]
				}
				dps[i] = WalDatapoint{Timestamp: r.Uint32(), DpVal: math.Float64frombits(bits), Tsid: r.Uint64()}
				items = append(items, vCanonDp(dps[i]))
			}
			input = dps
		case "mname":
			names := make([]string, n)
			for i := range names {
				names[i] = vRandName(r)
				items = append(items, names[i])
			}
			input = names
		case "meta":
			ms := make([]*structs.MetricsMeta, n)
			for i := range ms {
				ms[i] = &structs.MetricsMeta{MSegmentDir: "data/h/final/ts/" + vRandName(r) + "/" + strconv.Itoa(r.Intn(9)), NumBlocks: uint16(r.Intn(70000)),
					BytesReceivedCount: r.Uint64(), OnDiskBytes: r.Uint64() >> 20, TagKeys: map[string]bool{vRandName(r): true, vRandName(r): true},
					EarliestEpochSec: r.Uint32(), LatestEpochSec: r.Uint32(), TTreeDir: "data/h/final/tth/" + vRandName(r) + "/", DatapointCount: uint64(r.Intn(1000)),
					OrgId: int64(r.Intn(3))}
				items = append(items, vCanonMeta(ms[i]))
			}
			input = ms
		}
		// the meta-entry log is written with Write (truncate + version + block); further blocks are appended so that the
		// reader's multi-block loop is exercised for that encoder too
		if h.Kind == "meta" && bi == 0 {
			err = w.Write(input)
		} else {
			err = w.Append(input)
		}
		if err != nil {
			t.Fatalf("append: %v", err)
		}
		st, _ := os.Stat(p)
		f.ends = append(f.ends, int(st.Size()))
		f.items = append(f.items, items)
	}
	w.Close()
	f.raw, _ = os.ReadFile(p)
	if len(f.raw) != f.ends[len(f.ends)-1] {
		t.Fatalf("size mismatch")
	}
	return f
}

type vRead struct {
	items   []string
	openErr string
	err     string
	panicv  string
	ms      float64
	hang    bool
}

// read a file exactly like RecoverWALData / RecoverMNameWALData / RecoverMEntryWALData: Next until error or nil
func vReadFile(kind, path string) (res vRead) {
	done := make(chan vRead, 1)
	go func() {
		var r vRead
		defer func() {
			if p := recover(); p != nil {
				r.panicv = fmt.Sprint(p)
			}
			done <- r
		}()
		switch kind {
		case "dp":
			it, err := NewWALReader(path)
			if err != nil {
				r.openErr = err.Error()
				return
			}
			defer it.Close()
			for {
				dp, err := it.Next()
				if err != nil {
					r.err = err.Error()
					return
				}
				if dp == nil {
					return
				}
				r.items = append(r.items, vCanonDp(*dp))
			}
		case "mname":
			it, err := NewMNameWalReader(path)
			if err != nil {
				r.openErr = err.Error()
				return
			}
			defer it.Close()
			for {
				s, err := it.Next()
				if err != nil {
					r.err = err.Error()
					return
				}
				if s == nil {
					return
				}
				r.items = append(r.items, *s)
			}
		case "meta":
			it, err := NewMetricsMetaEntryWalReader(path)
			if err != nil {
				r.openErr = err.Error()
				return
			}
			defer it.Close()
			for {
				m, err := it.Next()
				if err != nil {
					r.err = err.Error()
					return
				}
				if m == nil {
					return
				}
				r.items = append(r.items, vCanonMeta(m))
			}
		}
	}()
	t0 := time.Now()
	select {
	case res = <-done:
	case <-time.After(60 * time.Second):
		res.hang = true
	}
	res.ms = float64(time.Since(t0).Microseconds()) / 1000.0
	return
}

func (f *vFile) prefix(j int) []string {
	out := []string{}
	for i := 0; i < j; i++ {
		out = append(out, f.items[i]...)
	}
	return out
}

// which j (0..nblocks) is `got` the exact block-prefix of; -1 if none
func (f *vFile) prefixIndex(got []string) int {
	for j := 0; j <= len(f.items); j++ {
		p := f.prefix(j)
		if len(p) == len(got) {
			same := true
			for i := range p {
				if p[i] != got[i] {
					same = false
					break
				}
			}
			if same {
				return j
			}
		}
		if len(p) > len(got) {
			break
		}
	}
	return -1
}

// region of a file offset: (block index or -1 for the version byte, region name, first/last byte of the region?)
func (f *vFile) region(off int) (int, string, bool) {
	if off == 0 {
		return -1, "version", true
	}
	start := 1
	for b, e := range f.ends {
		if off < e {
			switch {
			case off < start+4:
				return b, "len", off == start || off == start+3
			case off < start+8:
				return b, "crc", off == start+4 || off == start+7
			default:
				return b, "payload", off == start+8 || off == e-1
			}
		}
		start = e
	}
	return len(f.ends), "beyond", false
}

func TestVerifWalReplay(t *testing.T) {
	log.SetOutput(io.Discard)
	behPath, outPath := os.Getenv("C10_BEH"), os.Getenv("C10_OUT")
	if behPath == "" || outPath == "" {
		t.Skip("C10_BEH / C10_OUT not set")
	}
	seed, _ := strconv.ParseInt(os.Getenv("C10_SEED"), 10, 64)
	sweepMax, _ := strconv.Atoi(os.Getenv("C10_SWEEP"))
	if sweepMax == 0 {
		sweepMax = 3
	}
	big := os.Getenv("C10_BIG") == "1"
	var hists []vHist
	fh, err := os.Open(behPath)
	if err != nil {
		t.Fatal(err)
	}
	sc := bufio.NewScanner(fh)
	for sc.Scan() {
		var h vHist
		if json.Unmarshal(sc.Bytes(), &h) == nil && len(h.Blocks) > 0 {
			hists = append(hists, h)
		}
	}
	fh.Close()
	res := &vResult{Classes: map[string]int{}, Sample: map[string]interface{}{}}
	dir := t.TempDir()
	mut := filepath.Join(dir, "m.wal")
	bigDone := map[string]bool{}
	var lastSys uint64
	addV := func(key, what string, replay interface{}) {
		if len(res.Violations) < 200 {
			res.Violations = append(res.Violations, vViolation{key, what, replay})
		}
	}
	for hi, h := range hists {
		r := rand.New(rand.NewSource(seed*1000003 + int64(hi)))
		f := vBuild(t, dir, h, r)
		{
			var ms runtime.MemStats
			runtime.ReadMemStats(&ms)
			lastSys = ms.Sys
		}
		res.Histories++
		rep := func(mutation string, extra map[string]interface{}) map[string]interface{} {
			m := map[string]interface{}{"level": "fn", "kind": h.Kind, "blocks": h.Blocks, "seed": seed, "history_index": hi, "mutation": mutation,
				"file_hex": fmt.Sprintf("%x", f.raw), "block_ends": f.ends, "appended": f.items}
			for k, v := range extra {
				m[k] = v
			}
			return m
		}
		check := func(mutation string, expectExact int, damaged int, reg string, rd vRead, extra map[string]interface{}) {
			res.Reads++
			if rd.ms > res.MaxReadMs {
				res.MaxReadMs = rd.ms
			}
			if rd.hang {
				addV("C10:fn:hang:"+h.Kind+":"+reg, "reader did not return within 60 s", rep(mutation, extra))
				return
			}
			if rd.panicv != "" {
				addV("C10:fn:panic:"+h.Kind+":"+reg, "reader panicked: "+rd.panicv, rep(mutation, extra))
				return
			}
			j := f.prefixIndex(rd.items)
			outcome := "prefix"
			if j < 0 {
				outcome = "NOT-PREFIX"
				e2 := map[string]interface{}{"returned": rd.items, "err": rd.err}
				for k, v := range extra {
					e2[k] = v
				}
				addV("C10:fn:invented:"+h.Kind+":"+mutation+":"+reg, fmt.Sprintf("%s log, %s in %s: the reader returned %d items that are not a block-prefix of what was appended (returned %v)",
					h.Kind, mutation, reg, len(rd.items), rd.items), rep(mutation, e2))
			} else if expectExact >= 0 && j != expectExact {
				outcome = "WRONG-PREFIX"
				e2 := map[string]interface{}{"returned_blocks": j, "expected_blocks": expectExact, "err": rd.err}
				for k, v := range extra {
					e2[k] = v
				}
				if j < expectExact {
					addV("C10:fn:lost-complete-block:"+h.Kind+":"+reg, fmt.Sprintf("%s log cut in %s: %d complete blocks precede the cut but only %d were replayed", h.Kind, reg, expectExact, j), rep(mutation, e2))
				} else {
					addV("C10:fn:invented:"+h.Kind+":"+mutation+":"+reg, fmt.Sprintf("%s log cut in %s: %d complete blocks precede the cut but %d were replayed", h.Kind, reg, expectExact, j), rep(mutation, e2))
				}
			} else if damaged >= 0 {
				if j > damaged {
					outcome = "DAMAGED-ACCEPTED"
					e2 := map[string]interface{}{"returned_blocks": j, "damaged_block": damaged}
					for k, v := range extra {
						e2[k] = v
					}
					addV("C10:fn:corrupt-accepted:"+h.Kind+":"+reg, fmt.Sprintf("%s log, byte flipped in %s of block %d: the block was accepted (%d blocks replayed)", h.Kind, reg, damaged, j), rep(mutation, e2))
				} else {
					res.IntactPrefix[1]++
					if j == damaged {
						res.IntactPrefix[0]++
					}
				}
			}
			res.Classes[h.Kind+"/"+mutation+"/"+reg+"/"+outcome]++
		}
		// intact file: everything, no error
		if err := os.WriteFile(mut, f.raw, 0644); err != nil {
			t.Fatal(err)
		}
		rd := vReadFile(h.Kind, mut)
		check("intact", len(f.items), -1, "none", rd, nil)
		if rd.err != "" || rd.openErr != "" {
			addV("C10:fn:intact-error:"+h.Kind, "intact log read ended with an error: "+rd.err+rd.openErr, rep("intact", nil))
		}
		if len(res.Sample) == 0 {
			res.Sample = rep("intact", map[string]interface{}{"returned": rd.items})
		}
		// every truncation length
		for L := 0; L < len(f.raw); L++ {
			if err := os.WriteFile(mut, f.raw[:L], 0644); err != nil {
				t.Fatal(err)
			}
			complete := 0
			for _, e := range f.ends {
				if e <= L {
					complete++
				}
			}
			_, reg, _ := f.region(L)
			onBoundary := L == 1
			for _, e := range f.ends {
				if e == L {
					onBoundary = true
				}
			}
			if onBoundary {
				reg = "boundary"
			}
			rd := vReadFile(h.Kind, mut)
			res.Truncations++
			check("truncate", complete, -1, reg, rd, map[string]interface{}{"truncate_to": L})
		}
		// single-byte flips
		buf := make([]byte, len(f.raw))
		for off := 0; off < len(f.raw); off++ {
			blk, reg, edge := f.region(off)
			var vals []byte
			if edge && len(h.Blocks) <= sweepMax {
				for v := 0; v < 256; v++ {
					if byte(v) != f.raw[off] {
						vals = append(vals, byte(v))
					}
				}
			} else {
				vals = []byte{f.raw[off] ^ 0x01, f.raw[off] ^ 0x80, f.raw[off] ^ 0xff}
			}
			for _, v := range vals {
				copy(buf, f.raw)
				buf[off] = v
				var want uint64
				if reg == "len" {
					start := 1
					if blk > 0 {
						start = f.ends[blk-1]
					}
					bs := binary.LittleEndian.Uint32(buf[start : start+4])
					if bs >= 4 {
						want = uint64(bs - 4)
					}
				}
				extra := map[string]interface{}{"offset": off, "value": v, "region": reg, "block": blk}
				if want > vLargeLimit {
					// a huge allocation (1 ms / MiB): only a sample of these is executed (the code path is the same: ReadFull hits EOF)
					key := h.Kind + "/" + strconv.Itoa(int(v>>6))
					if !big || bigDone[key] {
						res.SkippedLarge++
						continue
					}
					bigDone[key] = true
				}
				if err := os.WriteFile(mut, buf, 0644); err != nil {
					t.Fatal(err)
				}
				var m0 runtime.MemStats
				if want > vLargeLimit {
					runtime.GC()
					runtime.ReadMemStats(&m0)
				}
				rd := vReadFile(h.Kind, mut)
				res.Flips++
				if want > res.MaxAlloc {
					res.MaxAlloc = want
					res.MaxAllocCase = map[string]interface{}{"kind": h.Kind, "blocks": h.Blocks, "offset": off, "value": v, "requested_bytes": want, "read_ms": rd.ms, "err": rd.err}
				}
				if want > vLargeLimit {
					var m1 runtime.MemStats
					runtime.ReadMemStats(&m1)
					res.Big = append(res.Big, map[string]interface{}{"kind": h.Kind, "offset": off, "value": v, "requested_bytes": want, "read_ms": rd.ms,
						"sys_growth_mib": (int64(m1.Sys) - int64(m0.Sys)) >> 20, "err": rd.err})
					runtime.GC()
				}
				if rd.ms > 2000 {
					// slow: was it a giant allocation for a length field that asks for little?  (deterministic, unlike the time)
					var ms runtime.MemStats
					runtime.ReadMemStats(&ms)
					grown := (int64(ms.Sys) - int64(lastSys)) >> 20
					lastSys = ms.Sys
					res.Slow = append(res.Slow, map[string]interface{}{"kind": h.Kind, "blocks": h.Blocks, "offset": off, "value": v, "requested_bytes": want,
						"read_ms": rd.ms, "sys_growth_mib": grown})
					if grown >= 1024 && want <= vLargeLimit {
						extra["read_ms"], extra["sys_growth_mib"] = rd.ms, grown
						addV("C10:fn:huge-allocation:"+h.Kind+":"+reg, fmt.Sprintf("%s log, byte %d set to 0x%02x (%s of block %d): the reader took %d MiB from the OS and %.0f ms before it rejected the block",
							h.Kind, off, v, reg, blk, grown, rd.ms), rep("flip", extra))
					}
				}
				dmg := blk
				if blk < 0 {
					dmg = 0 // version byte: nothing may be replayed
				}
				check("flip", -1, dmg, reg, rd, extra)
			}
		}
	}
	out, _ := json.Marshal(res)
	if err := os.WriteFile(outPath, out, 0644); err != nil {
		t.Fatal(err)
	}
}

// One corrupt length field, alone in the process: how long does the reader take and how much memory does it ask for?
// env: C10_OUT, C10_LEN (the 32-bit length value to plant)
func TestVerifWalBigLen(t *testing.T) {
	log.SetOutput(io.Discard)
	outPath := os.Getenv("C10_OUT")
	if outPath == "" {
		t.Skip("C10_OUT not set")
	}
	lenv, _ := strconv.ParseUint(os.Getenv("C10_LEN"), 0, 32)
	kind := os.Getenv("C10_KIND")
	if kind == "" {
		kind = "dp"
	}
	dir := t.TempDir()
	f := vBuild(t, dir, vHist{Kind: kind, Blocks: []int{2, 1}}, rand.New(rand.NewSource(7)))
	buf := append([]byte{}, f.raw...)
	binary.LittleEndian.PutUint32(buf[1:5], uint32(lenv))
	p := filepath.Join(dir, "big.wal")
	if err := os.WriteFile(p, buf, 0644); err != nil {
		t.Fatal(err)
	}
	var m0, m1 runtime.MemStats
	runtime.ReadMemStats(&m0)
	rd := vReadFile(kind, p)
	runtime.ReadMemStats(&m1)
	out, _ := json.Marshal(map[string]interface{}{"kind": kind, "len": lenv, "read_ms": rd.ms, "items": len(rd.items), "err": rd.err, "panic": rd.panicv, "hang": rd.hang,
		"sys_growth_mib": (int64(m1.Sys) - int64(m0.Sys)) >> 20, "file_hex": fmt.Sprintf("%x", buf)})
	_ = os.WriteFile(outPath, out, 0644)
}
