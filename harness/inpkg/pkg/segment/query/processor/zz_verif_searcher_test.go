//go:build verif

// C05 binding, function level.  Two tests:
//
//   TestVerifSearcher  replays TLC-generated behaviours of spec/Searcher.tla (one JSON line per behaviour) on the
//     REAL functions of searcher.go: getQSRSToProcess (cut-off rule, shouldProcessQSR, willProcessQSRCompletely),
//     getFilteredBlocks (shouldProcessBlock, processedBlocks), sortBlocks, getNextBlocks, sortRRCs,
//     utils.MergeSortedSlices with getSortingFunc, getValidRRCs.  One implementation test per model transition: the
//     values each real function returns are compared with what the spec computed for the same transition.  The run is
//     driven by the REAL return values; the only harness-side logic is the six lines of fetchRRCs that glue those
//     calls together (endTime := max/min(endTime, cutOff); drop the taken blocks; gotBlocks := false when nothing
//     remains or endTime = cutOff; EOF test) - those lines are what the e2e level of c05.py exercises in the engine.
//     At the end of each behaviour the output composed from the real functions is checked against the property itself
//     (sorted in the requested direction, every record exactly once, termination).
//
//   TestVerifSortLess  evaluates the REAL compareValues / sortProcessor.less / lessDirectRead on TLC-generated value
//     pairs and multi-key rows (spec/SortOrder.tla) and runs the real sort processor over TLC-chosen rows.
package processor

import (
	"bufio"
	"container/list"
	"encoding/json"
	"fmt"
	"os"
	"sort"
	"testing"

	dtu "github.com/siglens/siglens/pkg/common/dtypeutils"
	"github.com/siglens/siglens/pkg/segment/query"
	"github.com/siglens/siglens/pkg/segment/structs"
	sutils "github.com/siglens/siglens/pkg/segment/utils"
	"github.com/siglens/siglens/pkg/utils"
)

type vsStep struct {
	A         string   `json:"a"`
	Qsrs      []int    `json:"qsrs"`
	CutOff    uint64   `json:"cutOff"`
	Taken     []int    `json:"taken"`
	NewBlocks [][2]int `json:"newBlocks"`
	Unproc    []int    `json:"unproc"`
	Remaining [][2]int `json:"remaining"`
	GotAll    bool     `json:"gotAll"`
	Next      [][2]int `json:"next"`
	EndTime0  uint64   `json:"endTime0"`
	EndTime   uint64   `json:"endTime"`
	Released  [][4]int `json:"released"`
	NMerged   int      `json:"nmerged"`
	GotBlocks bool     `json:"gotBlocks"`
}

type vsBeh struct {
	RF    bool       `json:"rf"`
	MaxB  int        `json:"maxb"`
	Cfg   [][][]int  `json:"cfg"`
	Steps []vsStep   `json:"steps"`
	Out   [][4]int   `json:"out"`
}

type vsFail struct {
	Kind   string      `json:"kind"` // conformance: "getQSRSToProcess" ...; property: "prop-unsorted" | "prop-lost" | "prop-dup" | "prop-no-termination"
	Beh    int         `json:"beh"`
	Step   int         `json:"step"`
	Detail string      `json:"detail"`
	Input  interface{} `json:"input"`
}

const vsBase = uint64(1_700_000_000_000)

func vsSegKey(s int) string { return fmt.Sprintf("seg%d", s) }

func vsSet2(l [][2]int) string {
	c := make([]string, len(l))
	for i, x := range l {
		c[i] = fmt.Sprintf("%d.%d", x[0], x[1])
	}
	sort.Strings(c)
	return fmt.Sprint(c)
}

func vsSetI(l []int) string {
	c := append([]int{}, l...)
	sort.Ints(c)
	return fmt.Sprint(c)
}

type vsRun struct {
	b        *vsBeh
	mode     sortMode
	s        *Searcher
	qsrOf    map[int]*query.QuerySegmentRequest
	segOf    map[string]int
	remain   []*block
	unsent   []*sutils.RecordResultContainer
	out      []*sutils.RecordResultContainer
	gotBlks  bool
	fails    []vsFail
	diverged bool
	behIdx   int
}

func (r *vsRun) fail(kind string, step int, detail string, input interface{}) {
	r.fails = append(r.fails, vsFail{kind, r.behIdx, step, detail, input})
	if kind[:4] != "prop" {
		r.diverged = true
	}
}

func (r *vsRun) blocksOfSeg(sg int) []*block {
	var res []*block
	for bi, recs := range r.b.Cfg[sg-1] {
		lo, hi := recs[0], recs[len(recs)-1]
		res = append(res, &block{
			BlockSummary: &structs.BlockSummary{HighTs: vsBase + uint64(hi), LowTs: vsBase + uint64(lo), RecCount: uint16(len(recs))},
			parentQSR:    r.qsrOf[sg],
			BlkNum:       uint16(bi + 1),
		})
	}
	return res
}

func (r *vsRun) idsOf(bl []*block) [][2]int {
	res := make([][2]int, len(bl))
	for i, b := range bl {
		res[i] = [2]int{r.segOf[b.parentQSR.GetSegKey()], int(b.BlkNum)}
	}
	return res
}

func (r *vsRun) startOf(b *block) uint64 {
	if r.mode == recentFirst {
		return b.HighTs
	}
	return b.LowTs
}

func (r *vsRun) cfgStart(id [2]int) uint64 {
	recs := r.b.Cfg[id[0]-1][id[1]-1]
	if r.mode == recentFirst {
		return vsBase + uint64(recs[len(recs)-1])
	}
	return vsBase + uint64(recs[0])
}

// the GetBlocks transition: real getQSRSToProcess + getFilteredBlocks + sortBlocks
func (r *vsRun) getBlocks(si int, st *vsStep) {
	cmp := st != nil && !r.diverged
	before := []int{}
	for e := r.s.unprocessedQSRs.Front(); e != nil; e = e.Next() {
		before = append(before, r.segOf[e.Value.(*query.QuerySegmentRequest).GetSegKey()])
	}
	qsrs, err := r.s.getQSRSToProcess()
	if err != nil {
		r.fail("getQSRSToProcess", si, "error: "+err.Error(), before)
		return
	}
	taken := []int{}
	for _, q := range qsrs {
		taken = append(taken, r.segOf[q.GetSegKey()])
	}
	after := []int{}
	for e := r.s.unprocessedQSRs.Front(); e != nil; e = e.Next() {
		after = append(after, r.segOf[e.Value.(*query.QuerySegmentRequest).GetSegKey()])
	}
	in := map[string]interface{}{"cfg": r.b.Cfg, "rf": r.b.RF, "unprocessed": before}
	if cmp {
		if len(before) > 0 && r.s.cutOffTimestampInMs != vsBase+st.CutOff {
			r.fail("getQSRSToProcess", si, fmt.Sprintf("cutOffTimestampInMs=%d, spec %d", r.s.cutOffTimestampInMs-vsBase, st.CutOff), in)
		}
		if vsSetI(taken) != vsSetI(st.Taken) {
			r.fail("getQSRSToProcess", si, fmt.Sprintf("segments taken %v, spec %v (cutOff %d)", taken, st.Taken, st.CutOff), in)
		}
		if fmt.Sprint(after) != fmt.Sprint(st.Unproc) && !(len(after) == 0 && len(st.Unproc) == 0) {
			r.fail("getQSRSToProcess", si, fmt.Sprintf("unprocessedQSRs afterwards %v, spec %v", after, st.Unproc), in)
		}
		if r.s.gotAllSegments != st.GotAll {
			r.fail("getQSRSToProcess", si, fmt.Sprintf("gotAllSegments=%v, spec %v", r.s.gotAllSegments, st.GotAll), in)
		}
	}
	var all []*block
	for _, sg := range taken {
		all = append(all, r.blocksOfSeg(sg)...)
	}
	filtered := r.s.getFilteredBlocks(all)
	if cmp && vsSet2(r.idsOf(filtered)) != vsSet2(st.NewBlocks) {
		in["taken"] = taken
		in["cutOff"] = r.s.cutOffTimestampInMs - vsBase
		r.fail("getFilteredBlocks", si, fmt.Sprintf("blocks %v, spec %v", r.idsOf(filtered), st.NewBlocks), in)
	}
	blocks := append(filtered, r.remain...)
	inIds := r.idsOf(blocks)
	if err := sortBlocks(blocks, r.mode); err != nil {
		r.fail("sortBlocks", si, "error: "+err.Error(), inIds)
		return
	}
	if cmp && !r.diverged {
		ok := len(blocks) == len(st.Remaining) && vsSet2(r.idsOf(blocks)) == vsSet2(st.Remaining)
		for i := 0; ok && i < len(blocks); i++ {
			ok = r.startOf(blocks[i]) == r.cfgStart(st.Remaining[i])
		}
		if !ok {
			r.fail("sortBlocks", si, fmt.Sprintf("order %v, spec (up to ties) %v", r.idsOf(blocks), st.Remaining),
				map[string]interface{}{"cfg": r.b.Cfg, "rf": r.b.RF, "blocks": inIds})
		}
	}
	r.remain = blocks
	r.gotBlks = true
}

func (r *vsRun) rrcsOfBlocks(bl []*block) []*sutils.RecordResultContainer {
	var res []*sutils.RecordResultContainer
	for _, b := range bl {
		sg := r.segOf[b.parentQSR.GetSegKey()]
		for k, ts := range r.b.Cfg[sg-1][int(b.BlkNum)-1] {
			res = append(res, &sutils.RecordResultContainer{
				SegKeyInfo: sutils.SegKeyInfo{SegKeyEnc: uint32(sg)}, BlockNum: b.BlkNum, RecordNum: uint16(k + 1),
				TimeStamp: vsBase + uint64(ts)})
		}
	}
	return res
}

func vsRec(c *sutils.RecordResultContainer) [4]int {
	return [4]int{int(c.TimeStamp - vsBase), int(c.SegKeyInfo.SegKeyEnc), int(c.BlockNum), int(c.RecordNum)}
}

func vsRecs(l []*sutils.RecordResultContainer) [][4]int {
	res := make([][4]int, len(l))
	for i, c := range l {
		res[i] = vsRec(c)
	}
	return res
}

func vsSameUpToTies(a, b [][4]int) bool {
	if len(a) != len(b) {
		return false
	}
	for i := range a {
		if a[i][0] != b[i][0] {
			return false
		}
	}
	sa, sb := make([]string, len(a)), make([]string, len(b))
	for i := range a {
		sa[i], sb[i] = fmt.Sprint(a[i]), fmt.Sprint(b[i])
	}
	sort.Strings(sa)
	sort.Strings(sb)
	return fmt.Sprint(sa) == fmt.Sprint(sb)
}

// the Fetch transition: real getNextBlocks, sortRRCs, MergeSortedSlices(getSortingFunc), getValidRRCs.
// returns true at EOF
func (r *vsRun) fetch(si int, st *vsStep) bool {
	cmp := st != nil && !r.diverged
	if len(r.remain) == 0 && len(r.unsent) == 0 && r.s.gotAllSegments {
		return true
	}
	sortedIds := r.idsOf(r.remain)
	next, et0, err := getNextBlocks(r.remain, r.b.MaxB, r.mode)
	in := map[string]interface{}{"cfg": r.b.Cfg, "rf": r.b.RF, "sortedBlocks": sortedIds, "maxBlocks": r.b.MaxB}
	if err != nil {
		r.fail("getNextBlocks", si, "error: "+err.Error(), in)
		return true
	}
	et0m := uint64(0)
	if len(r.remain) > 0 {
		et0m = et0 - vsBase
	} else {
		et0m = et0
	}
	if cmp {
		if vsSet2(r.idsOf(next)) != vsSet2(st.Next) {
			r.fail("getNextBlocks", si, fmt.Sprintf("blocks %v, spec %v", r.idsOf(next), st.Next), in)
		} else if et0m != st.EndTime0 {
			r.fail("getNextBlocks", si, fmt.Sprintf("endTime %d, spec %d", et0m, st.EndTime0), in)
		}
	}
	// ---- glue of fetchRRCs (transcribed; exercised for real by the e2e level)
	endTime := et0
	if len(r.remain) == 0 {
		endTime = 0
	}
	switch r.mode {
	case recentFirst:
		endTime = max(endTime, r.s.cutOffTimestampInMs)
	case recentLast:
		endTime = min(endTime, r.s.cutOffTimestampInMs)
	}
	r.remain = r.remain[len(next):]
	if len(r.remain) == 0 || endTime == r.s.cutOffTimestampInMs {
		r.gotBlks = false
	}
	// ---- per segment: records of the taken blocks, sorted by the real sortRRCs (as readSortedRRCs does)
	slices := make([][]*sutils.RecordResultContainer, 0)
	_, _ = utils.BatchProcess(next, func(b *block) string { return b.parentQSR.GetSegKey() },
		utils.None[func(string, string) bool](), func(bl []*block) ([]*struct{}, error) {
			rr := r.rrcsOfBlocks(bl)
			_ = sortRRCs(rr, r.mode)
			slices = append(slices, rr)
			return nil, nil
		}, 1)
	slices = append(slices, r.unsent)
	lessFn, _ := getSortingFunc(r.mode)
	merged := utils.MergeSortedSlices(lessFn, slices...)
	if cmp && len(merged) != st.NMerged {
		r.fail("MergeSortedSlices", si, fmt.Sprintf("%d records after merge, spec %d", len(merged), st.NMerged), in)
	}
	valid, err := getValidRRCs(merged, endTime, r.mode)
	if err != nil {
		r.fail("getValidRRCs", si, "error: "+err.Error(), in)
		return true
	}
	if cmp && !r.diverged && !vsSameUpToTies(vsRecs(valid), st.Released) {
		et := int64(endTime) - int64(vsBase)
		r.fail("getValidRRCs", si, fmt.Sprintf("released %v, spec %v (endTime %d)", vsRecs(valid), st.Released, et),
			map[string]interface{}{"sortedRRCs": vsRecs(merged), "lastTimestamp": et, "rf": r.b.RF})
	}
	r.unsent = merged[len(valid):]
	r.out = append(r.out, valid...)
	return false
}

func vsReplay(bi int, b *vsBeh) []vsFail {
	r := &vsRun{b: b, behIdx: bi, qsrOf: map[int]*query.QuerySegmentRequest{}, segOf: map[string]int{}}
	r.mode = recentLast
	if b.RF {
		r.mode = recentFirst
	}
	for sg := range b.Cfg {
		lo, hi := 1<<30, -1
		for _, recs := range b.Cfg[sg] {
			lo, hi = min(lo, recs[0]), max(hi, recs[len(recs)-1])
		}
		q := &query.QuerySegmentRequest{}
		q.SetSegKey(vsSegKey(sg + 1))
		q.SetTimeRange(&dtu.TimeRange{StartEpochMs: vsBase + uint64(lo), EndEpochMs: vsBase + uint64(hi)})
		r.qsrOf[sg+1] = q
		r.segOf[vsSegKey(sg+1)] = sg + 1
	}
	r.s = &Searcher{sortMode: r.mode}
	steps := b.Steps
	if len(steps) == 0 || steps[0].A != "InitQSRs" {
		return nil
	}
	for _, sg := range steps[0].Qsrs {
		r.s.qsrs = append(r.s.qsrs, r.qsrOf[sg])
	}
	r.s.initUnprocessedQSRs()
	if r.s.unprocessedQSRs == nil {
		r.s.unprocessedQSRs = list.New()
	}
	si := 1
	eof := false
	for n := 0; n < 200 && !eof; n++ {
		var st *vsStep
		if si < len(steps) {
			st = &steps[si]
		}
		if !r.gotBlks {
			if st != nil && st.A != "GetBlocks" && !r.diverged {
				r.fail("schedule", si, "engine-side run calls getBlocks, spec step is "+st.A, nil)
			}
			r.getBlocks(si, st)
		} else {
			if st != nil && st.A == "EOF" {
				st = nil
				if !(len(r.remain) == 0 && len(r.unsent) == 0 && r.s.gotAllSegments) && !r.diverged {
					r.fail("schedule", si, "spec is at EOF, the run composed of the real functions is not", nil)
				}
			} else if st != nil && st.A != "Fetch" && !r.diverged {
				r.fail("schedule", si, "engine-side run fetches, spec step is "+st.A, nil)
			}
			eof = r.fetch(si, st)
		}
		si++
	}
	// ---- the property on the output composed from the real functions
	outR := vsRecs(r.out)
	cfgIn := map[string]interface{}{"cfg": b.Cfg, "rf": b.RF, "maxb": b.MaxB, "qsrs": steps[0].Qsrs, "out": outR}
	if !eof {
		r.fail("prop-no-termination", si, "scheduler composed of the real functions does not reach EOF within 200 fetches", cfgIn)
	}
	for i := 0; i+1 < len(outR); i++ {
		if (b.RF && outR[i][0] < outR[i+1][0]) || (!b.RF && outR[i][0] > outR[i+1][0]) {
			r.fail("prop-unsorted", si, fmt.Sprintf("output position %d: ts %d then %d", i, outR[i][0], outR[i+1][0]), cfgIn)
			break
		}
	}
	seen := map[[4]int]int{}
	for _, x := range outR {
		seen[x]++
	}
	total := 0
	for sg := range b.Cfg {
		for bk := range b.Cfg[sg] {
			for k, ts := range b.Cfg[sg][bk] {
				total++
				id := [4]int{ts, sg + 1, bk + 1, k + 1}
				if eof && seen[id] == 0 {
					r.fail("prop-lost", si, fmt.Sprintf("record %v never returned", id), cfgIn)
				}
			}
		}
	}
	for id, c := range seen {
		if c > 1 {
			r.fail("prop-dup", si, fmt.Sprintf("record %v returned %d times", id, c), cfgIn)
		}
	}
	return r.fails
}

func TestVerifSearcher(t *testing.T) {
	in, out := os.Getenv("VERIF_SRCH_IN"), os.Getenv("VERIF_SRCH_OUT")
	if in == "" || out == "" {
		t.Skip("VERIF_SRCH_IN/VERIF_SRCH_OUT not set")
	}
	f, err := os.Open(in)
	if err != nil {
		t.Fatal(err)
	}
	defer f.Close()
	sc := bufio.NewScanner(f)
	sc.Buffer(make([]byte, 1<<20), 1<<26)
	nb, nsteps := 0, 0
	perKind := map[string]int{}
	fails := []vsFail{}
	trans := map[string]int{}
	for sc.Scan() {
		var b vsBeh
		if err := json.Unmarshal(sc.Bytes(), &b); err != nil || len(b.Steps) == 0 {
			continue
		}
		fs := vsReplay(nb, &b)
		nb++
		nsteps += len(b.Steps)
		for _, s := range b.Steps {
			trans[s.A]++
		}
		for _, fl := range fs {
			perKind[fl.Kind]++
			if perKind[fl.Kind] <= 5 {
				fails = append(fails, fl)
			}
		}
	}
	res := map[string]interface{}{"behaviours": nb, "steps": nsteps, "fails": fails, "fail_counts": perKind, "transitions": trans}
	bs, _ := json.Marshal(res)
	if err := os.WriteFile(out, bs, 0o644); err != nil {
		t.Fatal(err)
	}
}

// ---------------------------------------------------------------------------------------------------------------
// sort `less`: the real compareValues / sortProcessor.less / lessDirectRead on TLC-generated value pairs

type vsPair struct {
	A   interface{} `json:"a"`
	B   interface{} `json:"b"`
	Asc bool        `json:"asc"`
	Op  string      `json:"op"`
	Rel string      `json:"rel"`
}

func TestVerifSortLess(t *testing.T) {
	in, out := os.Getenv("VERIF_LESS_IN"), os.Getenv("VERIF_LESS_OUT")
	if in == "" || out == "" {
		t.Skip("VERIF_LESS_IN/VERIF_LESS_OUT not set")
	}
	raw, err := os.ReadFile(in)
	if err != nil {
		t.Fatal(err)
	}
	var pairs []vsPair
	dec := json.NewDecoder(bytesReaderVerif(raw))
	dec.UseNumber()
	if err := dec.Decode(&pairs); err != nil {
		t.Fatal(err)
	}
	type fail struct {
		I   int    `json:"i"`
		Got string `json:"got"`
		Via string `json:"via"`
	}
	fails := []fail{}
	name := map[compare]string{EQUAL: "eq", LESS: "lt", GREATER: "gt"}
	for i, p := range pairs {
		va, vb := verifToCVal(p.A), verifToCVal(p.B)
		op := p.Op
		if op == "auto" && i%2 == 0 {
			op = "" // both spellings of the default
		}
		got := name[compareValues(&va, &vb, p.Asc, op)]
		if got != p.Rel {
			fails = append(fails, fail{i, got, "compareValues"})
			continue
		}
		// the same through sortProcessor.less (SortValues) and lessDirectRead (IQR columns)
		sp := &sortProcessor{options: &structs.SortExpr{SortEles: []*structs.SortElement{{Field: "k1", SortByAsc: p.Asc, Op: op}}}}
		q := iqrNewVerif(map[string][]sutils.CValueEnclosure{"k1": {va, vb}})
		vals, _ := q.ReadColumn("k1")
		ra, rb := q.GetRecord(0), q.GetRecord(1)
		ra.SortValues, rb.SortValues = [][]sutils.CValueEnclosure{vals}, [][]sutils.CValueEnclosure{vals}
		l1, l2 := sp.less(ra, rb), sp.less(rb, ra)
		d1, d2 := sp.lessDirectRead(q.GetRecord(0), q.GetRecord(1)), sp.lessDirectRead(q.GetRecord(1), q.GetRecord(0))
		want1, want2 := p.Rel == "lt", p.Rel == "gt"
		if l1 != want1 || l2 != want2 {
			fails = append(fails, fail{i, fmt.Sprintf("less(a,b)=%v less(b,a)=%v", l1, l2), "sortProcessor.less"})
		} else if d1 != want1 || d2 != want2 {
			fails = append(fails, fail{i, fmt.Sprintf("lessDirectRead(a,b)=%v (b,a)=%v", d1, d2), "lessDirectRead"})
		}
	}
	bs, _ := json.Marshal(map[string]interface{}{"pairs": len(pairs), "fails": fails})
	if err := os.WriteFile(out, bs, 0o644); err != nil {
		t.Fatal(err)
	}
}
