//go:build verif

// C06 binding (external-package half): owns the only thing the in-package half cannot import - the real
// SPL parser (pkg/ast/pipesearch imports package processor).  See zz_verif_pipeline_test.go.
package processor_test

import (
	"os"
	"testing"

	"github.com/siglens/siglens/pkg/ast/pipesearch"
	"github.com/siglens/siglens/pkg/config"
	"github.com/siglens/siglens/pkg/segment/query/processor"
	"github.com/siglens/siglens/pkg/segment/structs"
	log "github.com/sirupsen/logrus"
)

func TestVerifPipeline(t *testing.T) {
	in, out := os.Getenv("VERIF_PIPE_IN"), os.Getenv("VERIF_PIPE_OUT")
	if in == "" || out == "" {
		t.Skip("VERIF_PIPE_IN/VERIF_PIPE_OUT not set")
	}
	config.InitializeTestingConfig(t.TempDir())
	config.SetNewQueryPipelineEnabled(true) // production default (server.yaml: UseNewQueryPipeline defaults to "true"); the testing config leaves it false
	log.SetLevel(log.PanicLevel)
	processor.VerifParse = func(spl string) (*structs.QueryAggregators, error) {
		_, aggs, _, err := pipesearch.ParseRequest("* | "+spl, 1, 4_000_000_000_000, 0, "Splunk QL", "ind-0")
		return aggs, err
	}
	if err := processor.VerifRunPipelineCases(in, out); err != nil {
		t.Fatal(err)
	}
}
