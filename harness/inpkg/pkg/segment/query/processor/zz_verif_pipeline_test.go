//go:build verif

// C06 binding (in-package half).  Runs TLC-enumerated pipeline behaviours on the REAL DataProcessor chain:
// the chain is built by the real AggsToDataProcessors / setMergeSettings / SetupQueryParallelism from the
// QueryAggregators the real SPL parser produced (parsing lives in zz_verif_pipelinex_test.go, package
// processor_test, because the parser imports this package); the input is a synthetic Streamer that yields
// exactly the batches of the behaviour.  Nothing of the pipeline semantics is re-implemented here: this file
// only converts JSON <-> IQR and drains Fetch().  Comparison with the model happens in checks/c06.py.
package processor

import (
	"bufio"
	"encoding/json"
	"fmt"
	"io"
	"math"
	"bytes"
	"os"
	"runtime"
	"runtime/debug"
	"sort"
	"time"

	"github.com/siglens/siglens/pkg/segment/query/iqr"
	"github.com/siglens/siglens/pkg/segment/structs"
	sutils "github.com/siglens/siglens/pkg/segment/utils"
)

// One behaviour.  Streams[k] is the list of batches upstream chain k yields; a batch is a list of row
// indexes into Rows (so the harness never invents data).  With a single stream this is a plain chunking.
type VerifPipeCase struct {
	Id      string          `json:"id"`
	Spl     string          `json:"spl"`
	Cols    []string        `json:"cols"`
	Rows    [][]interface{} `json:"rows"`
	Streams [][][]int       `json:"streams"`
	EofLast bool            `json:"eof_last"` // last batch is returned together with io.EOF (legal for a Streamer)
	Par     int             `json:"par"`      // >1: build chains with SetupQueryParallelism, one synthetic stream per chain
	Sparse  bool            `json:"sparse"`   // a column that is null in every row of a batch is absent from that batch's IQR (as a segment without that column)
}

type VerifPipeResult struct {
	Id      string                   `json:"id"`
	Rows    []map[string]interface{} `json:"rows"`
	Batches []int                    `json:"batches"` // rows per output batch
	Err     string                   `json:"err,omitempty"`
	Panic   string                   `json:"panic,omitempty"`
	Hang    bool                     `json:"hang,omitempty"`
	Chain   string                   `json:"chain,omitempty"`
	NChains int                      `json:"nchains,omitempty"`
}

type verifStream struct {
	c       *VerifPipeCase
	batches [][]int
	pos     int
}

func verifToCVal(v interface{}) sutils.CValueEnclosure {
	switch t := v.(type) {
	case nil:
		return sutils.CValueEnclosure{Dtype: sutils.SS_DT_BACKFILL, CVal: nil}
	case string:
		return sutils.CValueEnclosure{Dtype: sutils.SS_DT_STRING, CVal: t}
	case bool:
		return sutils.CValueEnclosure{Dtype: sutils.SS_DT_BOOL, CVal: t}
	case json.Number:
		if i, err := t.Int64(); err == nil {
			return sutils.CValueEnclosure{Dtype: sutils.SS_DT_SIGNED_NUM, CVal: i}
		}
		f, _ := t.Float64()
		return sutils.CValueEnclosure{Dtype: sutils.SS_DT_FLOAT, CVal: f}
	case float64:
		if t == math.Trunc(t) && math.Abs(t) < 1e15 {
			return sutils.CValueEnclosure{Dtype: sutils.SS_DT_SIGNED_NUM, CVal: int64(t)}
		}
		return sutils.CValueEnclosure{Dtype: sutils.SS_DT_FLOAT, CVal: t}
	case map[string]interface{}:
		// {"f": 1.5} forces a float, {"u": 3} an unsigned
		if f, ok := t["f"]; ok {
			x, _ := f.(json.Number).Float64()
			return sutils.CValueEnclosure{Dtype: sutils.SS_DT_FLOAT, CVal: x}
		}
		if u, ok := t["u"]; ok {
			x, _ := u.(json.Number).Int64()
			return sutils.CValueEnclosure{Dtype: sutils.SS_DT_UNSIGNED_NUM, CVal: uint64(x)}
		}
	}
	return sutils.CValueEnclosure{Dtype: sutils.SS_DT_STRING, CVal: fmt.Sprint(v)}
}

func (s *verifStream) mk(idx []int) (*iqr.IQR, error) {
	kv := map[string][]sutils.CValueEnclosure{}
	for ci, cn := range s.c.Cols {
		vals := make([]sutils.CValueEnclosure, len(idx))
		allNull := len(idx) > 0
		for k, ri := range idx {
			vals[k] = verifToCVal(s.c.Rows[ri][ci])
			if s.c.Rows[ri][ci] != nil {
				allNull = false
			}
		}
		if s.c.Sparse && allNull {
			continue
		}
		kv[cn] = vals
	}
	q := iqr.NewIQR(0)
	if err := q.AppendKnownValues(kv); err != nil {
		return nil, err
	}
	return q, nil
}

func (s *verifStream) Fetch() (*iqr.IQR, error) {
	if s.pos >= len(s.batches) {
		return nil, io.EOF
	}
	q, err := s.mk(s.batches[s.pos])
	if err != nil {
		return nil, err
	}
	s.pos++
	if s.c.EofLast && s.pos == len(s.batches) {
		return q, io.EOF
	}
	return q, nil
}
func (s *verifStream) Rewind()        { s.pos = 0 }
func (s *verifStream) Cleanup()       {}
func (s verifStream) String() string { return "<verif stream>" }

func verifFromCVal(c sutils.CValueEnclosure) interface{} {
	switch c.Dtype {
	case sutils.SS_DT_BACKFILL, sutils.SS_INVALID:
		return nil
	case sutils.SS_DT_STRING:
		return []interface{}{"s", c.CVal}
	case sutils.SS_DT_BOOL:
		return []interface{}{"b", c.CVal}
	case sutils.SS_DT_FLOAT:
		f, _ := c.CVal.(float64)
		if math.IsNaN(f) || math.IsInf(f, 0) {
			return []interface{}{"f", fmt.Sprint(f)}
		}
		return []interface{}{"f", f}
	case sutils.SS_DT_STRING_SLICE:
		return []interface{}{"l", c.CVal}
	default:
		if f, err := c.GetFloatValue(); err == nil {
			return []interface{}{"i", f}
		}
		return []interface{}{"o", fmt.Sprint(c.CVal)}
	}
}

func verifRowsOf(q *iqr.IQR) ([]map[string]interface{}, error) {
	if q == nil {
		return nil, nil
	}
	n := q.NumberOfRecords()
	if n == 0 {
		return nil, nil
	}
	cols, err := q.GetColumns()
	if err != nil {
		return nil, err
	}
	rows := make([]map[string]interface{}, n)
	for i := range rows {
		rows[i] = map[string]interface{}{}
	}
	names := make([]string, 0, len(cols))
	for c := range cols {
		names = append(names, c)
	}
	sort.Strings(names)
	for _, cn := range names {
		vals, err := q.ReadColumn(cn)
		if err != nil {
			return nil, fmt.Errorf("ReadColumn(%s): %v", cn, err)
		}
		for i := 0; i < n && i < len(vals); i++ {
			rows[i][cn] = verifFromCVal(vals[i])
		}
	}
	return rows, nil
}

// build the chain(s) exactly as NewQueryProcessor does (minus the Searcher): AggsToDataProcessors +
// setMergeSettings per chain, SetupQueryParallelism when par > 1, then connect the DPs of each chain.
func verifBuild(c *VerifPipeCase, aggs *structs.QueryAggregators) (*DataProcessor, string, int, error) {
	factory := func() []*DataProcessor {
		// a fresh parse per chain: processors keep state inside their option structs (head.Done, streamstats...)
		a, err := VerifParse(c.Spl)
		if err != nil || a == nil {
			return nil
		}
		ch := AggsToDataProcessors(a, nil)
		_ = setMergeSettings(ch)
		return ch
	}
	// exactly what NewQueryProcessor does, also for one chain: SetupQueryParallelism inserts the merger DP after a
	// mergeable bottleneck (sort, stats) and switches stats to IQR-stats results even when GOMAXPROCS = 1
	par := c.Par
	if par < 1 {
		par = 1
	}
	old := runtimeGOMAXPROCS(par)
	chains, err := SetupQueryParallelism(false, factory)
	runtimeGOMAXPROCS(old)
	if err != nil {
		return nil, "", 0, err
	}
	if len(chains) == 0 || len(chains[0]) == 0 {
		return nil, "", 0, fmt.Errorf("no data processors for %q", c.Spl)
	}
	// clones that are empty (the merge point is the first command) read nothing of their own in the engine: the
	// shared searcher stream is then consumed by chain 0 alone
	live := 0
	for _, ch := range chains {
		if len(ch) > 0 {
			live++
		}
	}
	if live == 1 {
		chains = chains[:1]
	}
	if len(chains) != len(c.Streams) && !(len(chains) == 1) {
		return nil, "", len(chains), fmt.Errorf("chains=%d streams=%d", len(chains), len(c.Streams))
	}
	if len(chains) == 1 && len(c.Streams) > 1 {
		// not parallelisable: all batches come from one stream, in stream order
		var all [][]int
		for _, s := range c.Streams {
			all = append(all, s...)
		}
		c.Streams = [][][]int{all}
	}
	for k, ch := range chains {
		if len(ch) == 0 {
			continue
		}
		src := &verifStream{c: c, batches: c.Streams[k]}
		ch[0].streams = append(ch[0].streams, NewCachedStream(src))
		for m := 1; m < len(ch); m++ {
			var st Streamer = ch[m-1]
			if len(chains) > 1 && m == len(ch)-1 {
				st = NewSingleThreadedStream(st)
			}
			ch[m].streams = append(ch[m].streams, NewCachedStream(st))
		}
	}
	names := ""
	for _, dp := range chains[0] {
		names += dp.name + ">"
	}
	return chains[0][len(chains[0])-1], names, len(chains), nil
}

func runtimeGOMAXPROCS(n int) int { return runtime.GOMAXPROCS(n) }

func bytesReaderVerif(b []byte) io.Reader { return bytes.NewReader(b) }

func iqrNewVerif(kv map[string][]sutils.CValueEnclosure) *iqr.IQR {
	q := iqr.NewIQR(0)
	_ = q.AppendKnownValues(kv)
	return q
}

var VerifParse func(spl string) (*structs.QueryAggregators, error)

func verifRunOne(c *VerifPipeCase) (res VerifPipeResult) {
	res.Id = c.Id
	defer func() {
		if r := recover(); r != nil {
			res.Panic = fmt.Sprintf("%v\n%s", r, debug.Stack())
		}
	}()
	aggs, err := VerifParse(c.Spl)
	if err != nil {
		res.Err = "parse: " + err.Error()
		return
	}
	last, names, nch, err := verifBuild(c, aggs)
	res.Chain, res.NChains = names, nch
	if err != nil {
		res.Err = "build: " + err.Error()
		return
	}
	res.Rows = []map[string]interface{}{}
	for n := 0; ; n++ {
		if n > 10000 {
			res.Err = "fetch: no EOF after 10000 fetches"
			return
		}
		out, err := last.Fetch()
		if err != nil && err != io.EOF {
			res.Err = "fetch: " + err.Error()
			return
		}
		rows, rerr := verifRowsOf(out)
		if rerr != nil {
			res.Err = "read: " + rerr.Error()
			return
		}
		if out != nil {
			res.Batches = append(res.Batches, len(rows))
		}
		res.Rows = append(res.Rows, rows...)
		if err == io.EOF {
			return
		}
	}
}

func VerifRunPipelineCases(inPath, outPath string) error {
	f, err := os.Open(inPath)
	if err != nil {
		return err
	}
	defer f.Close()
	of, err := os.Create(outPath)
	if err != nil {
		return err
	}
	defer of.Close()
	w := bufio.NewWriter(of)
	defer w.Flush()
	sc := bufio.NewScanner(f)
	sc.Buffer(make([]byte, 1<<20), 1<<26)
	for sc.Scan() {
		var c VerifPipeCase
		dec := json.NewDecoder(bytesReaderVerif(sc.Bytes()))
		dec.UseNumber()
		if err := dec.Decode(&c); err != nil {
			continue
		}
		ch := make(chan VerifPipeResult, 1)
		go func() { ch <- verifRunOne(&c) }()
		var r VerifPipeResult
		select {
		case r = <-ch:
		case <-time.After(20 * time.Second):
			r = VerifPipeResult{Id: c.Id, Hang: true}
		}
		b, err := json.Marshal(r)
		if err != nil {
			b, _ = json.Marshal(VerifPipeResult{Id: c.Id, Err: "marshal: " + err.Error()})
		}
		w.Write(b)
		w.WriteByte('\n')
		w.Flush()
	}
	return nil
}
