package alertsHandler

// C20 (alert part) replay harness.  Injected with `go test -overlay` by /verif; never copied
// into the repository.  It only DRIVES real code:
//
//   - ProcessCreateAlertRequest / ProcessUpdateAlertRequest / ProcessSilenceAlertRequest /
//     ProcessUnsilenceAlertRequest (real handlers, synthetic fasthttp.RequestCtx)
//   - evaluateLogsQueryConditions / evaluateMetricsQueryConditions on synthetic query results
//     of the three shapes (records + measure column, grouped measures, metric series)
//   - handleAlertCondition (the evaluation state machine incl. NotifyAlertHandlerRequest)
//
// and records what really happened (alert state from the sqlite store, notifications that
// arrived at a loopback webhook).  All judging is done outside (spec/Judge_Alerts.tla).
//
// Model ticks (1 tick = 1 minute) are realised by moving notification_details.last_sent_time
// one minute into the past; the cool-down is notification_details.cooldown_period.  The gocron
// scheduler is told to wait for the first interval so that no cron evaluation interferes.

import (
	"bufio"
	"encoding/json"
	"fmt"
	"io"
	"math/rand"
	"net/http"
	"net/http/httptest"
	"os"
	"sync"
	"testing"
	"time"

	"github.com/siglens/siglens/pkg/alerts/alertutils"
	"github.com/siglens/siglens/pkg/config"
	"github.com/siglens/siglens/pkg/segment/results/mresults"
	"github.com/siglens/siglens/pkg/segment/structs"
	log "github.com/sirupsen/logrus"
	"github.com/valyala/fasthttp"
	"gorm.io/driver/sqlite"
	"gorm.io/gorm"
)

type vStep struct {
	A string `json:"a"`
	C bool   `json:"c"`
	D string `json:"d"` // eval: "ok" | "fail" - is the contact point reachable at this evaluation
}

type vBeh struct {
	Id    int     `json:"id"`
	N     uint64  `json:"n"`
	Cool  uint64  `json:"cool"`
	Sil   uint64  `json:"sil"`
	Seed  int64   `json:"seed"`
	Steps []vStep `json:"steps"`
}

type vObs struct {
	A      string `json:"a"`
	C      bool   `json:"c"`               // intended outcome
	Eff    bool   `json:"eff"`             // what the real evaluate*Conditions returned
	State  string `json:"state,omitempty"` // alert state read back from the store
	Sent   string `json:"sent"`            // none | Firing | Normal | multi
	Shape  string `json:"shape,omitempty"`
	Mixed  bool   `json:"mixed,omitempty"`
	CmpOK  bool   `json:"cmp_ok"`
	Detail string `json:"detail,omitempty"`
	NEval  uint64 `json:"neval"`
	D      string `json:"d"`      // delivery mode of this evaluation
	Att    int    `json:"att"`    // connections the receivers saw while refusing (delivery attempts that failed)
	HState string `json:"hstate"` // state of the newest alert_history_details row
	HErr   string `json:"herr,omitempty"` // error returned by handleAlertCondition (recorded, not judged)
}

type vTrace struct {
	Id       int    `json:"id"`
	N        uint64 `json:"n"`
	Cool     uint64 `json:"cool"`
	Op       string `json:"op"`
	Thr      float64 `json:"thr"`
	Interval uint64 `json:"interval"`
	Window   uint64 `json:"window"`
	Steps    []vObs `json:"steps"`
	Err      string `json:"err,omitempty"`
}

type vHook struct {
	mu    sync.Mutex
	stats []string
	fail  bool // receivers drop every connection without answering
	att   int
}

func (h *vHook) setFail(f bool) int {
	h.mu.Lock()
	defer h.mu.Unlock()
	a := h.att
	h.att = 0
	h.fail = f
	return a
}

func (h *vHook) take() []string {
	h.mu.Lock()
	defer h.mu.Unlock()
	r := h.stats
	h.stats = nil
	return r
}

func vStateName(s alertutils.AlertState) string {
	switch s {
	case alertutils.Inactive:
		return "Inactive"
	case alertutils.Normal:
		return "Normal"
	case alertutils.Pending:
		return "Pending"
	case alertutils.Firing:
		return "Firing"
	}
	return fmt.Sprintf("state-%d", s)
}

var vOps = []alertutils.AlertQueryCondition{alertutils.IsAbove, alertutils.IsBelow, alertutils.IsEqualTo, alertutils.IsNotEqualTo}
var vOpNames = map[alertutils.AlertQueryCondition]string{alertutils.IsAbove: "above", alertutils.IsBelow: "below",
	alertutils.IsEqualTo: "equal", alertutils.IsNotEqualTo: "notequal"}

// a value for which `v op thr` is `want`; boundary values preferred
func vValue(rnd *rand.Rand, op alertutils.AlertQueryCondition, thr float64, want bool) float64 {
	big := float64(1 + rnd.Intn(5000))
	switch op {
	case alertutils.IsAbove:
		if want {
			return thr + []float64{1, 0.5, big}[rnd.Intn(3)]
		}
		return thr - []float64{0, 0, 1, big}[rnd.Intn(4)]
	case alertutils.IsBelow:
		if want {
			return thr - []float64{1, 0.5, big}[rnd.Intn(3)]
		}
		return thr + []float64{0, 0, 1, big}[rnd.Intn(4)]
	case alertutils.IsEqualTo:
		if want {
			return thr
		}
		return thr + []float64{1, -1, 0.5, big, -big}[rnd.Intn(5)]
	default: // IsNotEqualTo
		if want {
			return thr + []float64{1, -1, 0.5, big, -big}[rnd.Intn(5)]
		}
		return thr
	}
}

// how the engine may present a number in a result row
func vPresent(rnd *rand.Rand, v float64) interface{} {
	switch rnd.Intn(4) {
	case 0:
		return v
	case 1:
		if v == float64(int64(v)) {
			return int64(v)
		}
		return v
	case 2:
		return json.Number(fmt.Sprintf("%v", v))
	default:
		if v == float64(int64(v)) && v >= 1000 { // humanized "1,234"
			s := fmt.Sprintf("%d", int64(v))
			out := ""
			for i, ch := range s {
				if i > 0 && (len(s)-i)%3 == 0 {
					out += ","
				}
				out += string(ch)
			}
			return out
		}
		return fmt.Sprintf("%v", v)
	}
}

// runs the REAL condition evaluation on a synthetic result of the given shape
func vEvalCond(rnd *rand.Rand, alert *alertutils.AlertDetails, shape string, want bool, mixed bool) (bool, string, error) {
	nvals := 1 + rnd.Intn(3)
	if mixed && nvals < 2 {
		nvals = 2
	}
	vals := make([]float64, nvals)
	sat := rnd.Intn(nvals)
	for i := range vals {
		w := want
		if mixed {
			w = i == sat
		}
		vals[i] = vValue(rnd, alert.Condition, alert.Value, w)
	}
	detail := fmt.Sprintf("%s vals=%v", shape, vals)
	switch shape {
	case "records":
		col := "count(*)"
		resp := &structs.PipeSearchResponseOuter{MeasureAggregationCols: []string{col}}
		if rnd.Intn(3) == 0 { // `... | rename count(*) as total`
			resp.RenameColumns = map[string]string{col: "total"}
			col = "total"
			detail += " renamed"
		}
		for _, v := range vals {
			resp.Hits.Hits = append(resp.Hits.Hits, map[string]interface{}{col: vPresent(rnd, v), "host": "h"})
		}
		resp.Hits.TotalMatched = len(vals)
		r, err := evaluateLogsQueryConditions(resp, &alert.Condition, alert.Value)
		return r, detail, err
	case "grouped":
		resp := &structs.PipeSearchResponseOuter{GroupByCols: []string{"host"}, MeasureFunctions: []string{"avg(latency)"}}
		for i, v := range vals {
			resp.MeasureResults = append(resp.MeasureResults, &structs.BucketHolder{
				GroupByValues: []string{fmt.Sprintf("h%d", i)},
				MeasureVal:    map[string]interface{}{"avg(latency)": vPresent(rnd, v)},
			})
		}
		r, err := evaluateLogsQueryConditions(resp, &alert.Condition, alert.Value)
		return r, detail, err
	default: // metrics
		res := &mresults.MetricsResult{Results: map[string]map[uint32]float64{}}
		for i, v := range vals {
			sid := fmt.Sprintf("cpu{host:h%d,", i%2)
			if res.Results[sid] == nil {
				res.Results[sid] = map[uint32]float64{}
			}
			res.Results[sid][uint32(1700000000+i*60)] = v
		}
		list := evaluateMetricsQueryConditions(res, &alert.Condition, alert.Value)
		return len(list) > 0, detail, nil
	}
}

func vCtx(body interface{}) *fasthttp.RequestCtx {
	ctx := &fasthttp.RequestCtx{}
	if body != nil {
		b, _ := json.Marshal(body)
		ctx.Request.SetBody(b)
	}
	return ctx
}

func TestVerifAlertsReplay(t *testing.T) {
	inPath, outPath := os.Getenv("VERIF_ALERTS_IN"), os.Getenv("VERIF_ALERTS_OUT")
	if inPath == "" || outPath == "" {
		t.Skip("VERIF_ALERTS_IN / VERIF_ALERTS_OUT not set")
	}
	log.SetOutput(io.Discard)
	// the sqlite store commits with fsync; on a busy disk that dominates the run time, so the throw-away
	// database lives on tmpfs when there is one (nothing about durability is claimed in this part)
	dir := t.TempDir()
	if shm, err := os.MkdirTemp("/dev/shm", "verif-c20-"); err == nil {
		dir = shm
		defer os.RemoveAll(shm)
	}
	config.InitializeTestingConfig(dir + "/")
	if err := ConnectSiglensDB(); err != nil {
		t.Fatalf("INFRA ConnectSiglensDB: %v", err)
	}
	s.WaitForScheduleAll() // no immediate cron run of freshly (re)scheduled alerts
	side, err := gorm.Open(sqlite.Open(config.GetDataPath()+"siglens.db"), &gorm.Config{})
	if err != nil {
		t.Fatalf("INFRA side connection: %v", err)
	}
	side.Exec("PRAGMA busy_timeout=5000;")
	// the test owns the disk: commits need not reach the platter (both connections of this process)
	if os.Getenv("VERIF_ALERTS_SYNC") == "" {
		side.Exec("PRAGMA synchronous=OFF;")
	}

	hook := &vHook{}
	// The product builds a new http.Transport per notification (GetCertErrorForgivingHttpClient) and never closes its idle
	// connection; against a keep-alive server every notification would leave one TCP connection open for the life of the
	// process.  The loopback receivers therefore answer "Connection: close", and several of them share the load so that
	// ephemeral ports in TIME_WAIT do not run out on long runs.
	handler := http.HandlerFunc(func(w http.ResponseWriter, r *http.Request) {
		hook.mu.Lock()
		refuse := hook.fail
		if refuse {
			hook.att++
		}
		hook.mu.Unlock()
		if refuse { // contact point down: the connection is dropped, nothing is delivered
			if hj, ok := w.(http.Hijacker); ok {
				if c, _, err := hj.Hijack(); err == nil {
					c.Close()
					return
				}
			}
			panic(http.ErrAbortHandler)
		}
		var b alertutils.WebhookBody
		data, _ := io.ReadAll(r.Body)
		_ = json.Unmarshal(data, &b)
		hook.mu.Lock()
		hook.stats = append(hook.stats, b.Status)
		hook.mu.Unlock()
		w.WriteHeader(200)
	})
	contacts := []*alertutils.Contact{}
	for i := 0; i < 6; i++ {
		srv := httptest.NewUnstartedServer(handler)
		srv.Config.SetKeepAlivesEnabled(false)
		srv.Start()
		defer srv.Close()
		contact := &alertutils.Contact{ContactName: fmt.Sprintf("verif-contact-%d", i), OrgId: 0,
			Webhook: []alertutils.WebHookConfig{{Webhook: srv.URL + "/hook"}}}
		if err := databaseObj.CreateContact(contact); err != nil {
			t.Fatalf("INFRA CreateContact: %v", err)
		}
		contacts = append(contacts, contact)
	}

	in, err := os.Open(inPath)
	if err != nil {
		t.Fatalf("INFRA open: %v", err)
	}
	defer in.Close()
	outF, err := os.Create(outPath)
	if err != nil {
		t.Fatalf("INFRA create: %v", err)
	}
	defer outF.Close()
	out := bufio.NewWriter(outF)
	defer out.Flush()

	sc := bufio.NewScanner(in)
	sc.Buffer(make([]byte, 1<<20), 1<<26)
	for sc.Scan() {
		var b vBeh
		if err := json.Unmarshal(sc.Bytes(), &b); err != nil {
			t.Fatalf("INFRA bad behaviour line: %v", err)
		}
		tr := vRunOne(&b, contacts[b.Id%len(contacts)], side, hook)
		line, _ := json.Marshal(tr)
		out.Write(line)
		out.WriteByte('\n')
	}
}

func vRunOne(b *vBeh, contact *alertutils.Contact, side *gorm.DB, hook *vHook) (tr vTrace) {
	rnd := rand.New(rand.NewSource(b.Seed))
	interval := []uint64{1, 2, 5}[rnd.Intn(3)]
	window := b.N*interval + uint64(rnd.Intn(int(interval))) // integer division still gives N
	op := vOps[rnd.Intn(len(vOps))]
	thr := []float64{0, 1, 100, 1000, 2.5}[rnd.Intn(5)]
	name := fmt.Sprintf("verif-alert-%d", b.Id)
	tr = vTrace{Id: b.Id, N: b.N, Cool: b.Cool, Op: vOpNames[op], Thr: thr, Interval: interval, Window: window}
	fail := func(f string, a ...interface{}) vTrace {
		tr.Err = fmt.Sprintf(f, a...)
		return tr
	}
	defer func() {
		if r := recover(); r != nil {
			tr.Err = fmt.Sprintf("PANIC: %v", r)
		}
	}()

	cfgBody := map[string]interface{}{
		"alert_name": name, "alert_type": alertutils.AlertTypeLogs, "contact_id": contact.ContactId,
		"contact_name": contact.ContactName,
		"queryParams": map[string]interface{}{"data_source": "Logs", "queryLanguage": "Splunk QL",
			"queryText": "* | stats count", "startTime": "now-5m", "endTime": "now", "index": "*"},
		"condition": op, "value": thr, "eval_for": window, "eval_interval": interval, "message": "verif",
	}
	ctx := vCtx(cfgBody)
	ProcessCreateAlertRequest(ctx, 0)
	if ctx.Response.StatusCode() != 200 {
		return fail("INFRA create alert: %d %s", ctx.Response.StatusCode(), ctx.Response.Body())
	}
	all, err := databaseObj.GetAllAlerts(0)
	if err != nil {
		return fail("INFRA GetAllAlerts: %v", err)
	}
	id := ""
	for _, a := range all {
		if a.AlertName == name {
			id = a.AlertId
		}
	}
	if id == "" {
		return fail("INFRA created alert not listed")
	}
	_ = RemoveCronJob(id)
	defer func() {
		_ = RemoveCronJob(id)
		_ = databaseObj.DeleteAlert(id)
	}()
	if e := side.Exec("UPDATE notification_details SET cooldown_period = ? WHERE alert_id = ?", b.Cool, id).Error; e != nil {
		return fail("INFRA set cooldown: %v", e)
	}
	// the copy the cron job would hold
	alert, err := databaseObj.GetAlert(id)
	if err != nil {
		return fail("INFRA GetAlert: %v", err)
	}
	hook.take()
	shapes := []string{"records", "grouped", "metrics"}

	for _, st := range b.Steps {
		o := vObs{A: st.A, C: st.C, Sent: "none", CmpOK: true, D: "ok"}
		switch st.A {
		case "eval":
			o.Shape = shapes[rnd.Intn(3)]
			o.Mixed = st.C && rnd.Intn(4) == 0
			eff, detail, err := vEvalCond(rnd, alert, o.Shape, st.C, o.Mixed)
			o.Detail = detail
			if err != nil {
				return fail("evaluate conditions error: %v (%s)", err, detail)
			}
			o.Eff = eff
			if !o.Mixed && eff != st.C {
				o.CmpOK = false
			}
			if st.D == "fail" {
				o.D = "fail"
			}
			hook.setFail(o.D == "fail")
			herr := handleAlertCondition(alert, eff, "verif-data")
			o.Att = hook.setFail(false)
			if herr != nil { // what the caller (evaluateLogAlert) would log; state and history are judged on what the store says
				o.HErr = herr.Error()
			}
			cur, err := databaseObj.GetAlert(id)
			if err != nil {
				return fail("INFRA GetAlert: %v", err)
			}
			o.State = vStateName(cur.State)
			o.NEval = cur.NumEvaluationsCount
			if hl, herr2 := databaseObj.GetAlertHistoryByAlertID(&alertutils.AlertHistoryQueryParams{AlertId: id, Limit: 1,
				SortOrder: alertutils.DESC}); herr2 == nil && len(hl) > 0 {
				o.HState = vStateName(hl[0].AlertState)
			} else {
				o.HState = "no-row"
			}
			got := hook.take()
			switch len(got) {
			case 0:
			case 1:
				if got[0] == "firing" {
					o.Sent = "Firing"
				} else if got[0] == "normal" {
					o.Sent = "Normal"
				} else {
					o.Sent = "status-" + got[0]
				}
			default:
				o.Sent = "multi"
				o.Detail += fmt.Sprintf(" notifications=%v", got)
			}
		case "tick":
			var n alertutils.Notification
			if e := side.Where("alert_id = ?", id).First(&n).Error; e != nil {
				return fail("INFRA read notification: %v", e)
			}
			if !n.LastSentTime.IsZero() {
				if e := side.Model(&alertutils.Notification{}).Where("alert_id = ?", id).
					Update("last_sent_time", n.LastSentTime.Add(-time.Minute)).Error; e != nil {
					return fail("INFRA shift last_sent_time: %v", e)
				}
			}
		case "edit":
			body := map[string]interface{}{}
			for k, v := range cfgBody {
				body[k] = v
			}
			body["alert_id"] = id
			c := vCtx(body)
			ProcessUpdateAlertRequest(c)
			_ = RemoveCronJob(id)
			if c.Response.StatusCode() != 200 {
				return fail("config edit rejected: %d %s", c.Response.StatusCode(), c.Response.Body())
			}
			// the handler re-schedules the cron job with the updated alert object
			alert, err = databaseObj.GetAlert(id)
			if err != nil {
				return fail("INFRA GetAlert: %v", err)
			}
		case "silence", "unsilence":
			c := vCtx(map[string]interface{}{"alert_id": id, "silence_minutes": b.Sil})
			if st.A == "silence" {
				ProcessSilenceAlertRequest(c)
			} else {
				ProcessUnsilenceAlertRequest(c)
			}
			if c.Response.StatusCode() != 200 {
				return fail("silence rejected: %d %s", c.Response.StatusCode(), c.Response.Body())
			}
		default:
			return fail("INFRA unknown action %q", st.A)
		}
		tr.Steps = append(tr.Steps, o)
	}
	return tr
}
