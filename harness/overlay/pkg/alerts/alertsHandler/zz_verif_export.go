package alertsHandler

// Injected with `go build -overlay` by /verif (never copied into the repository).
// The package-level gocron scheduler starts a freshly added job immediately; the C20 keyed-store
// replay creates alerts through the real handlers and must not have cron evaluations running
// against the store while it compares contents, so the scheduler is told to wait for the first
// interval (a gocron option, no siglens logic involved).
func VerifSchedulerWaitAll() { s.WaitForScheduleAll() }
