package metrics

// Injected with `go build -overlay` by /verif (never copied into the repository).
// Exposes one iteration of the time-driven maintenance loops so that the harness
// does not have to wait for their sleep intervals.  Bodies are the loop bodies of
// timeBasedMetricsFlush / timeBasedRotate / timeBasedWalDPSFlush / timeBasedMNameWalFlush
// / timeBasedMetaEntryWalFlush, calling the real rotateBlock / CheckAndRotate / Append.

import (
	"sync/atomic"

	sutils "github.com/siglens/siglens/pkg/segment/utils"
)

// one iteration of timeBasedMetricsFlush
func VerifBlockFlushOnce() (n int, err error) {
	for _, ms := range GetAllMetricsSegments() {
		encSize := atomic.LoadUint64(&ms.mBlock.blkEncodedSize)
		if encSize > 0 {
			ms.rwLock.Lock()
			e := ms.mBlock.rotateBlock(ms.metricsKeyBase, ms.Suffix, ms.currBlockNum)
			if e != nil {
				err = e
			} else {
				ms.currBlockNum++
				n++
			}
			ms.rwLock.Unlock()
		}
	}
	return
}

// one iteration of timeBasedRotate
func VerifRotateOnce() (n int, err error) {
	for _, ms := range GetAllMetricsSegments() {
		encSize := atomic.LoadUint64(&ms.mBlock.blkEncodedSize)
		if encSize > sutils.MAX_BYTES_METRICS_BLOCK {
			ms.rwLock.Lock()
			e := ms.CheckAndRotate(false)
			ms.rwLock.Unlock()
			if e != nil {
				err = e
			} else {
				n++
			}
		}
	}
	return
}

// one iteration of timeBasedWalDPSFlush
func VerifWalDPSFlushOnce() (err error) {
	for _, ms := range GetAllMetricsSegments() {
		ms.mBlock.dpWalState.lock.Lock()
		if ms.mBlock.dpWalState.dpIdx > 0 {
			e := ms.mBlock.dpWalState.currentWal.Append(ms.mBlock.dpWalState.dpsInWalMem[0:ms.mBlock.dpWalState.dpIdx])
			if e != nil {
				err = e
			}
			totalEncodedSize := ms.mBlock.dpWalState.currentWal.GetWALStats()
			if totalEncodedSize > sutils.MAX_WAL_FILE_SIZE_BYTES {
				if e := ms.mBlock.rotateWAL(); e != nil {
					err = e
				}
			}
			ms.mBlock.dpWalState.dpIdx = 0
		}
		ms.mBlock.dpWalState.lock.Unlock()
	}
	return
}

// one iteration of timeBasedMNameWalFlush
func VerifMNameWalFlushOnce() (err error) {
	for _, ms := range GetAllMetricsSegments() {
		ms.mNameWalState.lock.Lock()
		if len(ms.mNameWalState.metricsNames) > 0 {
			e := ms.mNameWalState.wal.Append(ms.mNameWalState.metricsNames)
			if e != nil {
				err = e
				ms.mNameWalState.lock.Unlock()
				continue
			}
			ms.mNameWalState.metricsNames = ms.mNameWalState.metricsNames[:0]
		}
		ms.mNameWalState.lock.Unlock()
	}
	return
}
