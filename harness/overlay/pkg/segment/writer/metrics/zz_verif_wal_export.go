package metrics

// Injected with `go build -overlay` by /verif (never copied into the repository).  C10 (metrics WAL).
// One iteration of the timer loops timeBasedMetaEntryWalFlush / timeBasedTagsTreeFlush (their loop bodies,
// calling the real getMetaEntry / Wal.Write / flushSingleTagsTree), plus read-only views of the WAL state.

import (
	"path/filepath"
	"time"

	"github.com/siglens/siglens/pkg/segment/structs"
	"github.com/siglens/siglens/pkg/segment/writer/metrics/wal"
)

// The meta-entry log has ONE writer in the engine (the timeBasedMetaEntryWalFlush goroutine) and therefore no lock.  A harness
// process that drives the rewrite itself must not become a second writer of the same Wal object / the same temporary file
// when it lives longer than the timer's first second (machine load): the first call takes the log away from the real timer
// (which skips its tick while metricsMEntryWalState.wal is nil) and keeps it here.  Processes that never call this function
// (history "realtimers") keep the real timer.
var verifMEntryWal *wal.Wal

// one iteration of timeBasedMetaEntryWalFlush (the loop's slice is re-created per call; the loop reuses it)
func VerifMetaEntryWalFlushOnce() (n int, wrote bool, err error) {
	if metricsMEntryWalState.wal != nil {
		verifMEntryWal = metricsMEntryWalState.wal
		metricsMEntryWalState.wal = nil
	}
	allMetaEntries := make([]*structs.MetricsMeta, 0)
	for _, ms := range GetAllMetricsSegments() {
		ms.mNameWalState.lock.Lock()
		finalDir := GetFinalMetricsDir(ms.Mid, ms.Suffix)
		metaEntry := ms.getMetaEntry(finalDir, ms.Suffix)
		allMetaEntries = append(allMetaEntries, metaEntry)
		ms.mNameWalState.lock.Unlock()
	}
	if verifMEntryWal != nil {
		wrote = true
		// (should the take-over above have coincided with a tick of the real timer that was already inside Write, the file may
		// hold a mix of both writers: the result is read back and the rewrite repeated - by then this is the only writer)
		for attempt := 0; attempt < 4; attempt++ {
			err = verifMEntryWal.Write(allMetaEntries)
			if err == nil && verifMetaLogHolds(len(allMetaEntries)) {
				break
			}
			time.Sleep(10 * time.Millisecond)
		}
	}
	return len(allMetaEntries), wrote, err
}

func verifMetaLogHolds(n int) bool {
	it, err := wal.NewMetricsMetaEntryWalReader(filepath.Join(getWALBaseDir(), META_ENTRY_WAL_DIR, METRICS_META_ENTRY_WAL_FILE))
	if err != nil {
		return false
	}
	defer it.Close()
	got := 0
	for {
		e, err := it.Next()
		if err != nil {
			return false
		}
		if e == nil {
			break
		}
		got++
	}
	return got == n
}

// one iteration of timeBasedTagsTreeFlush
func VerifWalTagsTreeFlushOnce() (n int, err error) {
	for _, tth := range GetAllTagsTreeHolders() {
		for tagKey, tt := range tth.allTrees {
			if tt.dirty {
				e := tt.flushSingleTagsTree(tagKey, tth.tagstreeBase)
				if e != nil {
					err = e
				} else {
					n++
				}
			}
		}
	}
	return
}

// shard (metrics segment id) a metric name is routed to; like EncodeDatapoint this initialises the org's segments
func VerifShardOf(mName string, orgid int64) (string, uint64, error) {
	mSeg, _, err := getMetricsSegment([]byte(mName), orgid)
	if err != nil || mSeg == nil {
		return "", 0, err
	}
	return mSeg.Mid, mSeg.Suffix, nil
}

type VerifWalState struct {
	Mid      string `json:"mid"`
	Suffix   uint64 `json:"suffix"`
	Block    uint16 `json:"block"`
	WalIndex uint64 `json:"wal_index"`
	NumWals  int    `json:"num_wals"`
	Buffered uint64 `json:"buffered"`
	Names    int    `json:"names_buffered"`
}

// read-only view of the per-segment WAL bookkeeping
func VerifWalStates() []VerifWalState {
	out := []VerifWalState{}
	for _, ms := range GetAllMetricsSegments() {
		ms.mBlock.dpWalState.lock.Lock()
		ms.mNameWalState.lock.Lock()
		out = append(out, VerifWalState{Mid: ms.Mid, Suffix: ms.Suffix, Block: ms.mBlock.mBlockSummary.Blknum,
			WalIndex: ms.mBlock.dpWalState.currentWALIndex, NumWals: len(ms.mBlock.dpWalState.allWALs),
			Buffered: ms.mBlock.dpWalState.dpIdx, Names: len(ms.mNameWalState.metricsNames)})
		ms.mNameWalState.lock.Unlock()
		ms.mBlock.dpWalState.lock.Unlock()
	}
	return out
}
