package metrics

// Injected with `go build -overlay` by /verif (C09).  One iteration of timeBasedTagsTreeFlush (every
// TAGS_TREE_FLUSH_SLEEP_DURATION = 60 s in the server): dirty tags trees are written to the tags tree
// directory, which is what a query reads for a tags-tree base directory that already has a rotated segment.

func VerifC09TagsTreeFlushOnce() (n int, err error) {
	for _, tth := range GetAllTagsTreeHolders() {
		for tagKey, tt := range tth.allTrees {
			if tt.dirty {
				e := tt.flushSingleTagsTree(tagKey, tth.tagstreeBase)
				if e != nil {
					err = e
				} else {
					n++
				}
			}
		}
	}
	return
}
