package metrics

// Injected with `go build -overlay` by /verif (never copied into the repository).  C11 / metrics store.
// Read-only views of a metrics segment's rotation state and ONE iteration of timeBasedRotate for ONE segment
// (the loop body: size test + the real CheckAndRotate(false) under the segment's write lock) with the thresholds
// of the call, so that the stress harness knows exactly which segment it rotated and when.

import (
	"fmt"
	"sync"
	"sync/atomic"

	sutils "github.com/siglens/siglens/pkg/segment/utils"
)

type VerifC11MInfo struct {
	Mid        string `json:"mid"`
	Suffix     uint64 `json:"suffix"`
	BlockNum   uint16 `json:"block_num"`   // MetricsSegment.currBlockNum (names the block files)
	SummaryBlk uint16 `json:"summary_blk"` // MetricsBlock.mBlockSummary.Blknum (what queries compare)
	BlkEnc     uint64 `json:"blk_enc"`
	SegEnc     uint64 `json:"seg_enc"`
	SegDir     string `json:"seg_dir"` // MetricsMeta.MSegmentDir this segment gets when it is rotated
}

func verifC11MInfoLocked(ms *MetricsSegment) VerifC11MInfo {
	return VerifC11MInfo{Mid: ms.Mid, Suffix: ms.Suffix, BlockNum: ms.currBlockNum, SummaryBlk: ms.mBlock.mBlockSummary.Blknum,
		BlkEnc: atomic.LoadUint64(&ms.mBlock.blkEncodedSize), SegEnc: atomic.LoadUint64(&ms.mSegEncodedSize),
		SegDir: fmt.Sprintf("%s%d", GetFinalMetricsDir(ms.Mid, ms.Suffix), ms.Suffix)}
}

// the shard (metrics segment) a metric name is routed to; the org's segments must exist (something was ingested)
func VerifC11MShardOf(mName string, orgid int64) (VerifC11MInfo, error) {
	ms, _, err := getMetricsSegment([]byte(mName), orgid)
	if err != nil || ms == nil {
		return VerifC11MInfo{}, fmt.Errorf("no metrics segment for %q: %v", mName, err)
	}
	ms.rwLock.RLock()
	defer ms.rwLock.RUnlock()
	return verifC11MInfoLocked(ms), nil
}

var verifC11MThresholds sync.Mutex

// one iteration of timeBasedRotate for the segment `mid`, with MAX_BYTES_METRICS_BLOCK / MAX_BYTES_METRICS_SEGMENT set to
// the given values for the duration of the call.  Returns the segment's state before and after (both under the write lock).
func VerifC11MRotateOnce(mid string, orgid int64, blockBytes, segBytes uint64) (before, after VerifC11MInfo, rotated bool, err error) {
	ms, e := getUnrotatedMetricSegment(mid, orgid)
	if e != nil {
		return before, after, false, e
	}
	verifC11MThresholds.Lock()
	defer verifC11MThresholds.Unlock()
	ob, os_ := sutils.MAX_BYTES_METRICS_BLOCK, sutils.MAX_BYTES_METRICS_SEGMENT
	sutils.MAX_BYTES_METRICS_BLOCK, sutils.MAX_BYTES_METRICS_SEGMENT = blockBytes, segBytes
	defer func() { sutils.MAX_BYTES_METRICS_BLOCK, sutils.MAX_BYTES_METRICS_SEGMENT = ob, os_ }()
	encSize := atomic.LoadUint64(&ms.mBlock.blkEncodedSize)
	if encSize > sutils.MAX_BYTES_METRICS_BLOCK {
		ms.rwLock.Lock()
		before = verifC11MInfoLocked(ms)
		err = ms.CheckAndRotate(false)
		after = verifC11MInfoLocked(ms)
		ms.rwLock.Unlock()
		rotated = true
	}
	return
}
