package retention

// Injected with `go build -overlay` by /verif (never copied into the repository).
// Export shim for C14: gives the harness a way to CALL the unexported pass functions and the one
// unexported step of DeleteSegmentData with explicit arguments.  No logic lives here: every function
// is a one-line forward to the real code.

import (
	"github.com/siglens/siglens/pkg/segment/structs"
)

// the volume pass exactly as internalRetentionCleaner calls it, with the limit and the warning counter as arguments
func VerifVolumePass(ingestNodeDir string, allowedVolumeGB uint64, deletionWarningCounter int) {
	doVolumeBasedDeletion(ingestNodeDir, allowedVolumeGB, deletionWarningCounter)
}

// the inode pass exactly as internalRetentionCleaner calls it
func VerifInodePass(ingestNodeDir string, deletionWarningCounter int) {
	doInodeBasedDeletion(ingestNodeDir, deletionWarningCounter)
}

// what the volume pass compares with the limit
func VerifSystemVolumeBytes() (uint64, error) {
	return getSystemVolumeBytes()
}

// step 4 of DeleteSegmentData
func VerifStepPQMeta(victims map[string]*structs.SegMeta) {
	deleteSegmentsFromEmptyPqMetaFiles(victims)
}

// what the inode pass charges a segment directory with
func VerifSegmentInodeCount(dir string) (int, error) {
	return calculateSegmentInodeCount(dir)
}
