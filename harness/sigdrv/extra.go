package main

// initExtra is extended by other command files (metrics, traces, ...).
var extraInits []func(c Cmd)

func initExtra(c Cmd) {
	for _, f := range extraInits {
		f(c)
	}
}
