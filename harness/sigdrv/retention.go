package main

// Retention ops (C14).  Every op calls the real pass / the real step functions of
// pkg/retention, pkg/segment/writer, pkg/segment/metadata and pkg/segment/writer/metrics/meta.
//
//	ret_info                          paths of the metadata files of this node
//	ret_time{hours, org}              retention.DoRetentionBasedDeletion(ingestDir, hours, org); returns wall clock
//	                                  (ms) taken immediately before and after the call (the pass reads time.Now()
//	                                  itself, so the horizon it used lies in [before-hours, after-hours])
//	ret_volume{gb, warn}              doVolumeBasedDeletion(ingestDir, gb, warn)      (through the overlay shim)
//	ret_inode{warn}                   doInodeBasedDeletion(ingestDir, warn)           (through the overlay shim)
//	ret_sysvol                        getSystemVolumeBytes()
//	ret_step{step, segkeys}           ONE step of DeleteSegmentData on the given rotated segments, the function the
//	                                  real code calls for that step: files -> writer.RemoveSegBasedirs,
//	                                  mem -> segmetadata.DeleteSegmentKey, pqmeta -> deleteSegmentsFromEmptyPqMetaFiles,
//	                                  segmeta -> writer.RemoveSegMetas.  (Interrupted pass = a prefix of these
//	                                  calls followed by the end of the process.)
//	ret_mstep{step, dirs}             ONE step of DeleteMetricsSegmentData: mem -> segmetadata.DeleteMetricsSegmentKey,
//	                                  meta -> mmeta.RemoveMetricsSegments
//	ret_mem{org}                      segment keys present in the in-memory rotated metadata
//	ret_pick{org, keys, tables}       the three in-memory structures a rotated log segment lives in: all =
//	                                  allSegmentMicroIndex, rev = which of `keys` the reverse index resolves
//	                                  (GetMicroIndex), picked = keys returned by segmetadata.FilterSegmentsByTime over
//	                                  all time for `tables` (walks tableSortedMetadata: the selection every search
//	                                  starts from)
//	ret_inodes{dir}                   calculateSegmentInodeCount(dir)

import (
	"fmt"
	"math"
	"path"
	"sort"
	"time"

	dtu "github.com/siglens/siglens/pkg/common/dtypeutils"
	"github.com/siglens/siglens/pkg/config"
	"github.com/siglens/siglens/pkg/retention"
	segmetadata "github.com/siglens/siglens/pkg/segment/metadata"
	"github.com/siglens/siglens/pkg/segment/structs"
	"github.com/siglens/siglens/pkg/segment/writer"
	mmeta "github.com/siglens/siglens/pkg/segment/writer/metrics/meta"
	"github.com/siglens/siglens/pkg/utils"
)

func init() {
	reg("ret_info", cmdRetInfo)
	reg("ret_time", cmdRetTime)
	reg("ret_volume", cmdRetVolume)
	reg("ret_inode", cmdRetInode)
	reg("ret_sysvol", func(c Cmd) (interface{}, error) {
		v, err := retention.VerifSystemVolumeBytes()
		if err != nil {
			return map[string]interface{}{"bytes": v, "verr": err.Error()}, nil
		}
		return map[string]interface{}{"bytes": v}, nil
	})
	reg("ret_step", cmdRetStep)
	reg("ret_mstep", cmdRetMStep)
	reg("ret_mem", func(c Cmd) (interface{}, error) {
		keys := []string{}
		for k := range segmetadata.GetAllSegKeysForOrg(c.i64("org", 0)) {
			keys = append(keys, k)
		}
		sort.Strings(keys)
		return keys, nil
	})
	reg("ret_pick", func(c Cmd) (interface{}, error) {
		org := c.i64("org", 0)
		all, rev, picked := []string{}, []string{}, []string{}
		for k := range segmetadata.GetAllSegKeysForOrg(org) {
			all = append(all, k)
		}
		// reverse index: looked up key by key through the locked accessor queries use
		for _, k := range strList(c, "keys") {
			if _, ok := segmetadata.GetMicroIndex(k); ok {
				rev = append(rev, k)
			}
		}
		// the selection every search starts from: per-table list filtered by time (all time here)
		sel, _, _ := segmetadata.FilterSegmentsByTime(&dtu.TimeRange{StartEpochMs: 0, EndEpochMs: math.MaxUint64}, strList(c, "tables"), org)
		for _, m := range sel {
			for k := range m {
				picked = append(picked, k)
			}
		}
		sort.Strings(all)
		sort.Strings(rev)
		sort.Strings(picked)
		return map[string]interface{}{"all": all, "rev": rev, "picked": picked}, nil
	})
	reg("ret_inodes", func(c Cmd) (interface{}, error) {
		n, err := retention.VerifSegmentInodeCount(c.str("dir"))
		if err != nil {
			return nil, err
		}
		return n, nil
	})
}

func retMetricsMetaFile() string {
	// the expression the passes use
	return path.Join(config.GetCurrentNodeIngestDir(), mmeta.MetricsMetaSuffix)
}

func cmdRetInfo(c Cmd) (interface{}, error) {
	return map[string]interface{}{
		"ingest_dir":   config.GetCurrentNodeIngestDir(),
		"segmeta":      writer.GetLocalSegmetaFName(),
		"metricsmeta":  retMetricsMetaFile(),
		"metricsmeta2": mmeta.GetLocalMetricsMetaFName(),
		"data_path":    config.GetDataPath(),
		"host":         config.GetHostID(),
		"hours":        config.GetRetentionHours(),
	}, nil
}

func cmdRetTime(c Cmd) (interface{}, error) {
	hours := int(c.i64("hours", int64(config.GetRetentionHours())))
	before := time.Now().UnixMilli()
	retention.DoRetentionBasedDeletion(config.GetCurrentNodeIngestDir(), hours, c.i64("org", 0))
	after := time.Now().UnixMilli()
	return map[string]interface{}{"before_ms": before, "after_ms": after, "hours": hours}, nil
}

func cmdRetVolume(c Cmd) (interface{}, error) {
	retention.VerifVolumePass(config.GetCurrentNodeIngestDir(), c.u64("gb", 60000), int(c.i64("warn", retention.MAXIMUM_WARNINGS_COUNT)))
	return nil, nil
}

func cmdRetInode(c Cmd) (interface{}, error) {
	retention.VerifInodePass(config.GetCurrentNodeIngestDir(), int(c.i64("warn", retention.MAXIMUM_WARNINGS_COUNT)))
	return nil, nil
}

func strList(c Cmd, k string) []string {
	out := []string{}
	if l, ok := c[k].([]interface{}); ok {
		for _, v := range l {
			if s, ok := v.(string); ok {
				out = append(out, s)
			}
		}
	}
	return out
}

func cmdRetStep(c Cmd) (interface{}, error) {
	want := map[string]bool{}
	for _, k := range strList(c, "segkeys") {
		want[k] = true
	}
	// victims as the pass obtains them: entries of the local segmeta.json
	victims := map[string]*structs.SegMeta{}
	for _, sm := range writer.ReadLocalSegmeta(false) {
		if want[sm.SegmentKey] {
			victims[sm.SegmentKey] = sm
		}
	}
	switch c.str("step") {
	case "files":
		dirs := map[string]struct{}{}
		for k := range victims {
			d, err := utils.GetSegBaseDirFromFilename(k)
			if err != nil {
				return nil, err
			}
			dirs[d] = struct{}{}
		}
		writer.RemoveSegBasedirs(dirs)
	case "mem":
		for _, sm := range victims {
			segmetadata.DeleteSegmentKey(sm.SegmentKey)
		}
	case "pqmeta":
		retention.VerifStepPQMeta(victims)
	case "segmeta":
		_ = writer.RemoveSegMetas(victims)
	default:
		return nil, fmt.Errorf("ret_step: unknown step %q", c.str("step"))
	}
	return len(victims), nil
}

func cmdRetMStep(c Cmd) (interface{}, error) {
	file := retMetricsMetaFile()
	all, err := mmeta.ReadMetricsMeta(file)
	if err != nil {
		return nil, err
	}
	victims := map[string]*structs.MetricsMeta{}
	for _, d := range strList(c, "dirs") {
		if m, ok := all[d]; ok {
			victims[d] = m
		}
	}
	switch c.str("step") {
	case "mem":
		errs := []string{}
		for _, m := range victims {
			if e := segmetadata.DeleteMetricsSegmentKey(m.MSegmentDir); e != nil {
				errs = append(errs, e.Error())
			}
		}
		return map[string]interface{}{"n": len(victims), "errs": errs}, nil
	case "meta":
		mmeta.RemoveMetricsSegments(file, victims)
	default:
		return nil, fmt.Errorf("ret_mstep: unknown step %q", c.str("step"))
	}
	return map[string]interface{}{"n": len(victims)}, nil
}
