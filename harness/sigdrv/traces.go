package main

// C12: trace ingest through the OTLP traces handler and the four trace views
// (search traces, gantt/span tree, dependency graph, RED metrics), each called
// with a synthetic fasthttp.RequestCtx exactly like the HTTP entry handlers do.

import (
	"encoding/binary"
	"encoding/hex"
	"fmt"
	"strconv"

	"github.com/valyala/fasthttp"
	commonpb "go.opentelemetry.io/proto/otlp/common/v1"
	resourcepb "go.opentelemetry.io/proto/otlp/resource/v1"
	tracepb "go.opentelemetry.io/proto/otlp/trace/v1"
	"google.golang.org/protobuf/proto"

	"github.com/siglens/siglens/pkg/otlp"
	tracinghandler "github.com/siglens/siglens/pkg/segment/tracing/handler"
)

func init() {
	reg("tr_ingest", cmdTrIngest)
	reg("tr_search", func(c Cmd) (interface{}, error) {
		return trCall(c, tracinghandler.ProcessSearchTracesRequest)
	})
	reg("tr_total", func(c Cmd) (interface{}, error) {
		return trCall(c, tracinghandler.ProcessTotalTracesRequest)
	})
	reg("tr_gantt", func(c Cmd) (interface{}, error) {
		return trCall(c, tracinghandler.ProcessGanttChartRequest)
	})
	reg("tr_spangantt", func(c Cmd) (interface{}, error) {
		return trCall(c, tracinghandler.ProcessSpanGanttChartRequest)
	})
	reg("tr_depgraph", func(c Cmd) (interface{}, error) {
		return trCall(c, tracinghandler.ProcessGeneratedDepGraph)
	})
	// what MonitorSpansHealth does every 5 minutes for every org that has trace data
	reg("tr_red", func(c Cmd) (interface{}, error) {
		tracinghandler.ProcessRedTracesIngest(c.i64("org", 0))
		return nil, nil
	})
}

func trCall(c Cmd, h func(ctx *fasthttp.RequestCtx, myid int64)) (interface{}, error) {
	ctx := &fasthttp.RequestCtx{}
	ctx.Request.Header.SetMethod("POST")
	ctx.Request.SetBody([]byte(c.str("body")))
	h(ctx, c.i64("org", 0))
	return map[string]interface{}{"status": ctx.Response.StatusCode(), "body": string(ctx.Response.Body())}, nil
}

func trU64(v interface{}) uint64 {
	switch t := v.(type) {
	case string:
		n, _ := strconv.ParseUint(t, 10, 64)
		return n
	case float64:
		return uint64(t)
	default:
		n, _ := strconv.ParseUint(fmt.Sprint(v), 10, 64)
		return n
	}
}

// replica r > 0 of an id: the first four bytes carry r (the harness keeps them zero in the base forest)
func trReplicaId(hexId string, r uint32) ([]byte, error) {
	if hexId == "" {
		return nil, nil
	}
	b, err := hex.DecodeString(hexId)
	if err != nil {
		return nil, err
	}
	if r > 0 && len(b) >= 4 {
		binary.BigEndian.PutUint32(b[0:4], r)
	}
	return b, nil
}

// tr_ingest{org, spans: [{trace, span, parent, service, name, status, start, end}], batches: [n1, n2, ...],
//
//	replicas, replica_mode ("forest" | "trace"), chunk}
//
// The span list is cut into consecutive batches of the given sizes (one OTLP export request each, a new
// ResourceSpans whenever the service changes, so the enumerated order is the wire order).
// replicas > 1: the forest is sent again under fresh ids: "forest" = fresh trace and span ids (many traces),
// "trace" = same trace ids, fresh span ids, the replica's root spans become children of the base root of
// their trace (one huge well-formed trace).  Replicas are sent `chunk` replicas per request.
func cmdTrIngest(c Cmd) (interface{}, error) {
	raw, _ := c["spans"].([]interface{})
	type sp struct {
		trace, span, parent, service, name, status string
		start, end                                 uint64
	}
	spans := make([]sp, 0, len(raw))
	for _, r := range raw {
		m, ok := r.(map[string]interface{})
		if !ok {
			return nil, fmt.Errorf("tr_ingest: span is not an object")
		}
		g := func(k string) string { s, _ := m[k].(string); return s }
		spans = append(spans, sp{g("trace"), g("span"), g("parent"), g("service"), g("name"), g("status"), trU64(m["start"]), trU64(m["end"])})
	}
	mk := func(s sp, r uint32, mode string, rootOf map[string]string) (*tracepb.Span, error) {
		tr := uint32(0)
		if mode == "forest" {
			tr = r
		}
		tid, err := trReplicaId(s.trace, tr)
		if err != nil {
			return nil, err
		}
		sid, err := trReplicaId(s.span, r)
		if err != nil {
			return nil, err
		}
		var pid []byte
		if s.parent == "" && r > 0 && mode == "trace" {
			pid, err = trReplicaId(rootOf[s.trace], 0)
		} else {
			pid, err = trReplicaId(s.parent, r)
		}
		if err != nil {
			return nil, err
		}
		out := &tracepb.Span{TraceId: tid, SpanId: sid, ParentSpanId: pid, Name: s.name, Kind: tracepb.Span_SPAN_KIND_SERVER,
			StartTimeUnixNano: s.start, EndTimeUnixNano: s.end}
		switch s.status {
		case "error":
			out.Status = &tracepb.Status{Code: tracepb.Status_STATUS_CODE_ERROR}
		case "ok":
			out.Status = &tracepb.Status{Code: tracepb.Status_STATUS_CODE_OK}
		case "unset":
			out.Status = &tracepb.Status{Code: tracepb.Status_STATUS_CODE_UNSET}
		}
		return out, nil
	}
	rootOf := map[string]string{}
	for _, s := range spans {
		if s.parent == "" {
			if _, ok := rootOf[s.trace]; !ok {
				rootOf[s.trace] = s.span
			}
		}
	}
	send := func(list []*tracepb.Span, services []string) (int, string) {
		// ExportTraceServiceRequest and TracesData share the wire format (field 1 = repeated ResourceSpans); the
		// collector package would drag grpc and grpc-gateway into the driver's module graph
		req := &tracepb.TracesData{}
		var cur *tracepb.ScopeSpans
		last := "\x00none"
		for i, s := range list {
			if services[i] != last {
				cur = &tracepb.ScopeSpans{}
				req.ResourceSpans = append(req.ResourceSpans, &tracepb.ResourceSpans{
					Resource: &resourcepb.Resource{Attributes: []*commonpb.KeyValue{{Key: "service.name",
						Value: &commonpb.AnyValue{Value: &commonpb.AnyValue_StringValue{StringValue: services[i]}}}}},
					ScopeSpans: []*tracepb.ScopeSpans{cur}})
				last = services[i]
			}
			cur.Spans = append(cur.Spans, s)
		}
		data, err := proto.Marshal(req)
		if err != nil {
			return -1, err.Error()
		}
		ctx := &fasthttp.RequestCtx{}
		ctx.Request.Header.SetMethod("POST")
		ctx.Request.Header.SetContentType("application/x-protobuf")
		ctx.Request.SetBody(data)
		otlp.ProcessTraceIngest(ctx, c.i64("org", 0))
		return ctx.Response.StatusCode(), string(ctx.Response.Body())
	}
	statuses := []int{}
	bodies := []string{}
	sent := 0
	// base forest in the enumerated batching
	sizes := []int{}
	if bs, ok := c["batches"].([]interface{}); ok {
		for _, b := range bs {
			sizes = append(sizes, int(trU64(b)))
		}
	}
	if len(sizes) == 0 {
		sizes = []int{len(spans)}
	}
	pos := 0
	for _, n := range sizes {
		if n <= 0 || pos >= len(spans) {
			continue
		}
		end := pos + n
		if end > len(spans) {
			end = len(spans)
		}
		list := []*tracepb.Span{}
		svcs := []string{}
		for _, s := range spans[pos:end] {
			p, err := mk(s, 0, "forest", rootOf)
			if err != nil {
				return nil, err
			}
			list = append(list, p)
			svcs = append(svcs, s.service)
		}
		st, body := send(list, svcs)
		statuses = append(statuses, st)
		bodies = append(bodies, body)
		sent += len(list)
		pos = end
	}
	replicas := int(c.i64("replicas", 1))
	mode := c.str("replica_mode")
	if mode == "" {
		mode = "forest"
	}
	chunk := int(c.i64("chunk", 100))
	for r := 1; r < replicas; {
		list := []*tracepb.Span{}
		svcs := []string{}
		for k := 0; k < chunk && r < replicas; k, r = k+1, r+1 {
			for _, s := range spans {
				p, err := mk(s, uint32(r), mode, rootOf)
				if err != nil {
					return nil, err
				}
				list = append(list, p)
				svcs = append(svcs, s.service)
			}
		}
		st, body := send(list, svcs)
		if st != 200 {
			statuses = append(statuses, st)
			bodies = append(bodies, body)
		}
		sent += len(list)
	}
	return map[string]interface{}{"statuses": statuses, "bodies": bodies, "sent": sent}, nil
}
