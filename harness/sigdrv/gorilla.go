package main

// gorilla_replay: replays TLC-generated behaviours of spec/Gorilla.tla on the real
// compress package.  Each behaviour is a sequence of (dod, xor-class) steps; the class
// is concretised against the real encoder state (previous bits / previous delta).
// After every step the stream is finished on a clone, decoded with the real
// decompressor and compared bit-exactly (the property); the stream length is compared
// with the bit count the spec predicts (conformance of the case analysis).

import (
	"bufio"
	"bytes"
	"encoding/json"
	"fmt"
	"math"
	"math/rand"
	"os"

	"github.com/siglens/siglens/pkg/segment/writer/metrics/compress"
)

type gorStep struct {
	Dod int64 `json:"dod"`
	X   struct {
		Z     bool `json:"z"`
		Lead  int  `json:"lead"`
		Trail int  `json:"trail"`
	} `json:"x"`
	Bits int  `json:"bits"`
	Ok   bool `json:"ok"`
}

type gorBeh struct {
	Steps []gorStep `json:"steps"`
}

type gorFail struct {
	Kind   string        `json:"kind"` // "roundtrip" | "length" | "error"
	Beh    int           `json:"beh"`
	Step   int           `json:"step"`
	Detail string        `json:"detail"`
	Class  string        `json:"class"`
	Input  []interface{} `json:"input"`
}

func init() {
	reg("gorilla_replay", cmdGorillaReplay)
}

func xorFor(rnd *rand.Rand, lead, trail int) uint64 {
	hi := uint(63 - lead)
	lo := uint(trail)
	var x uint64 = (1 << hi) | (1 << lo)
	if hi > lo+1 {
		mid := rnd.Uint64()
		mask := ((uint64(1) << hi) - 1) &^ ((uint64(1) << (lo + 1)) - 1)
		x |= mid & mask
	}
	return x
}

func decodeAll(buf []byte) ([]uint32, []uint64, error) {
	it, err := compress.NewDecompressIterator(bytes.NewReader(buf))
	if err != nil {
		return nil, nil, err
	}
	var ts []uint32
	var vs []uint64
	for it.Next() {
		t, v := it.At()
		ts = append(ts, t)
		vs = append(vs, math.Float64bits(v))
		if len(ts) > 1000 {
			return ts, vs, fmt.Errorf("decoder does not terminate")
		}
	}
	return ts, vs, it.Err()
}

func cmdGorillaReplay(c Cmd) (interface{}, error) {
	f, err := os.Open(c.str("file"))
	if err != nil {
		return nil, err
	}
	defer f.Close()
	seed := c.i64("seed", 1)
	maxFail := int(c.i64("max_fail", 50))
	sc := bufio.NewScanner(f)
	sc.Buffer(make([]byte, 1<<20), 1<<26)
	nb, nsteps := 0, 0
	fails := []gorFail{}
	classes := map[string]int{}
	var sample interface{}
	for sc.Scan() {
		var b gorBeh
		if err := json.Unmarshal(sc.Bytes(), &b); err != nil || len(b.Steps) == 0 {
			continue
		}
		rnd := rand.New(rand.NewSource(seed*1000003 + int64(nb)))
		nb++
		// first datapoint: establishes header = t0, delta 0, raw value
		firsts := []uint64{math.Float64bits(1.0), math.Float64bits(-0.0), math.Float64bits(12345.678), 0, rnd.Uint64(), math.Float64bits(math.MaxFloat64), math.Float64bits(math.SmallestNonzeroFloat64)}
		prev := firsts[rnd.Intn(len(firsts))]
		t := uint32(1_700_000_000 + rnd.Intn(1000000))
		delta := int64(0)
		buf := new(bytes.Buffer)
		comp, _, err := compress.NewCompressor(buf, t)
		if err != nil {
			return nil, err
		}
		if _, err := comp.Compress(t, math.Float64frombits(prev)); err != nil {
			return nil, err
		}
		wantT := []uint32{t}
		wantV := []uint64{prev}
		input := []interface{}{[]interface{}{t, fmt.Sprintf("%016x", prev)}}
		for si, st := range b.Steps {
			nsteps++
			delta += st.Dod
			t = uint32(int64(t) + delta)
			var cls string
			if st.X.Z {
				cls = fmt.Sprintf("dod=%d,x=same", st.Dod)
			} else {
				prev ^= xorFor(rnd, st.X.Lead, st.X.Trail)
				cls = fmt.Sprintf("dod=%d,lead=%d,trail=%d", st.Dod, st.X.Lead, st.X.Trail)
			}
			classes[cls]++
			wantT = append(wantT, t)
			wantV = append(wantV, prev)
			input = append(input, []interface{}{t, fmt.Sprintf("%016x", prev)})
			addFail := func(kind, detail string) {
				if len(fails) < maxFail {
					in := make([]interface{}, len(input))
					copy(in, input)
					fails = append(fails, gorFail{kind, nb - 1, si, detail, cls, in})
				}
			}
			if _, err := comp.Compress(t, math.Float64frombits(prev)); err != nil {
				addFail("error", "Compress: "+err.Error())
				break
			}
			cb := new(bytes.Buffer)
			_, fin, err := compress.CloneCompressor(comp, cb)
			if err != nil {
				return nil, err
			}
			if err := fin(); err != nil {
				addFail("error", "finish: "+err.Error())
				break
			}
			gotT, gotV, derr := decodeAll(cb.Bytes())
			bad := ""
			if derr != nil {
				bad = "decode error: " + derr.Error()
			} else if len(gotT) != len(wantT) {
				bad = fmt.Sprintf("decoded %d datapoints, want %d", len(gotT), len(wantT))
			} else {
				for i := range wantT {
					if gotT[i] != wantT[i] || gotV[i] != wantV[i] {
						bad = fmt.Sprintf("datapoint %d: got (%d,%016x) want (%d,%016x)", i, gotT[i], gotV[i], wantT[i], wantV[i])
						break
					}
				}
			}
			if bad != "" {
				addFail("roundtrip", bad)
				break
			}
			// conformance: predicted stream length (spec bits + 37-bit finish marker, byte padded)
			wantLen := (st.Bits + 37 + 7) / 8
			if cb.Len() != wantLen {
				addFail("length", fmt.Sprintf("stream is %d bytes, spec predicts %d (bits=%d)", cb.Len(), wantLen, st.Bits))
			}
		}
		if sample == nil {
			sample = map[string]interface{}{"steps": b.Steps, "concrete": input}
		}
	}
	return map[string]interface{}{"behaviours": nb, "steps": nsteps, "classes": len(classes), "fails": fails, "sample": sample}, nil
}
