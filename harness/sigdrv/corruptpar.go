package main

// corruptpar.go (C18): c18_parallel{queries:[{index,text,start,end,size}...], rounds} runs the given searches CONCURRENTLY
// (one goroutine each, `rounds` times) through the same entry point as the `query` op
// (pipesearch.ParseAndExecutePipeRequest) and returns every answer.  A damaged block is then read
// while other readers of the same process are active - the situation in which state shared between
// readers (buffer pools) could carry damage from one segment into the answers about another.

import (
	"encoding/json"
	"fmt"
	"sync"
	"sync/atomic"
	"time"

	"github.com/siglens/siglens/pkg/ast/pipesearch"
)

var parQid uint64 = 5_000_000

func init() {
	reg("c18_parallel", func(c Cmd) (interface{}, error) {
		qs, _ := c["queries"].([]interface{})
		rounds := int(c.i64("rounds", 1))
		type ans struct {
			Q   int             `json:"q"`
			Res json.RawMessage `json:"res,omitempty"`
			Err string          `json:"qerr,omitempty"`
		}
		out := make([]ans, 0, len(qs)*rounds)
		var mu sync.Mutex
		var wg sync.WaitGroup
		for r := 0; r < rounds; r++ {
			for i, q := range qs {
				qm, ok := q.(map[string]interface{})
				if !ok {
					continue
				}
				wg.Add(1)
				go func(i int, qc Cmd) {
					defer wg.Done()
					a := ans{Q: i}
					defer func() {
						if rec := recover(); rec != nil {
							a.Err = fmt.Sprintf("PANIC in query: %v", rec)
						}
						mu.Lock()
						out = append(out, a)
						mu.Unlock()
					}()
					m := map[string]interface{}{
						"searchText":    qc.str("text"),
						"indexName":     qc.str("index"),
						"startEpoch":    qc.u64("start", 0),
						"endEpoch":      qc.u64("end", uint64(time.Now().UnixMilli())+86400000),
						"queryLanguage": "Splunk QL",
					}
					if _, ok := qc["size"]; ok {
						m["size"] = json.Number(fmt.Sprint(qc.i64("size", 100)))
					}
					qid := atomic.AddUint64(&parQid, 1)
					resp, _, _, err := pipesearch.ParseAndExecutePipeRequest(m, qid, 0, time.Now(), "-1", nil)
					if err != nil {
						a.Err = err.Error()
						return
					}
					b, err := json.Marshal(resp)
					if err != nil {
						a.Err = "marshal: " + err.Error()
						return
					}
					a.Res = b
				}(i, Cmd(qm))
			}
		}
		done := make(chan struct{})
		go func() { wg.Wait(); close(done) }()
		select {
		case <-done:
			return out, nil
		case <-time.After(time.Duration(c.i64("timeout_ms", 30000)) * time.Millisecond):
			return map[string]interface{}{"hang": true}, nil
		}
	})
}
