package main

// mark{file, text}: append one line to a marker file OUTSIDE the data directory with a single write system
// call.  Crash-state enumeration (lib/crashfs.py) sees these writes in the same system-call order as the
// engine's own file operations, which is how the oracle knows what "had completed before the crash".

import (
	"os"
)

func init() {
	reg("mark", func(c Cmd) (interface{}, error) {
		f, err := os.OpenFile(c.str("file"), os.O_WRONLY|os.O_CREATE|os.O_APPEND, 0o644)
		if err != nil {
			return nil, err
		}
		defer f.Close()
		_, err = f.Write([]byte(c.str("text") + "\n"))
		return nil, err
	})
}
