package main

// paths.go (C19): run the REAL ingest and query HTTP servers of siglens inside the driver
// process, on loopback ports, exactly as cmd/startup does (startIngestServer/startQueryServer):
// the route tables, fasthttp's request parsing / path normalisation, the router's parameter
// extraction and the handlers are all production code.  The check then sends raw HTTP requests
// (so that it controls every byte of the request line, the query string, the multipart form and
// the body) and inspects a sentinel tree around the data directory.
//
//   paths_serve{dir, iport, qport, [logfile]}  - replaces `init` for this process life
//
// The other ops of the driver (flush, rotate, mrotate, shutdown_flush, ...) stay usable on the same
// process to force the engine to write what it buffered.

import (
	"context"
	"fmt"
	htmltemplate "html/template"
	"io"
	"net"
	"os"
	texttemplate "text/template"
	"time"

	log "github.com/sirupsen/logrus"

	"github.com/siglens/siglens/pkg/alerts/alertsHandler"
	"github.com/siglens/siglens/pkg/config"
	"github.com/siglens/siglens/pkg/dashboards"
	"github.com/siglens/siglens/pkg/querytracker"
	"github.com/siglens/siglens/pkg/scroll"
	"github.com/siglens/siglens/pkg/segment/memory/limit"
	"github.com/siglens/siglens/pkg/segment/query"
	ingestserver "github.com/siglens/siglens/pkg/server/ingest"
	queryserver "github.com/siglens/siglens/pkg/server/query"
	serverutils "github.com/siglens/siglens/pkg/server/utils"
	usq "github.com/siglens/siglens/pkg/usersavedqueries"
	vtable "github.com/siglens/siglens/pkg/virtualtable"
)

func init() {
	reg("paths_serve", cmdPathsServe)
	// what ShutdownSiglensServer flushes besides segments and metrics
	reg("paths_shutdown_flush", func(c Cmd) (interface{}, error) {
		err := vtable.FlushAliasMapToFile()
		scroll.ForcedFlushToScrollFile()
		if err != nil {
			return map[string]interface{}{"alias_flush_err": err.Error()}, nil
		}
		return nil, nil
	})
}

func waitPort(addr string, d time.Duration) error {
	end := time.Now().Add(d)
	for time.Now().Before(end) {
		c, err := net.DialTimeout("tcp", addr, 200*time.Millisecond)
		if err == nil {
			c.Close()
			return nil
		}
		time.Sleep(20 * time.Millisecond)
	}
	return fmt.Errorf("server on %s did not come up", addr)
}

func cmdPathsServe(c Cmd) (interface{}, error) {
	dataDir = c.str("dir")
	if dataDir == "" {
		return nil, fmt.Errorf("paths_serve: dir required")
	}
	if lf := c.str("logfile"); lf != "" {
		f, err := os.OpenFile(lf, os.O_CREATE|os.O_WRONLY|os.O_APPEND, 0o644)
		if err == nil {
			log.SetOutput(f)
		}
	} else {
		log.SetOutput(io.Discard)
	}
	log.SetLevel(log.ErrorLevel)
	config.InitializeTestingConfig(dataDir)
	initExtra(c)
	// the order of cmd/startup.StartSiglensServer
	if err := alertsHandler.ConnectSiglensDB(); err != nil {
		return nil, fmt.Errorf("ConnectSiglensDB: %v", err)
	}
	limit.InitMemoryLimiter()
	go query.PullQueriesToRun(context.Background())
	if err := usq.InitUsq(); err != nil {
		return nil, err
	}
	if err := dashboards.InitDashboards(0); err != nil {
		return nil, err
	}
	querytracker.InitQT()
	if err := vtable.InitVTable(serverutils.GetMyIds); err != nil {
		return nil, err
	}
	iaddr := fmt.Sprintf("127.0.0.1:%d", c.i64("iport", 0))
	qaddr := fmt.Sprintf("127.0.0.1:%d", c.i64("qport", 0))
	errs := make(chan error, 2)
	is := ingestserver.ConstructIngestServer(config.DefaultIngestionHttpConfig(), iaddr)
	go func() { errs <- is.Run() }()
	if err := waitPort(iaddr, 15*time.Second); err != nil {
		return nil, err
	}
	qs := queryserver.ConstructQueryServer(config.DefaultQueryServerHttpConfig(), qaddr)
	go func() { errs <- qs.Run(htmltemplate.New("html"), texttemplate.New("other")) }()
	if err := waitPort(qaddr, 15*time.Second); err != nil {
		return nil, err
	}
	select {
	case e := <-errs:
		return nil, fmt.Errorf("a server stopped: %v", e)
	default:
	}
	return map[string]interface{}{"data_path": config.GetDataPath(), "host": config.GetHostID(), "lookups": config.GetLookupPath()}, nil
}
