package main

// corrupt.go (C18): dataset-building knob for the file-damage sweep.
//
//   c18_cardlimit{n}: writer.SetCardinalityLimit(n) - the engine's own exported setter for the
//   per-block cardinality above which a column block is written zstd-raw (ZSTD_COMLUNAR_BLOCK)
//   instead of dictionary-encoded (default 501).  Lowering it while BUILDING the data set gives
//   both on-disk encodings in a segment that is small enough to sweep byte by byte.  Readers
//   are not affected by it (the encoding is recorded in the first payload byte of every block).

import (
	"github.com/siglens/siglens/pkg/segment/writer"
)

func init() {
	reg("c18_cardlimit", func(c Cmd) (interface{}, error) {
		writer.SetCardinalityLimit(uint16(c.i64("n", 501)))
		return nil, nil
	})
}
