package main

// C09: one iteration of the metrics tags-tree flush timer (see the overlay shim zz_verif_c09.go)

import (
	"github.com/siglens/siglens/pkg/segment/writer/metrics"
)

func init() {
	reg("mtagsflush", func(c Cmd) (interface{}, error) {
		n, err := metrics.VerifC09TagsTreeFlushOnce()
		return n, err
	})
}
