package main

// ws_query: run real queries over the asynchronous (websocket) path: an in-memory fasthttp server upgrades
// the connection exactly like pkg/server/query does and hands it to pipesearch.ProcessPipeSearchWebsocket;
// a websocket client in the same process sends the query, reads state messages and - according to the plan -
// sends {"state":"cancel"} or drops the connection after k messages.  Afterwards the running / waiting
// tables and the goroutines that remain are reported.

import (
	"fmt"
	"net"
	"runtime"
	"sort"
	"strings"
	"sync"
	"time"

	fws "github.com/fasthttp/websocket"
	"github.com/siglens/siglens/pkg/ast/pipesearch"
	"github.com/siglens/siglens/pkg/config"
	"github.com/siglens/siglens/pkg/segment/query"
	"github.com/valyala/fasthttp"
	"github.com/valyala/fasthttp/fasthttputil"
)

func init() { reg("ws_queries", cmdWsQueries) }

type wsPlan struct {
	Text        string
	CancelAfter int64 // send {"state":"cancel"} after this many received messages (-1 never)
	CloseAfter  int64 // drop the connection after this many received messages (-1 never)
	SlowMs      int64 // client reads one message every SlowMs (back-pressure on the server's writes)
	StartMs     int64
}

func cmdWsQueries(c Cmd) (interface{}, error) {
	var plans []wsPlan
	if raw, ok := c["plans"].([]interface{}); ok {
		for _, p := range raw {
			m := Cmd(p.(map[string]interface{}))
			plans = append(plans, wsPlan{m.str("text"), m.i64("cancel_after", -1), m.i64("close_after", -1), m.i64("slow_ms", 0), m.i64("start_ms", 0)})
		}
	}
	if mr := c.i64("max_running", 0); mr > 0 {
		query.MAX_RUNNING_QUERIES = uint64(mr)
	}
	if ts := c.i64("timeout_secs", 0); ts > 0 {
		config.SetQueryTimeoutSecs(int(ts))
	}
	index := c.str("index")
	if index == "" {
		index = "*"
	}
	ln := fasthttputil.NewInmemoryListener()
	upgrader := fws.FastHTTPUpgrader{ReadBufferSize: 4096, WriteBufferSize: 4096, CheckOrigin: func(ctx *fasthttp.RequestCtx) bool { return true }}
	srv := &fasthttp.Server{Handler: func(ctx *fasthttp.RequestCtx) {
		_ = upgrader.Upgrade(ctx, func(conn *fws.Conn) {
			defer conn.Close()
			pipesearch.ProcessPipeSearchWebsocket(conn, 0, ctx)
		})
	}}
	go func() { _ = srv.Serve(ln) }()
	defer ln.Close()
	time.Sleep(30 * time.Millisecond)
	baseG := runtime.NumGoroutine()
	baseSigs := goroutineSigs()
	type outT struct {
		States []string `json:"states"`
		Err    string   `json:"err,omitempty"`
		Ms     int64    `json:"ms"`
	}
	outs := make([]outT, len(plans))
	var wg sync.WaitGroup
	t0 := time.Now()
	for i := range plans {
		wg.Add(1)
		go func(i int) {
			defer wg.Done()
			p := plans[i]
			time.Sleep(time.Until(t0.Add(time.Duration(p.StartMs) * time.Millisecond)))
			ts := time.Now()
			d := fws.Dialer{NetDial: func(network, addr string) (net.Conn, error) { return ln.Dial() }}
			conn, _, err := d.Dial("ws://inmem/api/search/ws", nil)
			if err != nil {
				outs[i].Err = "dial: " + err.Error()
				return
			}
			defer conn.Close()
			q := map[string]interface{}{"state": "query", "searchText": p.Text, "indexName": index, "startEpoch": uint64(1),
				"endEpoch": uint64(time.Now().UnixMilli()) + 86400000, "queryLanguage": "Splunk QL"}
			if err := conn.WriteJSON(q); err != nil {
				outs[i].Err = "write: " + err.Error()
				return
			}
			n := int64(0)
			for {
				_ = conn.SetReadDeadline(time.Now().Add(20 * time.Second))
				var m map[string]interface{}
				if err := conn.ReadJSON(&m); err != nil {
					if !strings.Contains(err.Error(), "close") && !strings.Contains(err.Error(), "EOF") {
						outs[i].Err = "read: " + err.Error()
					}
					break
				}
				n++
				st := fmt.Sprint(m["state"])
				outs[i].States = append(outs[i].States, st)
				if p.CancelAfter >= 0 && n == p.CancelAfter {
					_ = conn.WriteJSON(map[string]interface{}{"state": "cancel"})
				}
				if p.CloseAfter >= 0 && n >= p.CloseAfter {
					break // defer conn.Close(): abrupt disconnect
				}
				if st == "COMPLETE" || st == "CANCELLED" || st == "error" || st == "TIMEOUT" {
					// TIMEOUT is followed by the server closing; keep reading until close
					if st != "TIMEOUT" {
						break
					}
				}
				if p.SlowMs > 0 {
					time.Sleep(time.Duration(p.SlowMs) * time.Millisecond)
				}
			}
			outs[i].Ms = time.Since(ts).Milliseconds()
		}(i)
	}
	done := make(chan struct{})
	go func() { wg.Wait(); close(done) }()
	stuck := false
	select {
	case <-done:
	case <-time.After(time.Duration(c.i64("stuck_ms", 60000)) * time.Millisecond):
		stuck = true
	}
	var running, waiting, g int
	deadline := time.Now().Add(time.Duration(c.i64("settle_ms", 6000)) * time.Millisecond)
	for {
		running, waiting, g = query.GetActiveQueryCount(), len(query.GetWaitingQueries()), runtime.NumGoroutine()
		if (running == 0 && waiting == 0 && g <= baseG) || time.Now().After(deadline) {
			break
		}
		time.Sleep(25 * time.Millisecond)
	}
	res := map[string]interface{}{"outs": outs, "stuck": stuck, "running_left": running, "waiting_left": waiting,
		"goroutines_base": baseG, "goroutines_left": g}
	extra := []string{}
	for sig, n := range goroutineSigs() {
		if n > baseSigs[sig] && (strings.Contains(sig, "siglens/pkg/segment") || strings.Contains(sig, "pipesearch")) {
			extra = append(extra, fmt.Sprintf("%dx %s @ %s", n-baseSigs[sig], sig, goroutineHint(sig)))
		}
	}
	sort.Strings(extra)
	if len(extra) > 12 {
		extra = extra[:12]
	}
	res["extra_goroutines"] = extra
	hk.mu.Lock()
	res["events"] = hk.events
	hk.events = nil
	hk.mu.Unlock()
	return res, nil
}
