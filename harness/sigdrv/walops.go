package main

// C10 (metrics write-ahead logs): explicit one-iteration steps of the WAL timer loops, separate recovery steps,
// and read-only observations (recovered block files, .mnm files, meta entries, WAL files, open descriptors).

import (
	"encoding/binary"
	"fmt"
	"math"
	"os"
	"path/filepath"
	"regexp"
	"sort"
	"strconv"
	"strings"
	"sync"
	"syscall"
	"time"

	"github.com/siglens/siglens/pkg/config"
	"github.com/siglens/siglens/pkg/segment/metadata"
	"github.com/siglens/siglens/pkg/segment/query"
	"github.com/siglens/siglens/pkg/segment/reader/metrics/series"
	"github.com/siglens/siglens/pkg/segment/structs"
	sutils "github.com/siglens/siglens/pkg/segment/utils"
	"github.com/siglens/siglens/pkg/segment/writer/metrics"
	"github.com/siglens/siglens/pkg/segment/writer/metrics/meta"
	"github.com/siglens/siglens/pkg/segment/writer/metrics/wal"
)

func init() {
	reg("wal_dpflush", func(c Cmd) (interface{}, error) { return nil, metrics.VerifWalDPSFlushOnce() })
	reg("wal_mnflush", func(c Cmd) (interface{}, error) { return nil, metrics.VerifMNameWalFlushOnce() })
	reg("wal_metaflush", func(c Cmd) (interface{}, error) {
		n, wrote, err := metrics.VerifMetaEntryWalFlushOnce()
		return map[string]interface{}{"entries": n, "wrote": wrote}, err
	})
	reg("wal_ttflush", func(c Cmd) (interface{}, error) {
		n, err := metrics.VerifWalTagsTreeFlushOnce()
		return map[string]interface{}{"trees": n}, err
	})
	reg("wal_recover_dp", func(c Cmd) (interface{}, error) { metrics.RecoverWALData(); return nil, nil })
	reg("wal_recover_mn", func(c Cmd) (interface{}, error) { metrics.RecoverMNameWALData(); return nil, nil })
	reg("wal_recover_me", func(c Cmd) (interface{}, error) { metrics.RecoverMEntryWALData(); return nil, nil })
	reg("wal_shard", func(c Cmd) (interface{}, error) {
		mid, suffix, err := metrics.VerifShardOf(c.str("name"), c.i64("org", 0))
		return map[string]interface{}{"mid": mid, "suffix": suffix}, err
	})
	// one (forced) iteration of the query node's metrics-metadata refresh loop: re-read metricmeta.json
	reg("wal_refresh", func(c Cmd) (interface{}, error) {
		return nil, query.PopulateMetricsMetadataForTheFile_TestOnly(meta.GetLocalMetricsMetaFName())
	})
	reg("wal_states", func(c Cmd) (interface{}, error) { return metrics.VerifWalStates(), nil })
	reg("wal_tsid", cmdWalTsid)
	reg("wal_setmax", func(c Cmd) (interface{}, error) {
		if _, ok := c["file_bytes"]; ok {
			sutils.MAX_WAL_FILE_SIZE_BYTES = c.u64("file_bytes", sutils.MAX_WAL_FILE_SIZE_BYTES)
		}
		if _, ok := c["block_dps"]; ok {
			sutils.WAL_BLOCK_FLUSH_SIZE = int(c.i64("block_dps", int64(sutils.WAL_BLOCK_FLUSH_SIZE)))
		}
		return map[string]interface{}{"file_bytes": sutils.MAX_WAL_FILE_SIZE_BYTES, "block_dps": sutils.WAL_BLOCK_FLUSH_SIZE}, nil
	})
	reg("wal_wait_ticks", cmdWalWaitTicks)
	reg("wal_blocks", cmdWalBlocks)
	reg("wal_mnm", cmdWalMnm)
	reg("wal_metas", cmdWalMetas)
	reg("wal_dump", cmdWalDump)
	reg("wal_files", cmdWalFiles)
	reg("wal_openfds", cmdWalOpenFds)
}

// wal_tsid{body}: body = one OpenTSDB datapoint object -> the series id the ingest path computes for it
func cmdWalTsid(c Cmd) (interface{}, error) {
	th := metrics.GetTagsHolder()
	mName, _, _, err := metrics.ExtractOTSDBPayload([]byte(c.str("body")), th)
	if err != nil {
		return nil, err
	}
	tsid, err := th.GetTSID(mName)
	if err != nil {
		return nil, err
	}
	return map[string]interface{}{"tsid": strconv.FormatUint(tsid, 10), "metric": string(mName)}, nil
}

func hostBase() string { return config.GetDataPath() + config.GetHostID() }

var reBlk = regexp.MustCompile(`^(\d+)_(\d+)\.tso$`)

// wal_blocks -> [{mid, suffix, block, series: {tsid: [[ts, hexbits]...]}, err}] for every flushed metrics block on disk,
// read with the real TimeSeriesSegmentReader (independent of tags trees and meta entries)
func cmdWalBlocks(c Cmd) (interface{}, error) {
	root := filepath.Join(hostBase(), "final", "ts")
	out := []map[string]interface{}{}
	mids, _ := os.ReadDir(root)
	for _, m := range mids {
		sufs, _ := os.ReadDir(filepath.Join(root, m.Name()))
		for _, s := range sufs {
			dir := filepath.Join(root, m.Name(), s.Name())
			fs, _ := os.ReadDir(dir)
			for _, f := range fs {
				mm := reBlk.FindStringSubmatch(f.Name())
				if mm == nil {
					continue
				}
				blk, _ := strconv.ParseUint(mm[2], 10, 16)
				ent := map[string]interface{}{"mid": m.Name(), "suffix": s.Name(), "block": blk}
				ser, err := readBlock(filepath.Join(dir, mm[1]), uint16(blk), filepath.Join(dir, f.Name()))
				if err != nil {
					ent["err"] = err.Error()
				}
				ent["series"] = ser
				out = append(out, ent)
			}
		}
	}
	return out, nil
}

func readBlock(mKey string, blk uint16, tsoPath string) (ser map[string]interface{}, err error) {
	defer func() {
		if r := recover(); r != nil {
			err = fmt.Errorf("PANIC reading block: %v", r)
		}
	}()
	ser = map[string]interface{}{}
	raw, err := os.ReadFile(tsoPath)
	if err != nil {
		return ser, err
	}
	if len(raw) < 9 {
		return ser, fmt.Errorf("tso file too short: %d", len(raw))
	}
	n := binary.LittleEndian.Uint64(raw[1:9])
	tsids := []uint64{}
	for i := uint64(0); i < n && 9+int(i)*12+8 <= len(raw); i++ {
		tsids = append(tsids, binary.LittleEndian.Uint64(raw[9+i*12:]))
	}
	rd, err := series.InitTimeSeriesReader(mKey)
	if err != nil {
		return ser, err
	}
	defer rd.Close()
	qm := &structs.MetricsQueryProcessingMetrics{UpdateLock: &sync.Mutex{}}
	br, err := rd.InitReaderForBlock(blk, qm)
	if err != nil {
		return ser, err
	}
	for _, tsid := range tsids {
		it, found, err := br.GetTimeSeriesIterator(tsid)
		if err != nil {
			return ser, err
		}
		if !found {
			ser[strconv.FormatUint(tsid, 10)] = nil
			continue
		}
		pts := []interface{}{}
		for it.Next() {
			t, v := it.At()
			pts = append(pts, []interface{}{t, fmt.Sprintf("%016x", math.Float64bits(v))})
		}
		if it.Err() != nil {
			return ser, it.Err()
		}
		ser[strconv.FormatUint(tsid, 10)] = pts
	}
	return ser, nil
}

// wal_mnm -> {"<mid>/<suffix>": [names...]} for every .mnm file on disk (real reader)
func cmdWalMnm(c Cmd) (interface{}, error) {
	root := filepath.Join(hostBase(), "final", "ts")
	out := map[string]interface{}{}
	_ = filepath.Walk(root, func(p string, info os.FileInfo, err error) error {
		if err != nil || info.IsDir() || !strings.HasSuffix(p, ".mnm") {
			return nil
		}
		rel, _ := filepath.Rel(root, filepath.Dir(p))
		names, e := metadata.ReadMetricNames(p)
		if e != nil {
			out[rel] = map[string]interface{}{"err": e.Error()}
			return nil
		}
		l := []string{}
		for n := range names {
			l = append(l, n)
		}
		sort.Strings(l)
		out[rel] = l
		return nil
	})
	return out, nil
}

// wal_metas -> the metrics meta entries of this node as the query path reads them
func cmdWalMetas(c Cmd) (interface{}, error) {
	m, err := meta.GetLocalMetricsMetaEntries()
	if err != nil {
		return nil, err
	}
	lines := 0
	if b, e := os.ReadFile(meta.GetLocalMetricsMetaFName()); e == nil {
		lines = strings.Count(string(b), "\n")
	}
	return map[string]interface{}{"entries": m, "lines": lines}, nil
}

// wal_dump{file, kind: dp|mname|meta} -> what the real iterator yields until it ends (nil) or fails
func cmdWalDump(c Cmd) (res interface{}, err error) {
	defer func() {
		if r := recover(); r != nil {
			err = fmt.Errorf("PANIC in wal iterator: %v", r)
		}
	}()
	f := c.str("file")
	out := map[string]interface{}{}
	items := []interface{}{}
	switch c.str("kind") {
	case "mname":
		it, e := wal.NewMNameWalReader(f)
		if e != nil {
			return map[string]interface{}{"open_err": e.Error()}, nil
		}
		defer it.Close()
		for {
			s, e := it.Next()
			if e != nil {
				out["err"] = e.Error()
				break
			}
			if s == nil {
				break
			}
			items = append(items, *s)
		}
	case "meta":
		it, e := wal.NewMetricsMetaEntryWalReader(f)
		if e != nil {
			return map[string]interface{}{"open_err": e.Error()}, nil
		}
		defer it.Close()
		for {
			s, e := it.Next()
			if e != nil {
				out["err"] = e.Error()
				break
			}
			if s == nil {
				break
			}
			items = append(items, s)
		}
	default:
		it, e := wal.NewWALReader(f)
		if e != nil {
			return map[string]interface{}{"open_err": e.Error()}, nil
		}
		defer it.Close()
		for {
			dp, e := it.Next()
			if e != nil {
				out["err"] = e.Error()
				break
			}
			if dp == nil {
				break
			}
			items = append(items, []interface{}{strconv.FormatUint(dp.Tsid, 10), dp.Timestamp, fmt.Sprintf("%016x", math.Float64bits(dp.DpVal))})
		}
	}
	out["items"] = items
	return out, nil
}

// wal_files -> [{path (relative to the wal dir), size}]
func cmdWalFiles(c Cmd) (interface{}, error) {
	root := filepath.Join(hostBase(), "wal-ts")
	out := []map[string]interface{}{}
	_ = filepath.Walk(root, func(p string, info os.FileInfo, err error) error {
		if err != nil || info.IsDir() {
			return nil
		}
		rel, _ := filepath.Rel(root, p)
		out = append(out, map[string]interface{}{"path": rel, "size": info.Size()})
		return nil
	})
	return out, nil
}

// wal_openfds -> descriptors of this process that point to .wal files; deleted = the file was unlinked under the process
func cmdWalOpenFds(c Cmd) (interface{}, error) {
	out := []map[string]interface{}{}
	ents, err := os.ReadDir("/proc/self/fd")
	if err != nil {
		return nil, err
	}
	for _, e := range ents {
		t, err := os.Readlink("/proc/self/fd/" + e.Name())
		if err != nil {
			continue
		}
		del := strings.HasSuffix(t, " (deleted)")
		t = strings.TrimSuffix(t, " (deleted)")
		if strings.HasSuffix(t, ".wal") {
			out = append(out, map[string]interface{}{"path": filepath.Base(t), "dir": filepath.Base(filepath.Dir(t)), "deleted": del})
		}
	}
	return out, nil
}

// wal_wait_ticks{meta, timeout_ms}: wait until the REAL timeBasedMetaEntryWalFlush goroutine (1 s period, started by
// InitMetricsSegStore) has rewritten the meta-entry log `meta` times, observed from outside through the file's inode /
// modification time (a rewrite = changes that are at least 300 ms apart).  Nothing is driven here: the loop bodies of the
// engine's own timers run (the one-iteration shims are copies of those bodies and cannot see a change made to them).
// Two rewrites guarantee that one of them began after this call; the 1 s datapoint / name flushers tick in the same span.
func cmdWalWaitTicks(c Cmd) (interface{}, error) {
	want := int(c.i64("meta", 2))
	timeout := time.Duration(c.i64("timeout_ms", 6000)) * time.Millisecond
	p := filepath.Join(hostBase(), "wal-ts", "metaentry", "metricsMetaEntry.wal")
	sig := func() string {
		st, err := os.Stat(p)
		if err != nil {
			return "absent"
		}
		ino := uint64(0)
		if sys, ok := st.Sys().(*syscall.Stat_t); ok {
			ino = sys.Ino
		}
		return fmt.Sprintf("%d/%d/%d", ino, st.ModTime().UnixNano(), st.Size())
	}
	t0 := time.Now()
	last, lastChange, seen := sig(), time.Time{}, 0
	for seen < want && time.Since(t0) < timeout {
		time.Sleep(15 * time.Millisecond)
		cur := sig()
		if cur != last {
			if time.Since(lastChange) > 300*time.Millisecond {
				seen++
			}
			last, lastChange = cur, time.Now()
		}
	}
	// let the rewrite that was just seen finish (its last write / rename is within a millisecond of the first)
	time.Sleep(40 * time.Millisecond)
	return map[string]interface{}{"meta_rewrites_seen": seen, "waited_ms": time.Since(t0).Milliseconds()}, nil
}
