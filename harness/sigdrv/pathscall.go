package main

// pathscall.go (C19): handler-level entry.
//
//   paths_call{fn, method, uri, body_b64, user:{name: value_b64, ...}} -> {status, body}
//
// Calls the exported request handler of a route exactly as the route's closure in
// pkg/server/{query,ingest}/entryHandlers.go does (serverutils.CallWithMyId[Query](pkg.ProcessX, ctx)
// or pkg.X(ctx)), on a fresh fasthttp.RequestCtx whose route parameters (ctx.UserValue) carry the
// given bytes verbatim.  Over HTTP, fasthttp/router v1.4.1 matches on the RAW request path, so a
// route parameter can never contain "/" - that is a property of the router version, not a
// validation by siglens; this op exercises the handlers as the trust boundary (the same functions
// are wired by hooks in other builds).  Must be used after paths_serve (same process state).
// Nothing is re-implemented: the table below only names which exported function a route calls.

import (
	"encoding/base64"
	"fmt"

	"github.com/valyala/fasthttp"

	"github.com/siglens/siglens/pkg/alerts/alertsHandler"
	"github.com/siglens/siglens/pkg/dashboards"
	eswriter "github.com/siglens/siglens/pkg/es/writer"
	"github.com/siglens/siglens/pkg/lookups"
	serverutils "github.com/siglens/siglens/pkg/server/utils"
	usq "github.com/siglens/siglens/pkg/usersavedqueries"
)

type rh = func(ctx *fasthttp.RequestCtx)

func withIdQ(h func(*fasthttp.RequestCtx, int64)) rh {
	return func(ctx *fasthttp.RequestCtx) { serverutils.CallWithMyIdQuery(h, ctx) }
}

func withId(h func(*fasthttp.RequestCtx, int64)) rh {
	return func(ctx *fasthttp.RequestCtx) { serverutils.CallWithMyId(h, ctx) }
}

// route closure -> exported function (pkg/server/query/entryHandlers.go, pkg/server/ingest/entryHandlers.go)
var pathHandlers = map[string]rh{
	"lookup-get":       lookups.GetLookupFile,                                                                     // getLookupFileHandler
	"lookup-delete":    lookups.DeleteLookupFile,                                                                  // deleteLookupFileHandler
	"lookup-upload":    lookups.UploadLookupFile,                                                                  // uploadLookupFileHandler
	"put-index":        withId(eswriter.ProcessPutIndex),                                                          // esPutIndexHandler / EsPutIndexHandler
	"doc-index":        func(ctx *fasthttp.RequestCtx) { eswriter.ProcessPutPostSingleDocRequest(ctx, false, 0) }, // esPutPostSingleDocHandler(false)
	"alias-put":        withIdQ(eswriter.ProcessPutAliasesRequest),                                                // esPutIndexAliasHandler
	"alias-get-index":  withId(eswriter.ProcessGetIndexAlias),                                                     // esGetIndexAliasesHandler
	"alias-get":        withIdQ(eswriter.ProcessGetAlias),                                                         // esGetAliasHandler
	"index-delete":     withIdQ(eswriter.ProcessDeleteIndex),                                                      // esDeleteIndexHandler
	"dashboard-get":    withIdQ(dashboards.ProcessGetDashboardRequest),                                            // getDashboardIdHandler
	"dashboard-fav":    withIdQ(dashboards.ProcessFavoriteRequest),                                                // favoriteDashboardHandler
	"dashboard-delete": withIdQ(dashboards.ProcessDeleteDashboardRequest),                                         // deleteDashboardHandler
	"folder-get":       withIdQ(dashboards.ProcessGetFolderContentsRequest),                                       // getFolderContentsHandler
	"folder-update":    withIdQ(dashboards.ProcessUpdateFolderRequest),                                            // updateFolderHandler
	"folder-delete":    withIdQ(dashboards.ProcessDeleteFolderRequest),                                            // deleteFolderHandler
	"folder-count":     withIdQ(dashboards.ProcessGetFolderNestedCountRequest),                                    // getFolderNestedCountHandler
	"usq-get":          withIdQ(usq.SearchUserSavedQuery),                                                         // SearchUserSavedQueryHandler
	"usq-delete":       withIdQ(usq.DeleteUserSavedQuery),                                                         // deleteUserSavedQueryHandler
	"alert-get":        alertsHandler.ProcessGetAlertRequest,                                                      // getAlertHandler
	"alert-history":    alertsHandler.ProcessAlertHistoryRequest,                                                  // alertHistoryHandler
}

func init() {
	reg("paths_call", func(c Cmd) (interface{}, error) {
		h, ok := pathHandlers[c.str("fn")]
		if !ok {
			return nil, fmt.Errorf("paths_call: unknown fn %q", c.str("fn"))
		}
		var req fasthttp.Request
		req.Header.SetMethod(c.str("method"))
		uri := c.str("uri")
		if uri == "" {
			uri = "/"
		}
		req.SetRequestURI(uri)
		if ct := c.str("ctype"); ct != "" {
			req.Header.SetContentType(ct)
		}
		if b := c.str("body_b64"); b != "" {
			raw, err := base64.StdEncoding.DecodeString(b)
			if err != nil {
				return nil, err
			}
			req.SetBody(raw)
		}
		var ctx fasthttp.RequestCtx
		ctx.Init(&req, nil, nil)
		if u, ok := c["user"].(map[string]interface{}); ok {
			for k, v := range u {
				s, _ := v.(string)
				raw, err := base64.StdEncoding.DecodeString(s)
				if err != nil {
					return nil, err
				}
				ctx.SetUserValue(k, string(raw))
			}
		}
		h(&ctx)
		return map[string]interface{}{"status": ctx.Response.StatusCode(), "body_b64": base64.StdEncoding.EncodeToString(ctx.Response.Body())}, nil
	})
}
