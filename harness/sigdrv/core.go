package main

import (
	"bytes"
	"context"
	"encoding/json"
	"fmt"
	"io"
	"os"
	"path/filepath"
	"sort"
	"time"

	log "github.com/sirupsen/logrus"

	"github.com/siglens/siglens/pkg/ast/pipesearch"
	"github.com/siglens/siglens/pkg/config"
	eswriter "github.com/siglens/siglens/pkg/es/writer"
	"github.com/siglens/siglens/pkg/segment/memory/limit"
	"github.com/siglens/siglens/pkg/segment/query"
	"github.com/siglens/siglens/pkg/segment/writer"
	serverutils "github.com/siglens/siglens/pkg/server/utils"
	vtable "github.com/siglens/siglens/pkg/virtualtable"
)

func bytesReader(b []byte) io.Reader { return bytes.NewReader(b) }

var dataDir string
var nextQid uint64 = 1000

func init() {
	reg("init", cmdInit)
	reg("bulk", cmdBulk)
	reg("flush", cmdFlush)
	reg("rotate", cmdRotate)
	reg("query", cmdQuery)
	reg("sleep", func(c Cmd) (interface{}, error) {
		time.Sleep(time.Duration(c.i64("ms", 100)) * time.Millisecond)
		return nil, nil
	})
	reg("ls", cmdLs)
	reg("ingest_refresh", cmdIngestRefresh)
	reg("shutdown_flush", func(c Cmd) (interface{}, error) {
		writer.ForcedFlushToSegfile()
		return nil, nil
	})
}

// init{dir, [logfile], [query_only], [wait_ms]}
func cmdInit(c Cmd) (interface{}, error) {
	dataDir = c.str("dir")
	if dataDir == "" {
		return nil, fmt.Errorf("init: dir required")
	}
	if lf := c.str("logfile"); lf != "" {
		f, err := os.OpenFile(lf, os.O_CREATE|os.O_WRONLY|os.O_APPEND, 0o644)
		if err == nil {
			log.SetOutput(f)
		}
	} else {
		log.SetOutput(io.Discard)
	}
	log.SetLevel(log.ErrorLevel)
	config.InitializeTestingConfig(dataDir)
	if v, ok := c["pqs"]; ok {
		b, _ := v.(bool)
		config.SetPQSEnabled(b)
	}
	if v, ok := c["aggs"]; ok {
		b, _ := v.(bool)
		config.SetAggregationsFlag(b)
	}
	limit.InitMemoryLimiter()
	ctx := context.Background()
	go query.PullQueriesToRun(ctx)
	if err := vtable.InitVTable(serverutils.GetMyIds); err != nil {
		return nil, err
	}
	// same order as the server: ingest server (InitWriterNode) then query server (InitQueryNode)
	writer.InitWriterNode()
	if err := query.InitQueryNode(serverutils.GetMyIds, serverutils.ExtractKibanaRequests); err != nil {
		return nil, err
	}
	initExtra(c)
	if w := c.i64("wait_ms", 0); w > 0 {
		time.Sleep(time.Duration(w) * time.Millisecond)
	}
	return nil, nil
}

// bulk{org, body} -> {processed, response, err}
func cmdBulk(c Cmd) (interface{}, error) {
	body := []byte(c.str("body"))
	n, resp, err := eswriter.HandleBulkBody(body, nil, 0, c.i64("org", 0), false)
	r := map[string]interface{}{"processed": n, "response": resp}
	if err != nil {
		r["herr"] = err.Error()
	}
	return r, nil
}

// ingest_refresh{org, index, docs:[json text,...]}: the ingest path that flushes inside the call (flush=true: single
// document PUT/POST with ?refresh, OTLP logs/traces with shouldFlush) - ProcessIndexRequestPle is what those handlers call
func cmdIngestRefresh(c Cmd) (interface{}, error) {
	docs, _ := c["docs"].([]interface{})
	index := c.str("index")
	tsNow := uint64(time.Now().UnixMilli())
	tsKey := config.GetTimeStampKey()
	var stackbuf [4096]byte
	ples := make([]*writer.ParsedLogEvent, 0, len(docs))
	for _, d := range docs {
		txt, _ := d.(string)
		ple, err := writer.GetNewPLE([]byte(txt), tsNow, index, &tsKey, stackbuf[:])
		if err != nil {
			return nil, fmt.Errorf("GetNewPLE: %v", err)
		}
		ples = append(ples, ple)
	}
	err := eswriter.ProcessIndexRequestPle(tsNow, index, true, map[string]string{}, c.i64("org", 0), 0,
		map[string]string{}, map[uint64]string{}, stackbuf[:], ples)
	if err != nil {
		return map[string]interface{}{"herr": err.Error()}, nil
	}
	return map[string]interface{}{"ingested": len(ples)}, nil
}

func cmdFlush(c Cmd) (interface{}, error) {
	var zero time.Duration
	writer.FlushWipBufferToFile(&zero, nil)
	return nil, nil
}

func cmdRotate(c Cmd) (interface{}, error) {
	writer.ForceRotateSegmentsForTest()
	return nil, nil
}

// query{org, index, text, lang, start, end, from, size, [include_nulls]}
func cmdQuery(c Cmd) (interface{}, error) {
	m := map[string]interface{}{
		"searchText":    c.str("text"),
		"indexName":     c.str("index"),
		"startEpoch":    c.u64("start", 0),
		"endEpoch":      c.u64("end", uint64(time.Now().UnixMilli())+86400000),
		"queryLanguage": "Splunk QL",
	}
	if m["indexName"] == "" {
		m["indexName"] = "*"
	}
	if l := c.str("lang"); l != "" {
		m["queryLanguage"] = l
	}
	if _, ok := c["from"]; ok {
		m["from"] = json.Number(fmt.Sprint(c.i64("from", 0)))
	}
	if _, ok := c["size"]; ok {
		m["size"] = json.Number(fmt.Sprint(c.i64("size", 100)))
	}
	if c.boolean("include_nulls") {
		m["includeNulls"] = true
	}
	nextQid++
	qid := nextQid
	type result struct {
		resp interface{}
		err  error
	}
	ch := make(chan result, 1)
	go func() {
		defer func() {
			if r := recover(); r != nil {
				ch <- result{nil, fmt.Errorf("PANIC in query: %v", r)}
			}
		}()
		resp, _, _, err := pipesearch.ParseAndExecutePipeRequest(m, qid, c.i64("org", 0), time.Now(), "-1", nil)
		ch <- result{resp, err}
	}()
	to := time.Duration(c.i64("timeout_ms", 60000)) * time.Millisecond
	select {
	case r := <-ch:
		if r.err != nil {
			return map[string]interface{}{"qerr": r.err.Error()}, nil
		}
		// round-trip through JSON with UseNumber so large ints survive
		b, err := json.Marshal(r.resp)
		if err != nil {
			return nil, fmt.Errorf("marshal response: %v", err)
		}
		return json.RawMessage(b), nil
	case <-time.After(to):
		return map[string]interface{}{"hang": true}, nil
	}
}

// ls{[dir]} -> sorted list of {path,size} under the data directory
func cmdLs(c Cmd) (interface{}, error) {
	root := c.str("dir")
	if root == "" {
		root = dataDir
	}
	type ent struct {
		Path string `json:"path"`
		Size int64  `json:"size"`
		Dir  bool   `json:"dir,omitempty"`
	}
	var ents []ent
	_ = filepath.Walk(root, func(p string, info os.FileInfo, err error) error {
		if err != nil {
			return nil
		}
		rel, _ := filepath.Rel(root, p)
		ents = append(ents, ent{rel, info.Size(), info.IsDir()})
		return nil
	})
	sort.Slice(ents, func(i, j int) bool { return ents[i].Path < ents[j].Path })
	return ents, nil
}
