package main

// searchagg.go (C02/C04): engine configuration that the production server derives in
// config.ExtractConfigData but config.InitializeTestingConfig leaves at the zero value.
//
//   - UseNewQueryPipeline defaults to "true" in production.  sigdrv's `query` always runs
//     through pipesearch.RunQueryForNewPipeline, but with the flag left false
//     segresults.CreateMeasResultsFromAggResults does not fill BucketHolder.IGroupByValues
//     and iqr.CreateStatsResults panics on EVERY `stats ... by g` (a harness artefact, not
//     an engine defect).  init{newpipe:false} restores the testing-config value.

//   - sa_cardlimit{n}: writer.SetCardinalityLimit(n) - the per-block distinct-value limit below
//     which a column is dictionary encoded (n=1: never dictionary encoded).  Layout control only.

import (
	"github.com/siglens/siglens/pkg/config"
	"github.com/siglens/siglens/pkg/segment/writer"
)

func init() {
	reg("sa_cardlimit", func(c Cmd) (interface{}, error) {
		writer.SetCardinalityLimit(uint16(c.i64("n", 501)))
		return nil, nil
	})
	extraInits = append(extraInits, func(c Cmd) {
		np := true
		if v, ok := c["newpipe"]; ok {
			if b, isb := v.(bool); isb {
				np = b
			}
		}
		config.SetNewQueryPipelineEnabled(np)
	})
}
