// sigdrv: JSON-lines command interpreter over the public entry points of the
// real siglens engine.  One process = one "server life"; a restart is a new
// process on the same data directory.  Reads one JSON command per line on
// stdin, writes exactly one JSON observation per command on stdout (fd 3 if
// SIGDRV_OUT_FD is set, so that engine logging on stdout/stderr cannot
// interleave).
package main

import (
	"bufio"
	"encoding/json"
	"fmt"
	"os"
	"runtime"
	"runtime/debug"
	"strconv"
	"time"
)

type Cmd map[string]interface{}

type handler func(c Cmd) (interface{}, error)

var handlers = map[string]handler{}

func reg(name string, h handler) { handlers[name] = h }

func (c Cmd) str(k string) string {
	if v, ok := c[k]; ok {
		switch t := v.(type) {
		case string:
			return t
		case float64:
			return strconv.FormatInt(int64(t), 10)
		}
	}
	return ""
}

func (c Cmd) i64(k string, def int64) int64 {
	if v, ok := c[k]; ok {
		switch t := v.(type) {
		case float64:
			return int64(t)
		case json.Number:
			n, _ := t.Int64()
			return n
		case string:
			n, err := strconv.ParseInt(t, 10, 64)
			if err == nil {
				return n
			}
		}
	}
	return def
}

func (c Cmd) u64(k string, def uint64) uint64 {
	if v, ok := c[k]; ok {
		switch t := v.(type) {
		case float64:
			return uint64(t)
		case json.Number:
			n, err := strconv.ParseUint(string(t), 10, 64)
			if err == nil {
				return n
			}
		case string:
			n, err := strconv.ParseUint(t, 10, 64)
			if err == nil {
				return n
			}
		}
	}
	return def
}

func (c Cmd) boolean(k string) bool {
	v, _ := c[k].(bool)
	return v
}

var out *bufio.Writer

func emit(v interface{}) {
	b, err := json.Marshal(v)
	if err != nil {
		b, _ = json.Marshal(map[string]interface{}{"ok": false, "err": "marshal: " + err.Error()})
	}
	out.Write(b)
	out.WriteByte('\n')
	out.Flush()
}

func run(c Cmd) (res interface{}, err error) {
	defer func() {
		if r := recover(); r != nil {
			err = fmt.Errorf("PANIC: %v\n%s", r, debug.Stack())
		}
	}()
	op := c.str("op")
	h, ok := handlers[op]
	if !ok {
		return nil, fmt.Errorf("unknown op %q", op)
	}
	return h(c)
}

func main() {
	outF := os.Stdout
	if fdS := os.Getenv("SIGDRV_OUT_FD"); fdS != "" {
		fd, _ := strconv.Atoi(fdS)
		outF = os.NewFile(uintptr(fd), "out")
	}
	out = bufio.NewWriterSize(outF, 1<<20)
	if p := os.Getenv("SIGDRV_GOMAXPROCS"); p != "" {
		n, _ := strconv.Atoi(p)
		if n > 0 {
			runtime.GOMAXPROCS(n)
		}
	}
	in := bufio.NewReaderSize(os.Stdin, 1<<20)
	for {
		line, err := in.ReadBytes('\n')
		if len(line) > 1 {
			var c Cmd
			dec := json.NewDecoder(bytesReader(line))
			dec.UseNumber()
			if e := dec.Decode(&c); e != nil {
				emit(map[string]interface{}{"ok": false, "err": "bad command: " + e.Error()})
			} else {
				if c.str("op") == "quit" {
					emit(map[string]interface{}{"ok": true})
					os.Exit(0)
				}
				t0 := time.Now()
				res, e := run(c)
				o := map[string]interface{}{"ok": e == nil, "ms": time.Since(t0).Milliseconds()}
				if e != nil {
					o["err"] = e.Error()
				}
				if res != nil {
					o["res"] = res
				}
				emit(o)
			}
		}
		if err != nil {
			return
		}
	}
}
