package main

// C10, multi-shard composition: several goroutines ingest through the real OpenTSDB handler into DIFFERENT metrics
// segments (shards) at a rate that makes appendToWALBuffer append from the ingest goroutines, while the loop body of
// timeBasedWalDPSFlush runs concurrently; plus a harness-side structural scan of a WAL file (framing, checksum, zstd,
// datapoint count) that is used to decide whether the real iterator can be run on it without allocating gigabytes.

import (
	"encoding/binary"
	"fmt"
	"hash/crc32"
	"os"
	"runtime/debug"
	"strings"
	"sync"
	"sync/atomic"
	"time"

	"github.com/klauspost/compress/zstd"
	otsdbwriter "github.com/siglens/siglens/pkg/integrations/otsdb/writer"
	"github.com/siglens/siglens/pkg/segment/writer/metrics"
)

func init() {
	reg("wal_conc_ingest", cmdWalConcIngest)
	reg("wal_scan", cmdWalScan)
}

type concSeries struct {
	metric string
	tags   string // JSON object text
}

// wal_conc_ingest{groups: [[{metric, tags:{..}}...]...], n, t0, flush_every_us, timeout_ms}
// goroutine g puts datapoint i (i = 0..n-1) of series groups[g][i % len] with timestamp t0+i and value g*1e6+i+0.5, one
// HandlePutMetrics call per datapoint, all goroutines released together.
func cmdWalConcIngest(c Cmd) (interface{}, error) {
	rawGroups, _ := c["groups"].([]interface{})
	if len(rawGroups) == 0 {
		return nil, fmt.Errorf("groups required")
	}
	groups := make([][]concSeries, len(rawGroups))
	for g, rg := range rawGroups {
		for _, rs := range rg.([]interface{}) {
			m := rs.(map[string]interface{})
			tags := []string{}
			for k, v := range m["tags"].(map[string]interface{}) {
				tags = append(tags, fmt.Sprintf("%q:%q", k, fmt.Sprint(v)))
			}
			groups[g] = append(groups[g], concSeries{metric: fmt.Sprint(m["metric"]), tags: "{" + strings.Join(tags, ",") + "}"})
		}
	}
	n := int(c.i64("n", 1000))
	t0 := c.i64("t0", 1700100000)
	flushEvery := time.Duration(c.i64("flush_every_us", 500)) * time.Microsecond
	timeout := time.Duration(c.i64("timeout_ms", 60000)) * time.Millisecond

	type gres struct {
		Put      int      `json:"put"`
		Rejected int      `json:"rejected"`
		RejIdx   []int    `json:"rejected_idx"`
		Panics   []string `json:"panics"`
		Errors   []string `json:"errors"`
		Done     bool     `json:"done"`
	}
	res := make([]gres, len(groups))
	first := 0
	if v, ok := c["warmup"].(bool); !ok || v {
		first = 1
	}
	var mu sync.Mutex
	start := make(chan struct{})
	var wg sync.WaitGroup
	var stop int32
	for g := range groups {
		wg.Add(1)
		go func(g int) {
			defer wg.Done()
			<-start
			for i := first; i < n && atomic.LoadInt32(&stop) == 0; i++ {
				s := groups[g][i%len(groups[g])]
				body := fmt.Sprintf(`[{"metric":%q,"tags":%s,"timestamp":%d,"value":%d.5}]`, s.metric, s.tags, t0+int64(i), g*1000000+i)
				func() {
					defer func() {
						if r := recover(); r != nil {
							mu.Lock()
							if len(res[g].Panics) < 5 {
								res[g].Panics = append(res[g].Panics, fmt.Sprintf("datapoint %d: %v :: %s", i, r, firstFrames(string(debug.Stack()))))
							}
							res[g].Rejected++
							res[g].RejIdx = append(res[g].RejIdx, i)
							mu.Unlock()
						}
					}()
					ok, failed, err := otsdbwriter.HandlePutMetrics([]byte(body), 0)
					mu.Lock()
					if err != nil || failed != 0 || ok != 1 {
						res[g].Rejected++
						res[g].RejIdx = append(res[g].RejIdx, i)
						if len(res[g].Errors) < 5 {
							res[g].Errors = append(res[g].Errors, fmt.Sprintf("datapoint %d: ok=%d failed=%d err=%v", i, ok, failed, err))
						}
					} else {
						res[g].Put++
					}
					mu.Unlock()
				}()
			}
			mu.Lock()
			res[g].Done = true
			mu.Unlock()
		}(g)
	}
	// the 1 s flusher's loop body, run much more often so that timer appends overlap the size-triggered ones
	flushes, flushErrs, flushPanics := 0, []string{}, []string{}
	flushDone := make(chan struct{})
	go func() {
		defer close(flushDone)
		<-start
		for atomic.LoadInt32(&stop) == 0 {
			func() {
				defer func() {
					if r := recover(); r != nil {
						mu.Lock()
						if len(flushPanics) < 5 {
							flushPanics = append(flushPanics, fmt.Sprintf("%v :: %s", r, firstFrames(string(debug.Stack()))))
						}
						mu.Unlock()
					}
				}()
				if err := metrics.VerifWalDPSFlushOnce(); err != nil {
					mu.Lock()
					if len(flushErrs) < 5 {
						flushErrs = append(flushErrs, err.Error())
					}
					mu.Unlock()
				}
			}()
			mu.Lock()
			flushes++
			mu.Unlock()
			time.Sleep(flushEvery)
		}
	}()
	// Datapoint 0 of every goroutine is put sequentially first (unless warmup=false).  Historical reason: before /repo commit
	// f822052 the first metrics put of a tenant inserted into an unsynchronised usageStats map and several FIRST puts racing
	// there could end the process ("fatal error: concurrent map writes"), which has nothing to do with the logs under test.
	// The insert is locked now; the warm-up is kept so that the scenario starts from the same state on older trees too and
	// every goroutine's series exists before the concurrent phase (position 0 of each expected sequence is fixed).
	if first == 1 {
		for g := range groups {
			s := groups[g][0]
			body := fmt.Sprintf(`[{"metric":%q,"tags":%s,"timestamp":%d,"value":%d.5}]`, s.metric, s.tags, t0, g*1000000)
			ok, failed, err := otsdbwriter.HandlePutMetrics([]byte(body), 0)
			if err != nil || failed != 0 || ok != 1 {
				return nil, fmt.Errorf("warm-up put of goroutine %d failed: ok=%d failed=%d err=%v", g, ok, failed, err)
			}
			res[g].Put++
		}
	}
	tStart := time.Now()
	close(start)
	allDone := make(chan struct{})
	go func() { wg.Wait(); close(allDone) }()
	hang := false
	select {
	case <-allDone:
	case <-time.After(timeout):
		hang = true
	}
	atomic.StoreInt32(&stop, 1)
	finalFlush := ""
	if !hang {
		select {
		case <-flushDone:
		case <-time.After(10 * time.Second):
			hang = true
		}
	}
	if !hang {
		// everything still buffered goes to the logs (one more iteration of the flusher)
		fd := make(chan string, 1)
		go func() {
			defer func() {
				if r := recover(); r != nil {
					fd <- fmt.Sprintf("PANIC: %v", r)
				}
			}()
			if err := metrics.VerifWalDPSFlushOnce(); err != nil {
				fd <- err.Error()
				return
			}
			fd <- "ok"
		}()
		select {
		case finalFlush = <-fd:
		case <-time.After(10 * time.Second):
			hang = true
		}
	}
	mu.Lock()
	defer mu.Unlock()
	out := make([]gres, len(res))
	copy(out, res)
	return map[string]interface{}{"goroutines": out, "flusher_iterations": flushes, "flusher_errors": flushErrs, "flusher_panics": flushPanics,
		"final_flush": finalFlush, "hang": hang, "elapsed_ms": time.Since(tStart).Milliseconds()}, nil
}

func firstFrames(stack string) string {
	lines := strings.Split(stack, "\n")
	keep := []string{}
	for _, l := range lines {
		if strings.Contains(l, "siglens/pkg/") && !strings.HasPrefix(l, "\t") {
			keep = append(keep, strings.TrimSpace(l))
			if len(keep) == 4 {
				break
			}
		}
	}
	return strings.Join(keep, " < ")
}

var scanDecoder, _ = zstd.NewReader(nil)

// wal_scan{file} -> {version_ok, blocks: [{off, len, fits, crc_ok, zstd_ok, raw_len, count, consistent}], trailing}
// Parses the framing itself (never allocates more than the file holds): count = the datapoint count a reader would allocate for.
func cmdWalScan(c Cmd) (interface{}, error) {
	raw, err := os.ReadFile(c.str("file"))
	if err != nil {
		return nil, err
	}
	out := map[string]interface{}{"size": len(raw), "version_ok": len(raw) > 0 && raw[0] == 1}
	blocks := []map[string]interface{}{}
	pos := 1
	for pos+8 <= len(raw) {
		bl := binary.LittleEndian.Uint32(raw[pos:])
		b := map[string]interface{}{"off": pos, "len": bl}
		if bl < 4 || pos+4+int(bl) > len(raw) {
			b["fits"] = false
			blocks = append(blocks, b)
			break
		}
		b["fits"] = true
		crc := binary.LittleEndian.Uint32(raw[pos+4:])
		pay := raw[pos+8 : pos+4+int(bl)]
		b["crc_ok"] = crc32.ChecksumIEEE(pay) == crc
		dec, derr := scanDecoder.DecodeAll(pay, nil)
		b["zstd_ok"] = derr == nil
		if derr == nil {
			b["raw_len"] = len(dec)
			if len(dec) >= 4 {
				n := binary.LittleEndian.Uint32(dec)
				b["count"] = n
				b["consistent"] = uint64(n)*20+4 == uint64(len(dec))
			}
		}
		blocks = append(blocks, b)
		pos += 4 + int(bl)
	}
	out["blocks"] = blocks
	out["trailing"] = len(raw) - pos
	return out, nil
}
