package main

// parse_replay: every query text of a TLC-enumerated token sequence file is parsed twice by the real
// parser of its language; the two plans are compared structurally (same text => same plan), panics are
// recovered and reported (the production handler goroutine is wrapped by a Recovery middleware, so a
// parse-time panic is answered as an error there), a watchdog reports parses that do not return.

import (
	"bufio"
	"encoding/json"
	"fmt"
	"os"
	"reflect"
	"regexp"
	"sort"
	"strings"
	"time"

	"github.com/siglens/siglens/pkg/ast/pipesearch"
	"github.com/siglens/siglens/pkg/integrations/prometheus/promql"
)

func init() { reg("parse_replay", cmdParseReplay) }

func canon(sb *strings.Builder, v reflect.Value, depth int, seen map[uintptr]bool) {
	if depth > 60 {
		sb.WriteString("<deep>")
		return
	}
	if !v.IsValid() {
		sb.WriteString("<nil>")
		return
	}
	switch v.Kind() {
	case reflect.Ptr:
		if v.IsNil() {
			sb.WriteString("nil")
			return
		}
		if re, ok := v.Interface().(*regexp.Regexp); ok {
			sb.WriteString("re:" + re.String())
			return
		}
		p := v.Pointer()
		if seen[p] {
			sb.WriteString("<cycle>")
			return
		}
		seen[p] = true
		sb.WriteString("&")
		canon(sb, v.Elem(), depth+1, seen)
		delete(seen, p)
	case reflect.Interface:
		if v.IsNil() {
			sb.WriteString("nil")
			return
		}
		sb.WriteString(v.Elem().Type().String() + ":")
		canon(sb, v.Elem(), depth+1, seen)
	case reflect.Struct:
		sb.WriteString(v.Type().Name() + "{")
		for i := 0; i < v.NumField(); i++ {
			fname := v.Type().Field(i).Name
			sb.WriteString(fname + "=")
			if lf := strings.ToLower(fname); strings.Contains(lf, "epoch") || lf == "starttime" || lf == "endtime" {
				// wall-clock derived: a time range relative to "now" legitimately differs between two parses
				sb.WriteString("<t>;")
				continue
			}
			canon(sb, v.Field(i), depth+1, seen)
			sb.WriteString(";")
		}
		sb.WriteString("}")
	case reflect.Slice, reflect.Array:
		if v.Kind() == reflect.Slice && v.IsNil() {
			sb.WriteString("nil[]")
			return
		}
		sb.WriteString("[")
		for i := 0; i < v.Len(); i++ {
			canon(sb, v.Index(i), depth+1, seen)
			sb.WriteString(",")
		}
		sb.WriteString("]")
	case reflect.Map:
		if v.IsNil() {
			sb.WriteString("nilmap")
			return
		}
		var items []string
		for _, k := range v.MapKeys() {
			var kb, vb strings.Builder
			canon(&kb, k, depth+1, seen)
			canon(&vb, v.MapIndex(k), depth+1, seen)
			items = append(items, kb.String()+":"+vb.String())
		}
		sort.Strings(items)
		sb.WriteString("map{" + strings.Join(items, ",") + "}")
	case reflect.Func, reflect.Chan, reflect.UnsafePointer:
		if v.IsNil() {
			sb.WriteString("nilfn")
		} else {
			sb.WriteString("fn")
		}
	case reflect.String:
		sb.WriteString(fmt.Sprintf("%q", v.String()))
	case reflect.Bool:
		sb.WriteString(fmt.Sprint(v.Bool()))
	case reflect.Int, reflect.Int8, reflect.Int16, reflect.Int32, reflect.Int64:
		sb.WriteString(fmt.Sprint(v.Int()))
	case reflect.Uint, reflect.Uint8, reflect.Uint16, reflect.Uint32, reflect.Uint64, reflect.Uintptr:
		sb.WriteString(fmt.Sprint(v.Uint()))
	case reflect.Float32, reflect.Float64:
		sb.WriteString(fmt.Sprint(v.Float()))
	default:
		sb.WriteString("?" + v.Kind().String())
	}
}

func canonOf(vals ...interface{}) string {
	var sb strings.Builder
	for _, x := range vals {
		canon(&sb, reflect.ValueOf(x), 0, map[uintptr]bool{})
		sb.WriteString("|")
	}
	return sb.String()
}

// parseOnce returns (plan canonical form, error text, panic text)
func parseOnce(lang, text string) (plan string, perr string, pnc string) {
	defer func() {
		if r := recover(); r != nil {
			pnc = fmt.Sprint(r)
		}
	}()
	switch lang {
	case "spl":
		n, a, idx, err := pipesearch.ParseRequest(text, 1, 1800000000000, 7, "Splunk QL", "*")
		if err != nil {
			return "", err.Error(), ""
		}
		return canonOf(n, a, idx), "", ""
	case "sql":
		n, a, idx, err := pipesearch.ParseRequest(text, 1, 1800000000000, 7, "SQL", "*")
		if err != nil {
			return "", err.Error(), ""
		}
		return canonOf(n, a, idx), "", ""
	case "promql":
		reqs, typ, ar, err := promql.ConvertPromQLToMetricsQuery(text, 1700000000, 1700003600, 0)
		if err != nil {
			return "", err.Error(), ""
		}
		return canonOf(reqs, string(typ), ar), "", ""
	}
	return "", "unknown language", ""
}

func cmdParseReplay(c Cmd) (interface{}, error) {
	f, err := os.Open(c.str("file"))
	if err != nil {
		return nil, err
	}
	defer f.Close()
	sc := bufio.NewScanner(f)
	sc.Buffer(make([]byte, 1<<20), 1<<24)
	type rec struct {
		Lang string `json:"lang"`
		Text string `json:"text"`
		// request part of a PromQL query (GrammarProm): carried through to the execution phase
		Start uint32 `json:"start,omitempty"`
		End   uint32 `json:"end,omitempty"`
		Req   bool   `json:"req,omitempty"`
	}
	type res struct {
		n, parsed, errors, panics int
	}
	var r res
	valid := []rec{}
	mismatches, hangs, panics := []map[string]string{}, []map[string]string{}, []map[string]string{}
	for sc.Scan() {
		var q rec
		if json.Unmarshal(sc.Bytes(), &q) != nil {
			continue
		}
		r.n++
		type pr struct{ plan, perr, pnc string }
		ch := make(chan [2]pr, 1)
		go func() {
			p1, e1, x1 := parseOnce(q.Lang, q.Text)
			p2, e2, x2 := parseOnce(q.Lang, q.Text)
			ch <- [2]pr{{p1, e1, x1}, {p2, e2, x2}}
		}()
		select {
		case two := <-ch:
			a, b := two[0], two[1]
			switch {
			case a.pnc != "" || b.pnc != "":
				r.panics++
				if len(panics) < 20 {
					panics = append(panics, map[string]string{"lang": q.Lang, "text": q.Text, "panic": a.pnc + b.pnc})
				}
			case a.perr != "" || b.perr != "":
				r.errors++
				if (a.perr == "") != (b.perr == "") && len(mismatches) < 20 {
					mismatches = append(mismatches, map[string]string{"lang": q.Lang, "text": q.Text, "why": "parsed once, failed once: " + a.perr + b.perr})
				}
			default:
				r.parsed++
				if a.plan != b.plan && len(mismatches) < 20 {
					i := 0
					for i < len(a.plan) && i < len(b.plan) && a.plan[i] == b.plan[i] {
						i++
					}
					lo := i - 80
					if lo < 0 {
						lo = 0
					}
					mismatches = append(mismatches, map[string]string{"lang": q.Lang, "text": q.Text,
						"why": "plans differ at: ..." + a.plan[lo:min(len(a.plan), i+80)] + " VS ..." + b.plan[lo:min(len(b.plan), i+80)]})
				}
				valid = append(valid, q)
			}
		case <-time.After(10 * time.Second):
			if len(hangs) < 10 {
				hangs = append(hangs, map[string]string{"lang": q.Lang, "text": q.Text})
			}
		}
	}
	return map[string]interface{}{"n": r.n, "parsed": r.parsed, "errors": r.errors, "panics": r.panics,
		"panic_samples": panics, "mismatches": mismatches, "hangs": hangs, "valid": valid}, nil
}

func min(a, b int) int {
	if a < b {
		return a
	}
	return b
}
