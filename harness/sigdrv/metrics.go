package main

import (
	"fmt"
	"math"
	"sort"

	dtu "github.com/siglens/siglens/pkg/common/dtypeutils"
	otsdbwriter "github.com/siglens/siglens/pkg/integrations/otsdb/writer"
	"github.com/siglens/siglens/pkg/integrations/prometheus/promql"
	"github.com/siglens/siglens/pkg/segment"
	"github.com/siglens/siglens/pkg/segment/structs"
	sutils "github.com/siglens/siglens/pkg/segment/utils"
	"github.com/siglens/siglens/pkg/segment/writer/metrics"
)

func init() {
	reg("otsdb", cmdOtsdb)
	reg("mrotate", func(c Cmd) (interface{}, error) {
		metrics.ForceFlushMetricsBlock()
		return nil, nil
	})
	reg("mquery", cmdMQuery)
	// one iteration of the 2-hourly block flush loop (rotateBlock + next block number)
	reg("mblockflush", func(c Cmd) (interface{}, error) {
		n, err := metrics.VerifBlockFlushOnce()
		return n, err
	})
	// size-driven rotation as the 10 s loop does it; thresholds are engine variables
	reg("msizerotate", func(c Cmd) (interface{}, error) {
		ob, os_ := sutils.MAX_BYTES_METRICS_BLOCK, sutils.MAX_BYTES_METRICS_SEGMENT
		sutils.MAX_BYTES_METRICS_BLOCK = c.u64("block_bytes", ob)
		sutils.MAX_BYTES_METRICS_SEGMENT = c.u64("seg_bytes", os_)
		n, err := metrics.VerifRotateOnce()
		sutils.MAX_BYTES_METRICS_BLOCK, sutils.MAX_BYTES_METRICS_SEGMENT = ob, os_
		return n, err
	})
	reg("mwalflush", func(c Cmd) (interface{}, error) {
		if err := metrics.VerifWalDPSFlushOnce(); err != nil {
			return nil, err
		}
		return nil, metrics.VerifMNameWalFlushOnce()
	})
	reg("wal_recover", func(c Cmd) (interface{}, error) {
		metrics.RecoverWALData()
		metrics.RecoverMNameWALData()
		metrics.RecoverMEntryWALData()
		return nil, nil
	})
}

// otsdb{org, body}: body is the JSON array / object of OpenTSDB put
func cmdOtsdb(c Cmd) (interface{}, error) {
	ok, failed, err := otsdbwriter.HandlePutMetrics([]byte(c.str("body")), c.i64("org", 0))
	r := map[string]interface{}{"ok": ok, "failed": failed}
	if err != nil {
		r["herr"] = err.Error()
	}
	return r, nil
}

// mquery{org, promql, start, end, step, instant} -> {series: {groupid: [[ts, "hexbits", float]...]}}
func cmdMQuery(c Cmd) (interface{}, error) {
	start := uint32(c.u64("start", 0))
	end := uint32(c.u64("end", 0))
	step := int(c.i64("step", 1))
	org := c.i64("org", 0)
	reqs, pqlType, arith, err := promql.ConvertPromQLToMetricsQuery(c.str("promql"), start, end, org)
	if err != nil {
		return map[string]interface{}{"qerr": err.Error()}, nil
	}
	if len(reqs) == 0 && len(arith) == 0 {
		return map[string]interface{}{"series": map[string]interface{}{}}, nil
	}
	nextQid++
	qid := nextQid
	list := make([]*structs.MetricsQuery, 0)
	hashes := make([]uint64, 0)
	var tr *dtu.MetricsTimeRange
	for i := range reqs {
		if c.boolean("instant") {
			reqs[i].MetricsQuery.IsInstantQuery = true
		} else {
			reqs[i].MetricsQuery.Downsampler.Interval = step
			reqs[i].MetricsQuery.Downsampler.Unit = "s"
		}
		hashes = append(hashes, reqs[i].MetricsQuery.QueryHash)
		list = append(list, &reqs[i].MetricsQuery)
		tr = &reqs[i].TimeRange
	}
	res := segment.ExecuteMultipleMetricsQuery(hashes, list, arith, tr, qid, false)
	out := map[string]interface{}{"type": string(pqlType)}
	if len(res.ErrList) > 0 {
		es := []string{}
		for _, e := range res.ErrList {
			es = append(es, e.Error())
		}
		out["errs"] = es
	}
	if res.IsScalar {
		out["scalar"] = []interface{}{fmt.Sprintf("%016x", math.Float64bits(res.ScalarValue)), jsonFloat(res.ScalarValue)}
	}
	series := map[string]interface{}{}
	for gid, m := range res.Results {
		tss := make([]uint32, 0, len(m))
		for t := range m {
			tss = append(tss, t)
		}
		sort.Slice(tss, func(i, j int) bool { return tss[i] < tss[j] })
		pts := make([]interface{}, 0, len(tss))
		for _, t := range tss {
			pts = append(pts, []interface{}{t, fmt.Sprintf("%016x", math.Float64bits(m[t])), jsonFloat(m[t])})
		}
		series[gid] = pts
	}
	out["series"] = series
	return out, nil
}

func jsonFloat(f float64) interface{} {
	if math.IsNaN(f) || math.IsInf(f, 0) {
		return fmt.Sprint(f)
	}
	return f
}
