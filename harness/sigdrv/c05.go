package main

// C05/C06 driver ops (only ADDS ops; shares the one sigdrv binary).
//
//   init{..., newpipe:true}      production default UseNewQueryPipeline=true (the testing config leaves it false)
//   c05_sortcols{index, columns} sortindex.SetSortColumns: rotated segments of the index get sort-index files
//   c05_wait_sortindex           writer.WaitForSortedIndexToComplete
//   c05_layout{}                 block summaries (HighTs, LowTs, RecCount) of every segment on disk, read with the
//                                engine's own .bsu reader: the layout the searcher's block scheduler works on
import (
	"os"
	"path/filepath"
	"sort"
	"strings"

	"github.com/siglens/siglens/pkg/config"
	"github.com/siglens/siglens/pkg/segment/reader/microreader"
	"github.com/siglens/siglens/pkg/segment/sortindex"
	"github.com/siglens/siglens/pkg/segment/writer"
)

func init() {
	extraInits = append(extraInits, func(c Cmd) {
		if c.boolean("newpipe") {
			config.SetNewQueryPipelineEnabled(true)
		}
	})
	reg("c05_sortcols", func(c Cmd) (interface{}, error) {
		cols := []string{}
		if l, ok := c["columns"].([]interface{}); ok {
			for _, x := range l {
				if s, ok := x.(string); ok {
					cols = append(cols, s)
				}
			}
		}
		return nil, sortindex.SetSortColumns(c.str("index"), cols)
	})
	reg("c05_wait_sortindex", func(c Cmd) (interface{}, error) {
		writer.WaitForSortedIndexToComplete()
		return nil, nil
	})
	reg("c05_layout", cmdC05Layout)
}

func cmdC05Layout(c Cmd) (interface{}, error) {
	type blk struct {
		Hi  uint64 `json:"hi"`
		Lo  uint64 `json:"lo"`
		Cnt uint16 `json:"n"`
	}
	type seg struct {
		Dir    string `json:"dir"`
		Blocks []blk  `json:"blocks"`
	}
	var segs []seg
	_ = filepath.Walk(dataDir, func(p string, info os.FileInfo, err error) error {
		if err != nil || info.IsDir() || !strings.HasSuffix(p, ".bsu") {
			return nil
		}
		sums, _, rerr := microreader.ReadBlockSummaries(p, true)
		if rerr != nil {
			return nil
		}
		rel, _ := filepath.Rel(dataDir, filepath.Dir(p))
		s := seg{Dir: rel}
		for _, b := range sums {
			s.Blocks = append(s.Blocks, blk{b.HighTs, b.LowTs, b.RecCount})
		}
		segs = append(segs, s)
		return nil
	})
	sort.Slice(segs, func(i, j int) bool { return segs[i].Dir < segs[j].Dir })
	return segs, nil
}
