package main

// mvis_stress (C11, metrics store): free-running concurrent OpenTSDB puts for K series spread over the metrics
// shards, millisecond "timer" block flushes (one iteration of timeBasedMetricsFlush), size-driven block and
// segment rotations (one iteration of timeBasedRotate for one shard) and concurrent queriers.
//
// Datapoint i of series s:  timestamp T0+i,  value s*1e6 + i + 0.5  - every returned sample says which
// datapoint it is.  One goroutine owns a series, so the datapoints of a series are put in index order and
//    done[s]    = datapoints whose put call has returned
//    issued[s]  = datapoints handed to a put call that has started
// For an answer of a query that began at t0 and returned at t1:
//    upper bound  indices < issued[s](t1), each (series, index) once, values bit-exact
//    lower bound  indices < done[s](t0): the in-memory block IS searched, a datapoint is query-visible as soon
//                 as its put has returned - EXCEPT the datapoints of a segment that was size-rotated and is not
//                 yet loaded by the query side's 5 s metadata refresh (refreshMetricsMetadataLoop): from
//                 rotateSegment until that refresh the segment is in neither list (documented engine
//                 behaviour, spec/MetricsVisibility.tla "limbo").  For every rotation the harness knows a
//                 superset of the indices that may have moved ([done before the previous rotation call,
//                 issued after this rotation call)); a rotation is "confirmed" when the segment's directory
//                 appears in segmetadata.GetMetricSegmentsOverTheTimeRange.  Exempt for a query = the ranges of
//                 the rotations of the series' shard that began before t1 and were not confirmed before t0.
// mvis_verify: the contents check alone (used after restart).

import (
	"fmt"
	"math"
	"math/rand"
	"runtime"
	"sort"
	"strconv"
	"strings"
	"sync"
	"sync/atomic"
	"time"

	dtu "github.com/siglens/siglens/pkg/common/dtypeutils"
	otsdbwriter "github.com/siglens/siglens/pkg/integrations/otsdb/writer"
	"github.com/siglens/siglens/pkg/integrations/prometheus/promql"
	rutils "github.com/siglens/siglens/pkg/readerUtils"
	"github.com/siglens/siglens/pkg/segment"
	segmetadata "github.com/siglens/siglens/pkg/segment/metadata"
	"github.com/siglens/siglens/pkg/segment/structs"
	"github.com/siglens/siglens/pkg/segment/writer/metrics"
	sutil "github.com/siglens/siglens/pkg/utils"
)

func init() {
	reg("mvis_stress", cmdMvisStress)
	reg("mvis_verify", cmdMvisVerify)
}

const mvisT0 = uint32(1_700_000_000)

type mvisSeries struct {
	id     int
	metric string
	shard  string
	issued atomic.Int64
	done   atomic.Int64
}

func mvisValue(s int, i int64) float64 { return float64(s)*1e6 + float64(i) + 0.5 }

func mvisMetricOf(s, nMetrics int) string { return fmt.Sprintf("mv%d", s%nMetrics) }

// one rotation of one shard
type mvisRot struct {
	dir       string        // MSegmentDir of the segment that was rotated ("" = block rotation only / nothing happened)
	lo        map[int]int64 // per series of the shard: lower bound of the first index that may be in this segment
	hi        map[int]int64 // per series: upper bound (exclusive) of the indices that may be in it; nil while the call runs
	ended     atomic.Bool
	isSeg     atomic.Bool // a segment was rotated (known when the call returned)
	confirmed atomic.Bool // the query side has loaded the segment
}

type mvisFail struct {
	Kind  string `json:"kind"`
	Query string `json:"query"`
	What  string `json:"what"`
}

// runs one PromQL text like the range-query handler does (step 1 s); returns groupid -> ts -> value, errors
func mvisQuery(text string, end uint32) (map[string]map[uint32]float64, []string) {
	reqs, _, arith, err := promql.ConvertPromQLToMetricsQuery(text, mvisT0-1, end, 0)
	if err != nil {
		return nil, []string{"parse: " + err.Error()}
	}
	list := make([]*structs.MetricsQuery, 0)
	hashes := make([]uint64, 0)
	var tr *dtu.MetricsTimeRange
	for i := range reqs {
		reqs[i].MetricsQuery.Downsampler.Interval = 1
		reqs[i].MetricsQuery.Downsampler.Unit = "s"
		hashes = append(hashes, reqs[i].MetricsQuery.QueryHash)
		list = append(list, &reqs[i].MetricsQuery)
		tr = &reqs[i].TimeRange
	}
	if len(list) == 0 {
		return map[string]map[uint32]float64{}, nil
	}
	res := segment.ExecuteMultipleMetricsQuery(hashes, list, arith, tr, rutils.GetNextQid(), false)
	var errs []string
	for _, e := range res.ErrList {
		errs = append(errs, e.Error())
	}
	return res.Results, errs
}

// "mv1{s:s5," -> 5
func mvisSeriesOfGroup(gid string) (int, bool) {
	i := strings.Index(gid, "s:s")
	if i < 0 {
		return 0, false
	}
	j := i + 3
	k := j
	for k < len(gid) && gid[k] >= '0' && gid[k] <= '9' {
		k++
	}
	n, err := strconv.Atoi(gid[j:k])
	return n, err == nil && k > j
}

// checks one answer.  lo(s) / hi(s): required / allowed index bounds; exempt(s, i): index may legitimately be missing.
func mvisCheck(form, metric string, members []int, res map[string]map[uint32]float64, lo, hi func(int) int64, exempt func(int, int64) bool,
	fail func(kind, what string)) {
	isMember := map[int]bool{}
	for _, s := range members {
		isMember[s] = true
	}
	switch form {
	case "raw", "sumby":
		seen := map[int]map[int64]bool{}
		for gid, pts := range res {
			s, ok := mvisSeriesOfGroup(gid)
			if !ok || !isMember[s] {
				if len(pts) > 0 {
					fail("invent", fmt.Sprintf("result group %q is no series of %s", gid, metric))
				}
				continue
			}
			if seen[s] == nil {
				seen[s] = map[int64]bool{}
			}
			for ts, v := range pts {
				i := int64(ts) - int64(mvisT0)
				if i < 0 || i >= hi(s) {
					fail("invent", fmt.Sprintf("series s%d: sample at index %d (ts %d, value %v) was never put (%d issued)", s, i, ts, v, hi(s)))
					return
				}
				want := mvisValue(s, i)
				if math.Float64bits(v) != math.Float64bits(want) {
					if form == "sumby" && v == 2*want {
						fail("dup", fmt.Sprintf("series s%d index %d: sum by (s) = %v = 2 x %v: the sample was counted twice", s, i, v, want))
					} else if form == "sumby" && want != 0 && v/want == math.Floor(v/want) && v/want >= 2 {
						fail("dup", fmt.Sprintf("series s%d index %d: sum by (s) = %v = %v x %v", s, i, v, v/want, want))
					} else {
						fail("value", fmt.Sprintf("series s%d index %d: value %v (bits %016x), put %v", s, i, v, math.Float64bits(v), want))
					}
					return
				}
				if seen[s][i] {
					fail("dup", fmt.Sprintf("series s%d index %d returned twice", s, i))
					return
				}
				seen[s][i] = true
			}
		}
		for _, s := range members {
			var missing []int64
			for i := int64(0); i < lo(s); i++ {
				if !seen[s][i] && !exempt(s, i) {
					missing = append(missing, i)
				}
			}
			if len(missing) > 0 {
				fail("loss", fmt.Sprintf("series s%d: %d datapoints whose put had returned before the query began are missing: indices %d..%d (%d of this series returned, %d put before the query, %d issued when it returned)",
					s, len(missing), missing[0], missing[len(missing)-1], len(seen[s]), lo(s), hi(s)))
				return
			}
		}
	case "sum", "count":
		if len(res) > 1 {
			fail("shape", fmt.Sprintf("%s(%s) returned %d groups", form, metric, len(res)))
			return
		}
		for _, pts := range res {
			maxHi := int64(0)
			for _, s := range members {
				if hi(s) > maxHi {
					maxHi = hi(s)
				}
			}
			for ts, v := range pts {
				i := int64(ts) - int64(mvisT0)
				if i < 0 || i >= maxHi {
					fail("invent", fmt.Sprintf("%s(%s) has a point at index %d (ts %d) beyond everything put", form, metric, i, ts))
					return
				}
				var must, may []int
				for _, s := range members {
					if i < lo(s) && !exempt(s, i) {
						must = append(must, s)
					} else if i < hi(s) {
						may = append(may, s)
					}
				}
				okv := false
				for mask := 0; mask < (1 << len(may)); mask++ {
					n := len(must)
					sum := 0.0
					for _, s := range must {
						sum += mvisValue(s, i)
					}
					for b, s := range may {
						if mask&(1<<b) != 0 {
							n++
							sum += mvisValue(s, i)
						}
					}
					if n == 0 {
						continue
					}
					if (form == "count" && v == float64(n)) || (form == "sum" && math.Abs(v-sum) < 1e-6) {
						okv = true
						break
					}
				}
				if !okv {
					// which way is it wrong?  a proper subset that lacks a required series: loss; more than every possible
					// series once: dup; anything else: value
					all := append(append([]int{}, must...), may...)
					kind := "value"
					full, cnt := 0.0, 0.0
					for _, s := range all {
						full += mvisValue(s, i)
						cnt++
					}
					if (form == "count" && v > cnt) || (form == "sum" && v > full+1e-6) {
						kind = "dup"
					} else {
						for mask := 1; mask < (1 << len(all)); mask++ {
							n, sum := 0.0, 0.0
							for b, s := range all {
								if mask&(1<<b) != 0 {
									n++
									sum += mvisValue(s, i)
								}
							}
							if (form == "count" && v == n) || (form == "sum" && math.Abs(v-sum) < 1e-6) {
								kind = "loss"
								break
							}
						}
					}
					fail(kind, fmt.Sprintf("%s(%s) at index %d = %v: no set of series between the required %v and the possible %v gives it", form, metric, i, v, must, append(append([]int{}, must...), may...)))
					return
				}
			}
			// a timestamp every required series has must be present
			for i := int64(0); ; i++ {
				any := false
				req := false
				for _, s := range members {
					if i < lo(s) {
						any = true
						if !exempt(s, i) {
							req = true
						}
					}
				}
				if !any {
					break
				}
				if req {
					if _, ok := pts[mvisT0+uint32(i)]; !ok {
						fail("loss", fmt.Sprintf("%s(%s) has no point at index %d although a datapoint of it was put before the query began", form, metric, i))
						return
					}
				}
			}
		}
		if len(res) == 0 {
			for _, s := range members {
				for i := int64(0); i < lo(s); i++ {
					if !exempt(s, i) {
						fail("loss", fmt.Sprintf("%s(%s) returned nothing although series s%d had %d datapoints put before the query began", form, metric, s, lo(s)))
						return
					}
				}
			}
		}
	}
}

func mvisText(form, metric string) string {
	switch form {
	case "raw":
		return metric
	case "sumby":
		return "sum by (s) (" + metric + ")"
	case "sum":
		return "sum(" + metric + ")"
	}
	return "count(" + metric + ")"
}

// the contents of the store must be exactly: every series s, indices 0..n[s]-1, once, bit-exact
func mvisContents(nMetrics int, counts []int64, fail func(kind, q, what string)) {
	end := mvisT0
	for _, n := range counts {
		if mvisT0+uint32(n)+2 > end {
			end = mvisT0 + uint32(n) + 2
		}
	}
	for m := 0; m < nMetrics; m++ {
		metric := fmt.Sprintf("mv%d", m)
		var members []int
		for s := range counts {
			if s%nMetrics == m {
				members = append(members, s)
			}
		}
		if len(members) == 0 {
			continue
		}
		for _, form := range []string{"raw", "sumby"} {
			text := mvisText(form, metric)
			res, errs := mvisQuery(text, end)
			for try := 0; len(errs) > 0 && try < 3; try++ { // nothing else is running: an error that persists is a finding
				time.Sleep(200 * time.Millisecond)
				res, errs = mvisQuery(text, end)
			}
			if len(errs) > 0 {
				fail("final-query-error", text, strings.Join(errs, "; "))
				continue
			}
			first := true
			mvisCheck(form, metric, members, res, func(s int) int64 { return counts[s] }, func(s int) int64 { return counts[s] },
				func(int, int64) bool { return false }, func(kind, what string) {
					if first {
						fail("final-"+kind, text, what)
						first = false
					}
				})
		}
	}
}

func cmdMvisVerify(c Cmd) (interface{}, error) {
	nMetrics := int(c.i64("metrics", 4))
	raw, _ := c["counts"].([]interface{})
	counts := make([]int64, len(raw))
	for i, v := range raw {
		counts[i] = toI64(v)
	}
	fails := []mvisFail{}
	mvisContents(nMetrics, counts, func(kind, q, what string) {
		if len(fails) < 30 {
			fails = append(fails, mvisFail{kind, q, what})
		}
	})
	return map[string]interface{}{"fails": fails}, nil
}

func cmdMvisStress(c Cmd) (interface{}, error) {
	K := int(c.i64("series", 8))
	nMetrics := int(c.i64("metrics", 4))
	durMs := c.i64("ms", 2500)
	seed := c.i64("seed", 1)
	nQueriers := int(c.i64("queriers", 3))
	nPutters := int(c.i64("putters", 3))
	segRotate := !c.boolean("no_seg_rotate")
	segEvery := int(c.i64("seg_every", 6))  // one rotation in seg_every also rotates the segment
	prerotate := c.boolean("prerotate")     // start with one rotated segment per shard that the query side has loaded
	flushUs := int(c.i64("flush_us", 1000)) // the "timer" flush fires every flush_us .. 4*flush_us microseconds
	forceFlushAtEnd := c.boolean("force_flush")

	ser := make([]*mvisSeries, K)
	for s := range ser {
		ser[s] = &mvisSeries{id: s, metric: mvisMetricOf(s, nMetrics)}
	}
	var fmu sync.Mutex
	fails := []mvisFail{}
	failIdx := map[string]int{}
	failCount := map[string]int{}
	addFail := func(kind, q, what string) { // the first occurrence of every (kind, query) is kept, the others are counted
		fmu.Lock()
		k := kind + "\x00" + q
		failCount[k]++
		if _, ok := failIdx[k]; !ok && len(fails) < 200 {
			failIdx[k] = len(fails)
			fails = append(fails, mvisFail{kind, q, what})
		}
		fmu.Unlock()
	}
	finishFails := func() []mvisFail {
		fmu.Lock()
		defer fmu.Unlock()
		for k, i := range failIdx {
			if failCount[k] > 1 {
				fails[i].What += fmt.Sprintf("  (%d occurrences in this run)", failCount[k])
			}
		}
		return fails
	}
	put := func(rows [][2]int64) { // rows: (series, index), consecutive per series
		var sb strings.Builder
		sb.WriteByte('[')
		for k, r := range rows {
			if k > 0 {
				sb.WriteByte(',')
			}
			s := int(r[0])
			fmt.Fprintf(&sb, `{"metric":%q,"tags":{"s":"s%d"},"timestamp":%d,"value":%s}`, ser[s].metric, s, int64(mvisT0)+r[1],
				strconv.FormatFloat(mvisValue(s, r[1]), 'f', -1, 64))
		}
		sb.WriteByte(']')
		okN, failed, err := otsdbwriter.HandlePutMetrics([]byte(sb.String()), 0)
		if err != nil || failed != 0 || int(okN) != len(rows) {
			addFail("ingest-error", "", fmt.Sprintf("put of %d datapoints: ok=%d failed=%d err=%v", len(rows), okN, failed, err))
		}
	}
	// warm-up: datapoint 0 of every series, sequentially (every series is in its shard's tags tree before anything rotates)
	for _, s := range ser {
		s.issued.Store(1)
		put([][2]int64{{int64(s.id), 0}})
		s.done.Store(1)
	}
	shards := map[string][]int{}
	for _, s := range ser {
		info, err := metrics.VerifC11MShardOf(s.metric, 0)
		if err != nil {
			return nil, err
		}
		s.shard = info.Mid
		shards[info.Mid] = append(shards[info.Mid], s.id)
	}
	shardIds := make([]string, 0, len(shards))
	for k := range shards {
		shardIds = append(shardIds, k)
	}
	sort.Strings(shardIds)

	// rotation records per shard
	var rmu sync.Mutex
	rots := map[string][]*mvisRot{}
	lastLo := map[string]map[int]int64{} // per shard: done[s] before the previous SEGMENT rotation call (0 at the start)
	for _, sh := range shardIds {
		lastLo[sh] = map[int]int64{}
		for _, s := range shards[sh] {
			lastLo[sh][s] = 0
		}
	}

	if prerotate {
		for _, s := range ser {
			var rows [][2]int64
			for i := int64(1); i <= 12; i++ {
				rows = append(rows, [2]int64{int64(s.id), i})
			}
			s.issued.Store(13)
			put(rows)
			s.done.Store(13)
		}
		tr := &dtu.MetricsTimeRange{StartEpochSec: 0, EndEpochSec: math.MaxUint32}
		var dirs []string
		for _, sh := range shardIds {
			before, after, rotated, err := metrics.VerifC11MRotateOnce(sh, 0, 0, 0)
			if err != nil {
				return nil, err
			}
			if rotated && after.Suffix != before.Suffix {
				dirs = append(dirs, before.SegDir)
				for _, s := range shards[sh] {
					lastLo[sh][s] = 13
				}
			}
		}
		tw := time.Now()
		for {
			loaded := segmetadata.GetMetricSegmentsOverTheTimeRange(tr, sutil.Some(int64(0)))
			n := 0
			for _, d := range dirs {
				if _, ok := loaded[d]; ok {
					n++
				}
			}
			if n == len(dirs) {
				break
			}
			if time.Since(tw) > 30*time.Second {
				return map[string]interface{}{"refresh_timeout": len(dirs) - n, "fails": fails, "phase": "prerotate"}, nil
			}
			time.Sleep(100 * time.Millisecond)
		}
	}

	stop := make(chan struct{})
	var wg sync.WaitGroup
	var lastProgress atomic.Int64
	lastProgress.Store(time.Now().UnixNano())
	var nPuts, nFlushes, nBlockRot, nSegRot, nQueries, nQueryErrs, nExemptQ atomic.Int64

	// putters: putter p owns the series s with s % nPutters == p
	for p := 0; p < nPutters; p++ {
		wg.Add(1)
		go func(p int, r *rand.Rand) {
			defer wg.Done()
			var mine []*mvisSeries
			for _, s := range ser {
				if s.id%nPutters == p {
					mine = append(mine, s)
				}
			}
			if len(mine) == 0 {
				return
			}
			for {
				select {
				case <-stop:
					return
				default:
				}
				// a batch: 1..6 datapoints, of one or two of this putter's series
				var rows [][2]int64
				touched := map[int]int64{}
				for n := 1 + r.Intn(6); n > 0; n-- {
					s := mine[r.Intn(len(mine))]
					if len(touched) >= 2 {
						if _, ok := touched[s.id]; !ok {
							continue
						}
					}
					i := s.issued.Load()
					s.issued.Store(i + 1)
					touched[s.id] = i + 1
					rows = append(rows, [2]int64{int64(s.id), i})
				}
				put(rows)
				for sid, n := range touched {
					ser[sid].done.Store(n)
				}
				nPuts.Add(int64(len(rows)))
				lastProgress.Store(time.Now().UnixNano())
				time.Sleep(time.Duration(r.Intn(1200)) * time.Microsecond)
			}
		}(p, rand.New(rand.NewSource(seed*31+int64(p))))
	}
	// "timer" block flush: one iteration of timeBasedMetricsFlush every 1..4 ms
	wg.Add(1)
	go func() {
		defer wg.Done()
		r := rand.New(rand.NewSource(seed * 17))
		for {
			select {
			case <-stop:
				return
			default:
			}
			n, err := metrics.VerifBlockFlushOnce()
			if err != nil {
				addFail("flush-error", "", err.Error())
			}
			nFlushes.Add(int64(n))
			lastProgress.Store(time.Now().UnixNano())
			time.Sleep(time.Duration(flushUs+r.Intn(3*flushUs)) * time.Microsecond)
		}
	}()
	// size-driven rotation of one shard: block only, or block + segment
	wg.Add(1)
	go func() {
		defer wg.Done()
		r := rand.New(rand.NewSource(seed * 19))
		for {
			select {
			case <-stop:
				return
			case <-time.After(time.Duration(15+r.Intn(60)) * time.Millisecond):
			}
			sh := shardIds[r.Intn(len(shardIds))]
			seg := segRotate && r.Intn(segEvery) == 0
			rec := &mvisRot{lo: map[int]int64{}}
			if seg {
				rmu.Lock()
				for _, s := range shards[sh] {
					rec.lo[s] = lastLo[sh][s]
				}
				rots[sh] = append(rots[sh], rec)
				rmu.Unlock()
			}
			doneBefore := map[int]int64{}
			for _, s := range shards[sh] {
				doneBefore[s] = ser[s].done.Load()
			}
			segBytes := uint64(math.MaxUint64)
			if seg {
				segBytes = 0
			}
			before, after, rotated, err := metrics.VerifC11MRotateOnce(sh, 0, 0, segBytes)
			if err != nil {
				addFail("rotate-error", "", err.Error())
			}
			if seg {
				hi := map[int]int64{}
				for _, s := range shards[sh] {
					hi[s] = ser[s].issued.Load()
				}
				rmu.Lock()
				rec.hi = hi
				if rotated && after.Suffix != before.Suffix {
					rec.dir = before.SegDir
					rec.isSeg.Store(true)
					for _, s := range shards[sh] {
						lastLo[sh][s] = doneBefore[s]
					}
					nSegRot.Add(1)
				} else {
					rec.confirmed.Store(true) // nothing moved
				}
				rmu.Unlock()
				rec.ended.Store(true)
			}
			if rotated && after.Suffix == before.Suffix {
				nBlockRot.Add(1)
			}
			lastProgress.Store(time.Now().UnixNano())
		}
	}()
	// confirmer: which rotated segments has the query side loaded (5 s refresh loop of the engine)
	confirm := func() int {
		tr := &dtu.MetricsTimeRange{StartEpochSec: 0, EndEpochSec: math.MaxUint32}
		loaded := segmetadata.GetMetricSegmentsOverTheTimeRange(tr, sutil.Some(int64(0)))
		pending := 0
		rmu.Lock()
		for _, list := range rots {
			for _, rec := range list {
				if rec.confirmed.Load() || !rec.ended.Load() {
					if !rec.ended.Load() {
						pending++
					}
					continue
				}
				if _, ok := loaded[rec.dir]; ok {
					rec.confirmed.Store(true)
				} else {
					pending++
				}
			}
		}
		rmu.Unlock()
		return pending
	}
	wg.Add(1)
	go func() {
		defer wg.Done()
		for {
			select {
			case <-stop:
				return
			case <-time.After(100 * time.Millisecond):
				confirm()
			}
		}
	}()
	// queriers
	forms := []string{"raw", "sumby", "sum", "count"}
	for qi := 0; qi < nQueriers; qi++ {
		wg.Add(1)
		go func(r *rand.Rand) {
			defer wg.Done()
			for {
				select {
				case <-stop:
					return
				default:
				}
				m := r.Intn(nMetrics)
				metric := fmt.Sprintf("mv%d", m)
				form := forms[r.Intn(len(forms))]
				var members []int
				for _, s := range ser {
					if s.id%nMetrics == m {
						members = append(members, s.id)
					}
				}
				if len(members) == 0 {
					continue
				}
				sh := ser[members[0]].shard
				// t0: the rotations of the shard that are not confirmed yet, then the lower bounds
				rmu.Lock()
				unconf := map[*mvisRot]bool{}
				nAt0 := len(rots[sh])
				for _, rec := range rots[sh] {
					if !rec.confirmed.Load() {
						unconf[rec] = true
					}
				}
				rmu.Unlock()
				lo := map[int]int64{}
				for _, s := range members {
					lo[s] = ser[s].done.Load()
				}
				text := mvisText(form, metric)
				res, errs := mvisQuery(text, mvisT0+1_000_000)
				hi := map[int]int64{}
				for _, s := range members {
					hi[s] = ser[s].issued.Load()
				}
				// t1: rotations that began during the query count as well
				type rng struct{ lo, hi map[int]int64 }
				var ex []rng
				rmu.Lock()
				for k, rec := range rots[sh] {
					if k >= nAt0 || unconf[rec] {
						h := rec.hi
						if h == nil {
							h = hi
						}
						if rec.ended.Load() && !rec.isSeg.Load() {
							continue
						}
						ex = append(ex, rng{rec.lo, h})
					}
				}
				rmu.Unlock()
				nQueries.Add(1)
				lastProgress.Store(time.Now().UnixNano())
				if len(errs) > 0 {
					nQueryErrs.Add(1)
					continue
				}
				if len(ex) > 0 {
					nExemptQ.Add(1)
				}
				exempt := func(s int, i int64) bool {
					for _, e := range ex {
						if i >= e.lo[s] && i < e.hi[s] {
							return true
						}
					}
					return false
				}
				reported := false
				mvisCheck(form, metric, members, res, func(s int) int64 { return lo[s] }, func(s int) int64 { return hi[s] }, exempt,
					func(kind, what string) {
						if reported {
							return
						}
						reported = true
						// diagnostic: the same query again right away
						again := "immediately repeated query: ok"
						res2, errs2 := mvisQuery(text, mvisT0+1_000_000)
						if len(errs2) > 0 {
							again = "immediately repeated query: error " + strings.Join(errs2, "; ")
						} else {
							hi2 := map[int]int64{}
							for _, s := range members {
								hi2[s] = ser[s].issued.Load()
							}
							mvisCheck(form, metric, members, res2, func(s int) int64 { return lo[s] }, func(s int) int64 { return hi2[s] }, exempt,
								func(k2, w2 string) { again = "immediately repeated query: " + k2 + " " + w2 })
						}
						addFail(kind, text, fmt.Sprintf("%s [shard %s, %d unconfirmed/overlapping segment rotations exempt; flushes=%d blockrot=%d segrot=%d] [%s]",
							what, sh, len(ex), nFlushes.Load(), nBlockRot.Load(), nSegRot.Load(), again))
					})
			}
		}(rand.New(rand.NewSource(seed*23 + int64(qi))))
	}
	// watchdog
	deadlock := ""
	t0 := time.Now()
	for time.Since(t0) < time.Duration(durMs)*time.Millisecond {
		time.Sleep(50 * time.Millisecond)
		if time.Since(time.Unix(0, lastProgress.Load())) > 25*time.Second {
			deadlock = goroutineDump()
			break
		}
	}
	close(stop)
	fin := make(chan struct{})
	go func() { wg.Wait(); close(fin) }()
	select {
	case <-fin:
	case <-time.After(40 * time.Second):
		if deadlock == "" {
			deadlock = goroutineDump()
		}
	}
	counts := make([]int64, K)
	for s := range ser {
		counts[s] = ser[s].issued.Load()
	}
	out := map[string]interface{}{"queries": nQueries.Load(), "query_errors": nQueryErrs.Load(), "queries_with_exemption": nExemptQ.Load(),
		"puts": nPuts.Load(), "flushes": nFlushes.Load(), "block_rotations": nBlockRot.Load(), "seg_rotations": nSegRot.Load(),
		"shards": len(shardIds), "gomaxprocs": runtime.GOMAXPROCS(0), "counts": counts, "metrics": nMetrics}
	if deadlock != "" {
		if len(deadlock) > 8000 {
			deadlock = deadlock[:8000]
		}
		out["deadlock"] = deadlock
		out["fails"] = finishFails()
		return out, nil
	}
	// quiescence: wait until the query side has loaded every rotated segment (refresh loop, 5 s period)
	tw := time.Now()
	pending := confirm()
	for pending > 0 && time.Since(tw) < 30*time.Second {
		time.Sleep(200 * time.Millisecond)
		pending = confirm()
	}
	out["refresh_wait_ms"] = time.Since(tw).Milliseconds()
	if pending > 0 {
		// timing dependent: the caller treats this as an infrastructure problem, not as a verdict
		out["refresh_timeout"] = pending
		out["fails"] = finishFails()
		return out, nil
	}
	mvisContents(nMetrics, counts, addFail)
	if forceFlushAtEnd {
		metrics.ForceFlushMetricsBlock() // legal once per process life; the caller restarts and runs mvis_verify
	}
	out["fails"] = finishFails()
	return out, nil
}
