package main

// Tenancy ops (C13): alias add/remove, index delete, column / index listing.  Every op calls the
// real HTTP handler with a synthetic fasthttp.RequestCtx and the organisation id the route would
// have passed; the observation is the handler's status code and response body.

import (
	"encoding/json"
	"os"
	"strconv"

	"github.com/valyala/fasthttp"

	"github.com/siglens/siglens/pkg/ast/pipesearch"
	eswriter "github.com/siglens/siglens/pkg/es/writer"
	vtable "github.com/siglens/siglens/pkg/virtualtable"
)

func init() {
	reg("ten_alias", cmdTenAlias)
	reg("ten_delete_index", cmdTenDeleteIndex)
	reg("ten_columns", cmdTenColumns)
	reg("ten_indices", cmdTenIndices)
	reg("ten_expand", cmdTenExpand)
	reg("ten_mkorgdirs", cmdTenMkOrgDirs)
}

// ten_mkorgdirs{orgs:[1,2]}: creates the per-organisation alias / mapping directories below the vtable base
// directory (environment set-up of a multi-organisation deployment; the open-source tree only creates the
// directories of organisation 0, so alias files of other organisations could not be written otherwise).
func cmdTenMkOrgDirs(c Cmd) (interface{}, error) {
	orgs, _ := c["orgs"].([]interface{})
	for _, o := range orgs {
		var id string
		switch t := o.(type) {
		case json.Number:
			id = t.String()
		case float64:
			id = strconv.FormatInt(int64(t), 10)
		default:
			continue
		}
		if id == "0" {
			continue
		}
		if err := os.MkdirAll(vtable.VTableAliasesDir+id, 0o764); err != nil {
			return nil, err
		}
		if err := os.MkdirAll(vtable.VTableMappingsDir+id, 0o764); err != nil {
			return nil, err
		}
	}
	return nil, nil
}

func tenResp(ctx *fasthttp.RequestCtx) map[string]interface{} {
	r := map[string]interface{}{"status": ctx.Response.StatusCode()}
	b := ctx.Response.Body()
	var v interface{}
	if len(b) > 0 && json.Unmarshal(b, &v) == nil {
		r["body"] = v
	} else {
		r["raw"] = string(b)
	}
	return r
}

// ten_alias{org, action: "add"|"remove", index, alias}: POST /_aliases with one action
func cmdTenAlias(c Cmd) (interface{}, error) {
	act := c.str("action")
	if act == "" {
		act = "add"
	}
	body, _ := json.Marshal(map[string]interface{}{"actions": []interface{}{
		map[string]interface{}{act: map[string]interface{}{"index": c.str("index"), "alias": c.str("alias")}}}})
	ctx := &fasthttp.RequestCtx{}
	ctx.Request.Header.SetMethod("POST")
	ctx.Request.SetRequestURI("/elastic/_aliases")
	ctx.Request.SetBody(body)
	eswriter.ProcessPostAliasesRequest(ctx, c.i64("org", 0))
	return tenResp(ctx), nil
}

// ten_delete_index{org, index}: DELETE /elastic/{indexName}
func cmdTenDeleteIndex(c Cmd) (interface{}, error) {
	ctx := &fasthttp.RequestCtx{}
	ctx.Request.Header.SetMethod("DELETE")
	ctx.Request.SetRequestURI("/elastic/" + c.str("index"))
	ctx.SetUserValue("indexName", c.str("index"))
	eswriter.ProcessDeleteIndex(ctx, c.i64("org", 0))
	return tenResp(ctx), nil
}

// ten_columns{org, index, start, end}: POST /api/listColumnNames
func cmdTenColumns(c Cmd) (interface{}, error) {
	m := map[string]interface{}{"indexName": c.str("index"), "startEpoch": c.u64("start", 0),
		"endEpoch": c.u64("end", 4102444800000)}
	body, _ := json.Marshal(m)
	ctx := &fasthttp.RequestCtx{}
	ctx.Request.Header.SetMethod("POST")
	ctx.Request.SetRequestURI("/api/listColumnNames")
	ctx.Request.SetBody(body)
	pipesearch.ListColumnNamesHandler(ctx, c.i64("org", 0))
	return tenResp(ctx), nil
}

// ten_indices{org}: GET /api/listIndices
func cmdTenIndices(c Cmd) (interface{}, error) {
	ctx := &fasthttp.RequestCtx{}
	ctx.Request.SetRequestURI("/api/listIndices")
	pipesearch.ListIndicesHandler(ctx, c.i64("org", 0))
	return tenResp(ctx), nil
}

// ten_expand{org, index}: what the query path expands an index expression to (observation only)
func cmdTenExpand(c Cmd) (interface{}, error) {
	return vtable.ExpandAndReturnIndexNames(c.str("index"), c.i64("org", 0), false, nil), nil
}
