package main

// Hook plumbing shared by all concurrency checks: pkg/verifhook.At(point, kv...) calls
// land here (binary is built with -tags verif).  Three modes can be combined:
//   logging  - every event gets a global sequence number and is appended to an in-memory log
//   delays   - sleep at a point (optionally only for some qids) to widen race windows
//   gates    - park the calling goroutine at a point until the scheduler releases it
//              (forced-schedule replay of TLC interleavings)

import (
	"fmt"
	"sync"
	"time"

	"github.com/siglens/siglens/pkg/verifhook"
)

type hookEvent struct {
	Seq   int                    `json:"seq"`
	Point string                 `json:"ev"`
	KV    map[string]interface{} `json:"kv"`
	G     uint64                 `json:"g,omitempty"`
}

type delayRule struct {
	Point string
	Key   string // optional kv key to match
	Val   string // fmt.Sprint(value) must equal
	Dur   time.Duration
}

// A gate is re-armable: every arrival parks on its own ticket; the scheduler takes one
// arrival at a time (gateStep) and releases it.
type ticket struct {
	point   string
	kv      map[string]interface{}
	release chan struct{}
}

type gate struct {
	arrivals chan *ticket
	closed   chan struct{} // closed when the gate is disarmed: parked and late goroutines pass
}

var hk struct {
	mu      sync.Mutex
	logging bool
	seq     int
	events  []hookEvent
	delays  []delayRule
	gates   map[string]*gate // key = point + "|" + matchval
	gateKey string           // kv key used to build gate keys (e.g. "qid")
}

func kvMap(kv []any) map[string]interface{} {
	m := map[string]interface{}{}
	for i := 0; i+1 < len(kv); i += 2 {
		k, _ := kv[i].(string)
		switch v := kv[i+1].(type) {
		case uint64, int64, int, uint32, int32, uint16, uint8, bool, string, float64:
			m[k] = v
		case []string:
			m[k] = v
		default:
			m[k] = fmt.Sprint(v)
		}
	}
	return m
}

func hookFn(point string, kv ...any) {
	m := kvMap(kv)
	var g *gate
	var d time.Duration
	hk.mu.Lock()
	if hk.logging && point != "q.pull.check" {
		hk.seq++
		hk.events = append(hk.events, hookEvent{Seq: hk.seq, Point: point, KV: m})
	}
	for _, r := range hk.delays {
		if r.Point == point && (r.Key == "" || fmt.Sprint(m[r.Key]) == r.Val) {
			d = r.Dur
		}
	}
	if hk.gates != nil {
		key := point + "|" + fmt.Sprint(m[hk.gateKey])
		if gg, ok := hk.gates[key]; ok {
			g = gg
		} else if gg, ok := hk.gates[point+"|*"]; ok {
			g = gg
		}
	}
	hk.mu.Unlock()
	if d > 0 {
		time.Sleep(d)
	}
	if g != nil {
		t := &ticket{point: point, kv: m, release: make(chan struct{})}
		select {
		case <-g.closed:
		case g.arrivals <- t:
			select {
			case <-t.release:
			case <-g.closed:
			}
		default: // gate queue full: pass through rather than wedge the engine
		}
	}
}

func init() {
	reg("hook_start", func(c Cmd) (interface{}, error) {
		hk.mu.Lock()
		hk.logging = true
		hk.seq = 0
		hk.events = nil
		hk.mu.Unlock()
		verifhook.Set(hookFn)
		return verifhook.Enabled, nil
	})
	reg("hook_get", func(c Cmd) (interface{}, error) {
		hk.mu.Lock()
		ev := hk.events
		hk.events = nil
		hk.mu.Unlock()
		return ev, nil
	})
	// hook_delay{point, key, val, ms}; ms=0 clears all
	reg("hook_delay", func(c Cmd) (interface{}, error) {
		hk.mu.Lock()
		defer hk.mu.Unlock()
		if c.i64("ms", 0) == 0 {
			hk.delays = nil
			return nil, nil
		}
		hk.delays = append(hk.delays, delayRule{c.str("point"), c.str("key"), c.str("val"), time.Duration(c.i64("ms", 0)) * time.Millisecond})
		return nil, nil
	})
}

// ---- gates (used by in-process schedulers of other command files)

// gateInstall arms gates for the given keys ("point|<value of gateKey>" or "point|*").
func gateInstall(gateKey string, keys []string) {
	hk.mu.Lock()
	hk.gateKey = gateKey
	hk.gates = map[string]*gate{}
	for _, k := range keys {
		hk.gates[k] = &gate{arrivals: make(chan *ticket, 64), closed: make(chan struct{})}
	}
	hk.mu.Unlock()
	verifhook.Set(hookFn)
}

// gateArrive waits until a goroutine is parked at key and returns its ticket (nil on timeout).
func gateArrive(key string, d time.Duration) *ticket {
	hk.mu.Lock()
	g := hk.gates[key]
	hk.mu.Unlock()
	if g == nil {
		return nil
	}
	select {
	case t := <-g.arrivals:
		return t
	case <-time.After(d):
		return nil
	}
}

// gateArriveAny waits for an arrival at any of the keys.
// gateClose removes one gate: whoever is parked there goes on and later arrivals pass straight through.
func gateClose(key string) {
	hk.mu.Lock()
	g := hk.gates[key]
	delete(hk.gates, key)
	hk.mu.Unlock()
	if g != nil {
		close(g.closed)
	}
}

// gateArriveSeg waits for an arrival at key whose "segkey" is want (any if want is empty); other arrivals are let go.
func gateArriveSeg(key, want string, d time.Duration) *ticket {
	deadline := time.Now().Add(d)
	for {
		t := gateArrive(key, time.Until(deadline))
		if t == nil {
			return nil
		}
		if want == "" || fmt.Sprint(t.kv["segkey"]) == want {
			return t
		}
		t.letGo()
	}
}

func gateArriveAny(keys []string, d time.Duration) *ticket {
	hk.mu.Lock()
	var gs []*gate
	for _, k := range keys {
		if g := hk.gates[k]; g != nil {
			gs = append(gs, g)
		}
	}
	hk.mu.Unlock()
	deadline := time.Now().Add(d)
	for time.Now().Before(deadline) {
		for _, g := range gs {
			select {
			case t := <-g.arrivals:
				return t
			default:
			}
		}
		time.Sleep(100 * time.Microsecond)
	}
	return nil
}

func (t *ticket) letGo() {
	if t != nil {
		close(t.release)
	}
}

// gateReleaseAll disarms every gate and frees every parked goroutine.
func gateReleaseAll() {
	hk.mu.Lock()
	gs := hk.gates
	hk.gates = nil
	hk.mu.Unlock()
	for _, g := range gs {
		close(g.closed)
	}
}

// waitEvent polls the event log for an event (point, kv[key]==val) with seq > afterSeq.
func waitEvent(point, key string, val interface{}, afterSeq int, d time.Duration) (int, bool) {
	deadline := time.Now().Add(d)
	for {
		hk.mu.Lock()
		for i := len(hk.events) - 1; i >= 0; i-- {
			e := hk.events[i]
			if e.Seq <= afterSeq {
				break
			}
			if e.Point == point && (key == "" || fmt.Sprint(e.KV[key]) == fmt.Sprint(val)) {
				hk.mu.Unlock()
				return e.Seq, true
			}
		}
		hk.mu.Unlock()
		if time.Now().After(deadline) {
			return 0, false
		}
		time.Sleep(200 * time.Microsecond)
	}
}

func curSeq() int {
	hk.mu.Lock()
	defer hk.mu.Unlock()
	return hk.seq
}
