package main

// kvstore.go (C20, keyed-store part): drives the REAL CRUD entry points of the seven stores
// (dashboards, folders, saved queries, index aliases, lookup files, alerts, contact points)
// with synthetic fasthttp.RequestCtx objects and reads everything back through the real
// list/get entry points.  No store logic lives here: `kv` translates (kind, act, name, val)
// into the request the UI/API client would send, `kv_snap` returns what the store answers.
//
//   kv_init{orgs:[..]}                 after `init`: what cmd/startup does for these stores
//   kv{kind,act,org,name,name2,val,id} act = create|update|rename|delete -> {ok,status,body,id}
//   kv_snap{kind,org}                  -> {objs:[{id,name,val}], ...}
//   kv_shutdown{}                      what ShutdownSiglensServer calls for these stores

import (
	"bytes"
	"encoding/json"
	"fmt"
	"mime/multipart"
	"sort"
	"strings"

	"github.com/valyala/fasthttp"

	"github.com/siglens/siglens/pkg/alerts/alertsHandler"
	"github.com/siglens/siglens/pkg/dashboards"
	eswriter "github.com/siglens/siglens/pkg/es/writer"
	"github.com/siglens/siglens/pkg/lookups"
	usq "github.com/siglens/siglens/pkg/usersavedqueries"
	vtable "github.com/siglens/siglens/pkg/virtualtable"
)

func init() {
	reg("kv_init", cmdKvInit)
	reg("kv", cmdKv)
	reg("kv_snap", cmdKvSnap)
	reg("kv_shutdown", func(c Cmd) (interface{}, error) {
		// the subset of cmd/startup.ShutdownSiglensServer that concerns these stores, same order
		err := vtable.FlushAliasMapToFile()
		alertsHandler.Disconnect()
		if err != nil {
			return nil, err
		}
		return nil, nil
	})
}

var kvIndices = []string{"kvixa", "kvixb"}

func kvOrgs(c Cmd) []int64 {
	out := []int64{}
	if l, ok := c["orgs"].([]interface{}); ok {
		for _, v := range l {
			switch t := v.(type) {
			case json.Number:
				n, _ := t.Int64()
				out = append(out, n)
			case float64:
				out = append(out, int64(t))
			}
		}
	}
	return out
}

func cmdKvInit(c Cmd) (interface{}, error) {
	// cmd/startup/startup.go: ConnectSiglensDB, InitUsq, InitDashboards(0); other tenants' dashboard
	// structures are created by the first getFolderContents (which calls InitDashboards(myid))
	if err := alertsHandler.ConnectSiglensDB(); err != nil {
		return nil, err
	}
	alertsHandler.VerifSchedulerWaitAll()
	if err := usq.InitUsq(); err != nil {
		return nil, err
	}
	for _, org := range kvOrgs(c) {
		if err := dashboards.InitDashboards(org); err != nil {
			return nil, err
		}
		for _, ix := range kvIndices {
			ix := ix
			if err := vtable.AddVirtualTable(&ix, org); err != nil {
				return nil, err
			}
		}
	}
	return nil, nil
}

type kvResp struct {
	OK     bool   `json:"ok"`
	Status int    `json:"status"`
	Body   string `json:"body"`
	Id     string `json:"id,omitempty"`
}

func kvCtx(body interface{}, uv map[string]string, query string) *fasthttp.RequestCtx {
	ctx := &fasthttp.RequestCtx{}
	if body != nil {
		b, _ := json.Marshal(body)
		ctx.Request.SetBody(b)
		ctx.Request.Header.SetMethod("POST")
	}
	if query != "" {
		ctx.Request.SetRequestURI("/x?" + query)
	}
	for k, v := range uv {
		ctx.SetUserValue(k, v)
	}
	return ctx
}

func kvDone(ctx *fasthttp.RequestCtx) kvResp {
	st := ctx.Response.StatusCode()
	return kvResp{OK: st == 200, Status: st, Body: string(ctx.Response.Body())}
}

func kvAlertBody(name, val, contactId string) map[string]interface{} {
	return map[string]interface{}{
		"alert_name": name, "alert_type": 1, "contact_id": contactId, "contact_name": "kv-contact",
		"queryParams": map[string]interface{}{"data_source": "Logs", "queryLanguage": "Splunk QL",
			"queryText": "* | stats count", "startTime": "now-5m", "endTime": "now", "index": "*"},
		"condition": 0, "value": 1000000000, "eval_for": 1, "eval_interval": 1, "message": val,
	}
}

// the contact point every alert of the kv replay refers to (alerts need an existing contact)
func kvAlertContact(org int64) (string, error) {
	helper := fmt.Sprintf("kv-alert-contact-%d", org) // contact names are unique across tenants
	snap, err := kvSnapContacts(org)
	if err != nil {
		return "", err
	}
	for _, o := range snap {
		if o["name"] == helper {
			return o["id"].(string), nil
		}
	}
	ctx := kvCtx(map[string]interface{}{"contact_name": helper, "pager_duty": "x",
		"webhook": []map[string]interface{}{{"webhook": "http://127.0.0.1:1/none"}}}, nil, "")
	alertsHandler.ProcessCreateContactRequest(ctx, org)
	if ctx.Response.StatusCode() != 200 {
		return "", fmt.Errorf("cannot create helper contact: %s", ctx.Response.Body())
	}
	snap, err = kvSnapContacts(org)
	if err != nil {
		return "", err
	}
	for _, o := range snap {
		if o["name"] == helper {
			return o["id"].(string), nil
		}
	}
	return "", fmt.Errorf("helper contact not listed after creation")
}

func kvAliasPair(name string) (string, string, error) {
	p := strings.SplitN(name, "|", 2)
	if len(p) != 2 {
		return "", "", fmt.Errorf("alias key must be index|alias")
	}
	return p[0], p[1], nil
}

func kvMultipart(name, fileName, content string, overwrite bool) *fasthttp.RequestCtx {
	var buf bytes.Buffer
	w := multipart.NewWriter(&buf)
	_ = w.WriteField("name", name)
	if overwrite {
		_ = w.WriteField("overwrite", "true")
	}
	fw, _ := w.CreateFormFile("file", fileName)
	_, _ = fw.Write([]byte(content))
	w.Close()
	ctx := &fasthttp.RequestCtx{}
	ctx.Request.Header.SetMethod("POST")
	ctx.Request.Header.SetContentType(w.FormDataContentType())
	ctx.Request.SetBody(buf.Bytes())
	return ctx
}

// kv{kind, act, org, name, name2, val, id}
func cmdKv(c Cmd) (interface{}, error) {
	kind, act, org := c.str("kind"), c.str("act"), c.i64("org", 0)
	name, name2, val, id := c.str("name"), c.str("name2"), c.str("val"), c.str("id")
	var ctx *fasthttp.RequestCtx
	switch kind + "/" + act {
	// ---- dashboards: key = name (in the root folder), value = description
	case "dashboard/create":
		ctx = kvCtx(map[string]interface{}{"name": name, "description": val}, nil, "")
		dashboards.ProcessCreateDashboardRequest(ctx, org)
		r := kvDone(ctx)
		if r.OK {
			m := map[string]string{}
			_ = json.Unmarshal(ctx.Response.Body(), &m)
			for k := range m {
				r.Id = k
			}
		}
		return r, nil
	case "dashboard/update", "dashboard/rename":
		details := map[string]interface{}{"name": name, "description": val}
		if act == "rename" {
			details["name"] = name2
		}
		ctx = kvCtx(map[string]interface{}{"id": id, "details": details}, nil, "")
		dashboards.ProcessUpdateDashboardRequest(ctx, org)
	case "dashboard/delete":
		ctx = kvCtx(nil, map[string]string{"dashboard-id": id}, "")
		dashboards.ProcessDeleteDashboardRequest(ctx, org)
	case "dashboard/favorite":
		ctx = kvCtx(nil, map[string]string{"dashboard-id": id}, "")
		dashboards.ProcessFavoriteRequest(ctx, org)
	// ---- folders: key = name (under root), no value
	case "folder/create":
		ctx = kvCtx(map[string]interface{}{"name": name}, nil, "")
		dashboards.ProcessCreateFolderRequest(ctx, org)
		r := kvDone(ctx)
		if r.OK {
			m := map[string]string{}
			_ = json.Unmarshal(ctx.Response.Body(), &m)
			r.Id = m["id"]
		}
		return r, nil
	case "folder/rename":
		ctx = kvCtx(map[string]interface{}{"name": name2}, map[string]string{"folder-id": id}, "")
		dashboards.ProcessUpdateFolderRequest(ctx, org)
	case "folder/delete":
		ctx = kvCtx(nil, map[string]string{"folder-id": id}, "")
		dashboards.ProcessDeleteFolderRequest(ctx, org)
	// ---- saved queries: key = queryName, value = searchText
	case "usq/create", "usq/update":
		ctx = kvCtx(map[string]interface{}{"queryName": name, "searchText": val, "queryLanguage": "Splunk QL"}, nil, "")
		usq.SaveUserQueries(ctx, org)
	case "usq/delete":
		ctx = kvCtx(nil, map[string]string{"qname": name}, "")
		usq.DeleteUserSavedQuery(ctx, org)
	// ---- index aliases: key = "index|alias", no value
	case "alias/create", "alias/update":
		ix, al, err := kvAliasPair(name)
		if err != nil {
			return nil, err
		}
		if c.boolean("post") {
			ctx = kvCtx(map[string]interface{}{"actions": []interface{}{map[string]interface{}{"add": map[string]interface{}{"index": ix, "alias": al}}}}, nil, "")
			eswriter.ProcessPostAliasesRequest(ctx, org)
		} else {
			ctx = kvCtx(nil, map[string]string{"indexName": ix, "aliasName": al}, "")
			eswriter.ProcessPutAliasesRequest(ctx, org)
		}
	case "alias/delete":
		ix, al, err := kvAliasPair(name)
		if err != nil {
			return nil, err
		}
		ctx = kvCtx(map[string]interface{}{"actions": []interface{}{map[string]interface{}{"remove": map[string]interface{}{"index": ix, "alias": al}}}}, nil, "")
		eswriter.ProcessPostAliasesRequest(ctx, org)
	// ---- lookup files: key = file name, value = content (no tenant dimension in the API)
	case "lookup/create":
		ctx = kvMultipart(name, "upload.csv", val, false)
		lookups.UploadLookupFile(ctx)
	case "lookup/update":
		ctx = kvMultipart(name, "upload.csv", val, true)
		lookups.UploadLookupFile(ctx)
	case "lookup/delete":
		ctx = kvCtx(nil, map[string]string{"lookupFilename": name}, "")
		lookups.DeleteLookupFile(ctx)
	// ---- alerts: key = alert_name, value = message
	case "alert/create":
		cid, err := kvAlertContact(org)
		if err != nil {
			return nil, err
		}
		ctx = kvCtx(kvAlertBody(name, val, cid), nil, "")
		alertsHandler.ProcessCreateAlertRequest(ctx, org)
	case "alert/update", "alert/rename":
		cid, err := kvAlertContact(org)
		if err != nil {
			return nil, err
		}
		b := kvAlertBody(name, val, cid)
		if act == "rename" {
			b["alert_name"] = name2
		}
		b["alert_id"] = id
		ctx = kvCtx(b, nil, "")
		alertsHandler.ProcessUpdateAlertRequest(ctx)
	case "alert/delete":
		ctx = kvCtx(map[string]interface{}{"alert_id": id}, nil, "")
		alertsHandler.ProcessDeleteAlertRequest(ctx)
	// ---- contact points: key = contact_name, value = pager_duty
	case "contact/create":
		ctx = kvCtx(map[string]interface{}{"contact_name": name, "pager_duty": val,
			"webhook": []map[string]interface{}{{"webhook": "http://127.0.0.1:1/" + val}}}, nil, "")
		alertsHandler.ProcessCreateContactRequest(ctx, org)
	case "contact/update", "contact/rename":
		n := name
		if act == "rename" {
			n = name2
		}
		// the client sends the object back as it was listed (org_id included), with the edited fields
		ctx = kvCtx(map[string]interface{}{"contact_id": id, "contact_name": n, "pager_duty": val, "org_id": org,
			"webhook": []map[string]interface{}{{"webhook": "http://127.0.0.1:1/" + val}}}, nil, "")
		alertsHandler.ProcessUpdateContactRequest(ctx)
	case "contact/delete":
		ctx = kvCtx(map[string]interface{}{"contact_id": id}, nil, "")
		alertsHandler.ProcessDeleteContactRequest(ctx)
	default:
		return nil, fmt.Errorf("kv: unsupported %s/%s", kind, act)
	}
	return kvDone(ctx), nil
}

func kvSnapContacts(org int64) ([]map[string]interface{}, error) {
	ctx := kvCtx(nil, nil, "")
	alertsHandler.ProcessGetAllContactsRequest(ctx, org)
	if ctx.Response.StatusCode() != 200 {
		return nil, fmt.Errorf("list contacts: %d %s", ctx.Response.StatusCode(), ctx.Response.Body())
	}
	var r struct {
		Contacts []map[string]interface{} `json:"contacts"`
	}
	if err := json.Unmarshal(ctx.Response.Body(), &r); err != nil {
		return nil, err
	}
	out := []map[string]interface{}{}
	for _, ct := range r.Contacts {
		out = append(out, map[string]interface{}{"id": ct["contact_id"], "name": ct["contact_name"], "val": ct["pager_duty"], "org": ct["org_id"]})
	}
	return out, nil
}

// kv_snap{kind, org} -> everything the store answers for that tenant through its list + get entry points
func cmdKvSnap(c Cmd) (interface{}, error) {
	kind, org := c.str("kind"), c.i64("org", 0)
	objs := []map[string]interface{}{}
	res := map[string]interface{}{}
	switch kind {
	case "dashboard", "folder":
		ctx := kvCtx(nil, nil, "type="+kind)
		dashboards.ProcessListAllItemsRequest(ctx, org)
		if ctx.Response.StatusCode() != 200 {
			return map[string]interface{}{"err": fmt.Sprintf("list: %d %s", ctx.Response.StatusCode(), ctx.Response.Body())}, nil
		}
		var r struct {
			Items []map[string]interface{} `json:"items"`
		}
		if err := json.Unmarshal(ctx.Response.Body(), &r); err != nil {
			return nil, err
		}
		for _, it := range r.Items {
			o := map[string]interface{}{"id": it["id"], "name": it["name"], "val": ""}
			if kind == "dashboard" {
				id, _ := it["id"].(string)
				g := kvCtx(nil, map[string]string{"dashboard-id": id}, "")
				dashboards.ProcessGetDashboardRequest(g, org)
				if g.Response.StatusCode() != 200 {
					o["get_err"] = fmt.Sprintf("%d %s", g.Response.StatusCode(), g.Response.Body())
				} else {
					d := map[string]interface{}{}
					_ = json.Unmarshal(g.Response.Body(), &d)
					o["val"] = d["description"]
					o["get_name"] = d["name"]
					o["fav"] = d["isFavorite"]
				}
			}
			objs = append(objs, o)
		}
		// second read path: contents of the root folder
		f := kvCtx(nil, nil, "")
		dashboards.ProcessGetFolderContentsRequest(f, org)
		var fr struct {
			Items []map[string]interface{} `json:"items"`
		}
		_ = json.Unmarshal(f.Response.Body(), &fr)
		names := []string{}
		for _, it := range fr.Items {
			if it["type"] == kind {
				names = append(names, fmt.Sprint(it["name"]))
			}
		}
		sort.Strings(names)
		res["root_names"] = names
	case "usq":
		ctx := kvCtx(nil, nil, "")
		usq.GetUserSavedQueriesAll(ctx, org)
		m := map[string]map[string]interface{}{}
		if len(ctx.Response.Body()) > 0 {
			if err := json.Unmarshal(ctx.Response.Body(), &m); err != nil {
				return map[string]interface{}{"err": "list: " + err.Error() + ": " + string(ctx.Response.Body())}, nil
			}
		}
		for k, v := range m {
			objs = append(objs, map[string]interface{}{"id": k, "name": k, "val": v["searchText"]})
		}
	case "alias":
		// file view: aliases of every index; memory view: index of every alias
		filePairs, memPairs, listPairs := []string{}, []string{}, []string{}
		aliases := map[string]bool{}
		if l, ok := c["aliases"].([]interface{}); ok {
			for _, a := range l {
				aliases[fmt.Sprint(a)] = true
			}
		}
		names := append([]string{}, kvIndices...)
		for a := range aliases {
			names = append(names, a)
		}
		for _, ix := range names {
			ctx := kvCtx(nil, map[string]string{"indexName": ix}, "")
			eswriter.ProcessGetIndexAlias(ctx, org)
			if ctx.Response.StatusCode() != 200 {
				res["file_err"] = fmt.Sprintf("%s: %d %s", ix, ctx.Response.StatusCode(), ctx.Response.Body())
				continue
			}
			r := map[string]map[string]map[string]interface{}{}
			_ = json.Unmarshal(ctx.Response.Body(), &r)
			for i, v := range r {
				for a := range v["aliases"] {
					filePairs = append(filePairs, i+"|"+a)
				}
			}
		}
		for a := range aliases {
			ctx := kvCtx(nil, map[string]string{"aliasName": a}, "")
			eswriter.ProcessGetAlias(ctx, org)
			if ctx.Response.StatusCode() == 200 {
				r := map[string]interface{}{}
				_ = json.Unmarshal(ctx.Response.Body(), &r)
				for i := range r {
					memPairs = append(memPairs, i+"|"+a)
				}
			}
		}
		all, _ := vtable.GetAllAliasesAsMapArray(org)
		for a, ixs := range all {
			for _, i := range ixs {
				listPairs = append(listPairs, i+"|"+a)
			}
		}
		ctx := kvCtx(nil, nil, "")
		eswriter.ProcessGetAllAliases(ctx, org)
		allFile := []string{}
		{
			r := map[string]map[string]map[string]interface{}{}
			_ = json.Unmarshal(ctx.Response.Body(), &r)
			for i, v := range r {
				for a := range v["aliases"] {
					allFile = append(allFile, i+"|"+a)
				}
			}
		}
		sort.Strings(filePairs)
		sort.Strings(memPairs)
		sort.Strings(listPairs)
		sort.Strings(allFile)
		res["file_pairs"], res["alias_lookup_pairs"], res["mem_pairs"], res["getall_pairs"] = filePairs, memPairs, listPairs, allFile
	case "lookup":
		ctx := kvCtx(nil, nil, "")
		lookups.GetAllLookupFiles(ctx)
		names := []string{}
		if err := json.Unmarshal(ctx.Response.Body(), &names); err != nil {
			return map[string]interface{}{"err": "list: " + string(ctx.Response.Body())}, nil
		}
		for _, n := range names {
			g := kvCtx(nil, map[string]string{"lookupFilename": n}, "")
			lookups.GetLookupFile(g)
			o := map[string]interface{}{"id": n, "name": n, "val": string(g.Response.Body())}
			if g.Response.StatusCode() != 200 {
				o["get_err"] = fmt.Sprintf("%d", g.Response.StatusCode())
			}
			objs = append(objs, o)
		}
	case "alert":
		ctx := kvCtx(nil, nil, "")
		alertsHandler.ProcessGetAllAlertsRequest(ctx, org)
		if ctx.Response.StatusCode() != 200 {
			return map[string]interface{}{"err": fmt.Sprintf("list: %d %s", ctx.Response.StatusCode(), ctx.Response.Body())}, nil
		}
		var r struct {
			Alerts []map[string]interface{} `json:"alerts"`
		}
		if err := json.Unmarshal(ctx.Response.Body(), &r); err != nil {
			return nil, err
		}
		for _, a := range r.Alerts {
			id, _ := a["alert_id"].(string)
			o := map[string]interface{}{"id": id, "name": a["alert_name"], "val": a["message"], "org": a["org_id"]}
			g := kvCtx(nil, map[string]string{"alertID": id}, "")
			alertsHandler.ProcessGetAlertRequest(g)
			if g.Response.StatusCode() != 200 {
				o["get_err"] = fmt.Sprintf("%d %s", g.Response.StatusCode(), g.Response.Body())
			} else {
				var gr struct {
					Alert map[string]interface{} `json:"alert"`
				}
				_ = json.Unmarshal(g.Response.Body(), &gr)
				o["get_name"], o["get_val"] = gr.Alert["alert_name"], gr.Alert["message"]
			}
			objs = append(objs, o)
		}
	case "contact":
		l, err := kvSnapContacts(org)
		if err != nil {
			return map[string]interface{}{"err": err.Error()}, nil
		}
		for _, o := range l {
			if !strings.HasPrefix(fmt.Sprint(o["name"]), "kv-alert-contact-") {
				objs = append(objs, o)
			}
		}
	default:
		return nil, fmt.Errorf("kv_snap: unknown kind %q", kind)
	}
	sort.Slice(objs, func(i, j int) bool {
		return fmt.Sprint(objs[i]["name"])+fmt.Sprint(objs[i]["id"]) < fmt.Sprint(objs[j]["name"])+fmt.Sprint(objs[j]["id"])
	})
	res["objs"] = objs
	return res, nil
}
