package main

// qstress: run many concurrent real queries through pipesearch.ParseAndExecutePipeRequest
// (the synchronous HTTP path) with planned cancels / executor delays / a short query timeout
// and a small admission limit, while the verifhook events are logged.  Returns the per-query
// outcomes, the event log and what remained after quiescence (running/waiting tables, goroutines).

import (
	"fmt"
	"runtime"
	"sort"
	"strings"
	"sync"
	"time"

	"github.com/siglens/siglens/pkg/ast/pipesearch"
	"github.com/siglens/siglens/pkg/config"
	"github.com/siglens/siglens/pkg/segment/query"
)

func init() {
	reg("qstress", cmdQStress)
	reg("qtables", func(c Cmd) (interface{}, error) {
		return map[string]interface{}{"running": query.GetActiveQueryCount(), "waiting": len(query.GetWaitingQueries()),
			"goroutines": runtime.NumGoroutine()}, nil
	})
}

type qPlan struct {
	Text     string `json:"text"`
	StartMs  int64  `json:"start_ms"`  // when to issue the query (relative)
	CancelMs int64  `json:"cancel_ms"` // <0: no cancel; else CancelQuery(qid) that many ms after StartMs
	Cancel2  int64  `json:"cancel2_ms"`
	SlowMs   int64  `json:"slow_ms"` // delay the executor at x.start
}

func goroutineDump() string {
	buf := make([]byte, 8<<20)
	n := runtime.Stack(buf, true)
	return string(buf[:n])
}

// goroutineSigs: multiset of goroutine signatures, used to tell which goroutines exist after a run that did
// not exist before it.  The signature is the goroutine's ENTRY function and its creator (stable while the
// goroutine lives); the current state and the top frames (time.Sleep, chan receive, ...) change all the time
// for background loops and are only appended as a hint after " @ ".
func goroutineSigs() map[string]int {
	m := map[string]int{}
	for _, blk := range strings.Split(goroutineDump(), "\n\n") {
		lines := strings.Split(blk, "\n")
		if len(lines) < 2 {
			continue
		}
		var fns []string
		creator := ""
		for _, ln := range lines[1:] {
			if strings.HasPrefix(ln, "\t") || strings.TrimSpace(ln) == "" {
				continue
			}
			if strings.HasPrefix(ln, "created by ") {
				creator = strings.TrimPrefix(ln, "created by ")
				if i := strings.Index(creator, " in goroutine"); i > 0 {
					creator = creator[:i]
				}
				continue
			}
			if i := strings.LastIndex(ln, "("); i > 0 {
				ln = ln[:i]
			}
			fns = append(fns, ln)
		}
		if len(fns) == 0 {
			continue
		}
		m[fns[len(fns)-1]+" < "+creator]++
	}
	return m
}

// goroutineHint: for a signature, the state + top frames of one goroutine that has it now
func goroutineHint(sig string) string {
	for _, blk := range strings.Split(goroutineDump(), "\n\n") {
		lines := strings.Split(blk, "\n")
		var fns []string
		creator := ""
		for _, ln := range lines[1:] {
			if strings.HasPrefix(ln, "\t") || strings.TrimSpace(ln) == "" {
				continue
			}
			if strings.HasPrefix(ln, "created by ") {
				creator = strings.TrimPrefix(ln, "created by ")
				if i := strings.Index(creator, " in goroutine"); i > 0 {
					creator = creator[:i]
				}
				continue
			}
			if i := strings.LastIndex(ln, "("); i > 0 {
				ln = ln[:i]
			}
			fns = append(fns, ln)
		}
		if len(fns) > 0 && fns[len(fns)-1]+" < "+creator == sig {
			st := lines[0]
			if i := strings.Index(st, "["); i >= 0 {
				st = st[i:]
			}
			if len(fns) > 3 {
				fns = fns[:3]
			}
			return st + " " + strings.Join(fns, " < ")
		}
	}
	return ""
}

func cmdQStress(c Cmd) (interface{}, error) {
	plansRaw, _ := c["plans"].([]interface{})
	var plans []qPlan
	for _, p := range plansRaw {
		m, _ := p.(map[string]interface{})
		cm := Cmd(m)
		plans = append(plans, qPlan{cm.str("text"), cm.i64("start_ms", 0), cm.i64("cancel_ms", -1), cm.i64("cancel2_ms", -1), cm.i64("slow_ms", 0)})
	}
	if mr := c.i64("max_running", 0); mr > 0 {
		query.MAX_RUNNING_QUERIES = uint64(mr)
	}
	if ts := c.i64("timeout_secs", 0); ts > 0 {
		config.SetQueryTimeoutSecs(int(ts))
	}
	index := c.str("index")
	if index == "" {
		index = "*"
	}
	org := c.i64("org", 0)
	// let background start-up goroutines settle, then take the baseline
	time.Sleep(50 * time.Millisecond)
	baseG := runtime.NumGoroutine()
	baseSigs := goroutineSigs()
	base := nextQid + 1
	nextQid += uint64(len(plans)) + 1
	hk.mu.Lock()
	hk.delays = nil
	for i, p := range plans {
		if p.SlowMs > 0 {
			hk.delays = append(hk.delays, delayRule{"x.start", "qid", fmt.Sprint(base + uint64(i)), time.Duration(p.SlowMs) * time.Millisecond})
		}
	}
	hk.mu.Unlock()
	type outT struct {
		Qid     uint64 `json:"qid"`
		Outcome string `json:"outcome"` // ok | cancelled-or-empty | err:<...> | stuck | panic
		Hits    int    `json:"hits"`
		Ms      int64  `json:"ms"`
	}
	outs := make([]outT, len(plans))
	var wg sync.WaitGroup
	t0 := time.Now()
	// churn: goroutines that keep taking the table's write lock the way RestartQuery does (forced start, then
	// delete), so that lock-protocol mistakes of concurrent cancels / timeouts get a writer to collide with
	churnStop := make(chan struct{})
	var churnWG sync.WaitGroup
	churnBase := nextQid + 1000000
	for w := 0; w < int(c.i64("churn_workers", 0)); w++ {
		churnWG.Add(1)
		go func(w int) {
			defer churnWG.Done()
			q := churnBase + uint64(w)*1000000
			for {
				select {
				case <-churnStop:
					return
				default:
				}
				q++
				if _, err := query.StartQuery(q, false, nil, true); err == nil {
					query.DeleteQuery(q)
				}
			}
		}(w)
	}
	for i := range plans {
		wg.Add(1)
		go func(i int) {
			defer wg.Done()
			p := plans[i]
			qid := base + uint64(i)
			outs[i].Qid = qid
			time.Sleep(time.Until(t0.Add(time.Duration(p.StartMs) * time.Millisecond)))
			for _, cm := range []int64{p.CancelMs, p.Cancel2} {
				if cm >= 0 {
					go func(cm int64) {
						time.Sleep(time.Duration(cm) * time.Millisecond)
						hookFn("t.cancel.call", "qid", qid)
						query.CancelQuery(qid)
						hookFn("t.cancel.ret", "qid", qid)
					}(cm)
				}
			}
			m := map[string]interface{}{"searchText": p.Text, "indexName": index, "startEpoch": uint64(1),
				"endEpoch": uint64(time.Now().UnixMilli()) + 86400000, "queryLanguage": "Splunk QL"}
			done := make(chan struct{})
			ts := time.Now()
			go func() {
				defer close(done)
				defer func() {
					if r := recover(); r != nil {
						outs[i].Outcome = fmt.Sprintf("panic:%v", r)
					}
				}()
				resp, _, _, err := pipesearch.ParseAndExecutePipeRequest(m, qid, org, time.Now(), "-1", nil)
				switch {
				case err != nil:
					e := err.Error()
					if strings.Contains(e, "timed out") {
						outs[i].Outcome = "timeout"
					} else {
						outs[i].Outcome = "err:" + e
					}
				case resp == nil:
					outs[i].Outcome = "cancelled"
				default:
					outs[i].Outcome = "ok"
					outs[i].Hits = len(resp.Hits.Hits)
				}
			}()
			select {
			case <-done:
			case <-time.After(time.Duration(c.i64("stuck_ms", 30000)) * time.Millisecond):
				outs[i].Outcome = "stuck"
			}
			outs[i].Ms = time.Since(ts).Milliseconds()
		}(i)
	}
	wg.Wait()
	close(churnStop)
	churnDone := make(chan struct{})
	go func() { churnWG.Wait(); close(churnDone) }()
	churnStuck := false
	select {
	case <-churnDone:
	case <-time.After(10 * time.Second):
		churnStuck = true
	}
	// quiescence: tables empty, goroutines back to the baseline
	var running, waiting, g int
	settle := time.Duration(c.i64("settle_ms", 4000)) * time.Millisecond
	deadline := time.Now().Add(settle)
	tablesStuck := false
	for {
		// reading the tables takes their locks: if a lock is never released again this must not hang the harness
		type tv struct{ r, w int }
		tch := make(chan tv, 1)
		go func() { tch <- tv{query.GetActiveQueryCount(), len(query.GetWaitingQueries())} }()
		select {
		case v := <-tch:
			running, waiting = v.r, v.w
		case <-time.After(8 * time.Second):
			tablesStuck = true
		}
		g = runtime.NumGoroutine()
		if tablesStuck || (running == 0 && waiting == 0 && g <= baseG) || time.Now().After(deadline) {
			break
		}
		time.Sleep(20 * time.Millisecond)
	}
	hk.mu.Lock()
	ev := hk.events
	hk.events = nil
	hk.delays = nil
	hk.mu.Unlock()
	res := map[string]interface{}{"outs": outs, "events": ev, "running_left": running, "waiting_left": waiting,
		"goroutines_base": baseG, "goroutines_left": g, "base_qid": base, "churn_stuck": churnStuck, "tables_stuck": tablesStuck}
	if g > baseG || running != 0 || waiting != 0 {
		var extra []string
		for sig, n := range goroutineSigs() {
			if n > baseSigs[sig] && (strings.Contains(sig, "siglens/pkg/segment") || strings.Contains(sig, "pipesearch")) {
				extra = append(extra, fmt.Sprintf("%dx %s @ %s", n-baseSigs[sig], sig, goroutineHint(sig)))
			}
		}
		sort.Strings(extra)
		if len(extra) > 12 {
			extra = extra[:12]
		}
		res["extra_goroutines"] = extra
	}
	return res, nil
}

// qsched: force one TLC-generated schedule (spec/Gen_QueryLifecycle.tla) on the real goroutines of one or more
// queries.  steps: enq[:q] | deq | run | runskip | cancel[:q] | recv[:q]:<STATE> | xfin[:q]   (q = q1, q2, ...; default q1).
// Returns which steps could be forced, the outcome of every query and the event log.
func init() { reg("qsched", cmdQSched) }

func cmdQSched(c Cmd) (interface{}, error) {
	var steps []string
	if raw, ok := c["steps"].([]interface{}); ok {
		for _, s := range raw {
			steps = append(steps, fmt.Sprint(s))
		}
	}
	query.MAX_RUNNING_QUERIES = uint64(c.i64("max_running", 1))
	// which queries occur
	qname := func(st string) (string, string) { // -> (base step incl. state, query name)
		parts := strings.Split(st, ":")
		if len(parts) >= 2 && strings.HasPrefix(parts[1], "q") && len(parts[1]) <= 3 {
			return strings.Join(append([]string{parts[0]}, parts[2:]...), ":"), parts[1]
		}
		return st, "q1"
	}
	qids := map[string]uint64{}
	var names []string
	for _, st := range steps {
		_, qn := qname(st)
		if _, ok := qids[qn]; !ok && (strings.HasPrefix(st, "enq") || strings.HasPrefix(st, "cancel") || strings.HasPrefix(st, "recv") || strings.HasPrefix(st, "xfin")) {
			nextQid++
			qids[qn] = nextQid
			names = append(names, qn)
		}
	}
	hk.mu.Lock()
	hk.logging = true
	hk.events = nil
	hk.mu.Unlock()
	keys := []string{"q.pull.check|*", "q.pull.got|*"}
	for _, qn := range names {
		keys = append(keys, "h.recv|"+fmt.Sprint(qids[qn]), "x.start|"+fmt.Sprint(qids[qn]))
	}
	gateInstall("qid", keys)
	const W = 3 * time.Second
	pullTicket := gateArrive("q.pull.check|*", W) // puller parked before canRunQuery
	if pullTicket == nil {
		gateReleaseAll()
		return nil, fmt.Errorf("puller never reached q.pull.check")
	}
	var gotTicket *ticket
	hTicket := map[string]*ticket{}
	type outT struct {
		Outcome string
		Hits    int
	}
	done := map[string]chan outT{}
	text := c.str("text")
	if text == "" {
		text = "*"
	}
	forced := 0
	skipped := 0
	infeasible := ""
	cancelInfo := map[string]map[string]bool{}
	for _, full := range steps {
		st, qn := qname(full)
		qid := qids[qn]
		qs := fmt.Sprint(qid)
		ok := true
		switch {
		case st == "enq":
			after := curSeq()
			ch := make(chan outT, 1)
			done[qn] = ch
			go func(qid uint64) {
				m := map[string]interface{}{"searchText": text, "indexName": "*", "startEpoch": uint64(1),
					"endEpoch": uint64(time.Now().UnixMilli()) + 86400000, "queryLanguage": "Splunk QL"}
				resp, _, _, err := pipesearch.ParseAndExecutePipeRequest(m, qid, 0, time.Now(), "-1", nil)
				switch {
				case err != nil && strings.Contains(err.Error(), "timed out"):
					ch <- outT{"timeout", 0}
				case err != nil:
					ch <- outT{"err:" + err.Error(), 0}
				case resp == nil:
					ch <- outT{"cancelled", 0}
				default:
					ch <- outT{"ok", len(resp.Hits.Hits)}
				}
			}(qid)
			_, ok = waitEvent("q.enqueue", "qid", qid, after, W)
			if !ok {
				// a changed admission path may have run it directly: accept the run event as the start
				_, ok = waitEvent("q.run", "qid", qid, after, 200*time.Millisecond)
			}
		case st == "deq":
			// let the puller pass canRunQuery + getNextWaitStateData; it parks again at q.pull.got
			if pullTicket == nil {
				pullTicket = gateArrive("q.pull.check|*", W)
			}
			pullTicket.letGo()
			pullTicket = nil
			gotTicket = gateArrive("q.pull.got|*", W)
			ok = gotTicket != nil
			if !ok {
				pullTicket = gateArrive("q.pull.check|*", W) // queue empty / no slot: the puller is back at the top
			}
		case st == "run" || st == "runskip":
			after := curSeq()
			if gotTicket == nil {
				ok = false
				break
			}
			gq := gotTicket.kv["qid"]
			gotTicket.letGo()
			gotTicket = nil
			if st == "run" {
				_, ok = waitEvent("q.run.sent", "qid", gq, after, W)
			} else {
				_, ok = waitEvent("q.run.skip", "qid", gq, after, W)
			}
		case st == "cancel":
			_, xd := waitEvent("x.done", "qid", qid, 0, 0)
			_, hr := waitEvent("h.done", "qid", qid, 0, 0)
			cancelInfo[qn] = map[string]bool{"xdone": xd, "hret": hr}
			hookFn("t.cancel.call", "qid", qid)
			cd := make(chan struct{})
			go func() { query.CancelQuery(qid); close(cd) }()
			select {
			case <-cd:
			case <-time.After(W):
				ok = false
				infeasible = "CancelQuery blocked"
			}
			hookFn("t.cancel.ret", "qid", qid)
		case strings.HasPrefix(st, "recv:"):
			want := strings.TrimPrefix(st, "recv:")
			if hTicket[qn] != nil {
				hTicket[qn].letGo() // finish processing of the previous message
				hTicket[qn] = nil
			}
			terminalWanted := want == "COMPLETE" || want == "ERROR" || want == "CANCELLED" || want == "TIMEOUT"
			for {
				hTicket[qn] = gateArrive("h.recv|"+qs, W)
				if hTicket[qn] == nil {
					break
				}
				g := fmt.Sprint(hTicket[qn].kv["state"])
				if terminalWanted && (g == "READY" || g == "RUNNING") && g != want {
					hTicket[qn].letGo() // schedules that list only terminal receives: pass the progress messages
					hTicket[qn] = nil
					continue
				}
				break
			}
			if hTicket[qn] == nil {
				ok = false
				break
			}
			got := fmt.Sprint(hTicket[qn].kv["state"])
			if got != want && !((want == "COMPLETE" || want == "ERROR") && (got == "COMPLETE" || got == "ERROR")) {
				ok = false
				infeasible = "handler of " + qn + " received " + got + ", schedule wants " + want
			} else if len(names) > 1 && terminalWanted {
				// several queries: the handler's return (deferred DeleteQuery) is part of this step, later steps of the
				// puller depend on the freed slot
				after := curSeq()
				hTicket[qn].letGo()
				hTicket[qn] = nil
				_, ok = waitEvent("h.done", "qid", qid, after-1, W)
			}
		case st == "xfin":
			after := curSeq()
			if hTicket[qn] != nil { // the executor is started by the handler when it processes READY
				hTicket[qn].letGo()
				hTicket[qn] = nil
			}
			xt := gateArrive("x.start|"+qs, 300*time.Millisecond)
			for tries := 0; xt == nil && tries < 3; tries++ {
				// the handler may still be parked on READY / RUNNING (schedule without explicit receives): let it go on
				if ht := gateArrive("h.recv|"+qs, 300*time.Millisecond); ht != nil {
					st := fmt.Sprint(ht.kv["state"])
					if st == "READY" || st == "RUNNING" {
						ht.letGo()
					} else {
						hTicket[qn] = ht
					}
				}
				xt = gateArrive("x.start|"+qs, W/2)
			}
			if xt == nil {
				ok = false
				break
			}
			xt.letGo()
			_, ok = waitEvent("x.done", "qid", qid, after, 10*time.Second)
		}
		if !ok {
			if len(names) > 1 && (st == "deq" || st == "run") && infeasible == "" {
				// with several queries a puller step that cannot be taken (nothing to dequeue / no free slot, e.g. because the
				// code admitted the query by another path) is skipped and the rest of the schedule is still attempted
				skipped++
				continue
			}
			if infeasible == "" {
				infeasible = "step " + full + " could not be forced"
			}
			break
		}
		forced++
	}
	gateReleaseAll()
	outcomes := map[string]string{}
	for _, qn := range names {
		ch := done[qn]
		if ch == nil {
			outcomes[qn] = "notstarted"
			continue
		}
		select {
		case o := <-ch:
			outcomes[qn] = o.Outcome
		case <-time.After(15 * time.Second):
			outcomes[qn] = "stuck"
		}
	}
	time.Sleep(30 * time.Millisecond)
	hk.mu.Lock()
	ev := hk.events
	hk.events = nil
	hk.mu.Unlock()
	first := ""
	if len(names) > 0 {
		first = names[0]
	}
	ci := cancelInfo[first]
	return map[string]interface{}{"qids": qids, "forced": forced, "skipped": skipped, "of": len(steps), "infeasible": infeasible, "outcomes": outcomes,
		"outcome": outcomes[first], "events": ev, "xdone_at_cancel": ci["xdone"], "hret_at_cancel": ci["hret"], "cancel_info": cancelInfo,
		"running_left": query.GetActiveQueryCount(), "waiting_left": len(query.GetWaitingQueries())}, nil
}
