package main

// qstress: run many concurrent real queries through pipesearch.ParseAndExecutePipeRequest
// (the synchronous HTTP path) with planned cancels / executor delays / a short query timeout
// and a small admission limit, while the verifhook events are logged.  Returns the per-query
// outcomes, the event log and what remained after quiescence (running/waiting tables, goroutines).

import (
	"fmt"
	"runtime"
	"sort"
	"strings"
	"sync"
	"time"

	"github.com/siglens/siglens/pkg/ast/pipesearch"
	"github.com/siglens/siglens/pkg/config"
	"github.com/siglens/siglens/pkg/segment/query"
)

func init() {
	reg("qstress", cmdQStress)
	reg("qtables", func(c Cmd) (interface{}, error) {
		return map[string]interface{}{"running": query.GetActiveQueryCount(), "waiting": len(query.GetWaitingQueries()),
			"goroutines": runtime.NumGoroutine()}, nil
	})
}

type qPlan struct {
	Text     string `json:"text"`
	StartMs  int64  `json:"start_ms"`  // when to issue the query (relative)
	CancelMs int64  `json:"cancel_ms"` // <0: no cancel; else CancelQuery(qid) that many ms after StartMs
	Cancel2  int64  `json:"cancel2_ms"`
	SlowMs   int64  `json:"slow_ms"` // delay the executor at x.start
}

func goroutineDump() string {
	buf := make([]byte, 8<<20)
	n := runtime.Stack(buf, true)
	return string(buf[:n])
}

// goroutineSigs: multiset of goroutine signatures, used to tell which goroutines exist after a run that did
// not exist before it.  The signature is the goroutine's ENTRY function and its creator (stable while the
// goroutine lives); the current state and the top frames (time.Sleep, chan receive, ...) change all the time
// for background loops and are only appended as a hint after " @ ".
func goroutineSigs() map[string]int {
	m := map[string]int{}
	for _, blk := range strings.Split(goroutineDump(), "\n\n") {
		lines := strings.Split(blk, "\n")
		if len(lines) < 2 {
			continue
		}
		var fns []string
		creator := ""
		for _, ln := range lines[1:] {
			if strings.HasPrefix(ln, "\t") || strings.TrimSpace(ln) == "" {
				continue
			}
			if strings.HasPrefix(ln, "created by ") {
				creator = strings.TrimPrefix(ln, "created by ")
				if i := strings.Index(creator, " in goroutine"); i > 0 {
					creator = creator[:i]
				}
				continue
			}
			if i := strings.LastIndex(ln, "("); i > 0 {
				ln = ln[:i]
			}
			fns = append(fns, ln)
		}
		if len(fns) == 0 {
			continue
		}
		m[fns[len(fns)-1]+" < "+creator]++
	}
	return m
}

// goroutineHint: for a signature, the state + top frames of one goroutine that has it now
func goroutineHint(sig string) string {
	for _, blk := range strings.Split(goroutineDump(), "\n\n") {
		lines := strings.Split(blk, "\n")
		var fns []string
		creator := ""
		for _, ln := range lines[1:] {
			if strings.HasPrefix(ln, "\t") || strings.TrimSpace(ln) == "" {
				continue
			}
			if strings.HasPrefix(ln, "created by ") {
				creator = strings.TrimPrefix(ln, "created by ")
				if i := strings.Index(creator, " in goroutine"); i > 0 {
					creator = creator[:i]
				}
				continue
			}
			if i := strings.LastIndex(ln, "("); i > 0 {
				ln = ln[:i]
			}
			fns = append(fns, ln)
		}
		if len(fns) > 0 && fns[len(fns)-1]+" < "+creator == sig {
			st := lines[0]
			if i := strings.Index(st, "["); i >= 0 {
				st = st[i:]
			}
			if len(fns) > 3 {
				fns = fns[:3]
			}
			return st + " " + strings.Join(fns, " < ")
		}
	}
	return ""
}

func cmdQStress(c Cmd) (interface{}, error) {
	plansRaw, _ := c["plans"].([]interface{})
	var plans []qPlan
	for _, p := range plansRaw {
		m, _ := p.(map[string]interface{})
		cm := Cmd(m)
		plans = append(plans, qPlan{cm.str("text"), cm.i64("start_ms", 0), cm.i64("cancel_ms", -1), cm.i64("cancel2_ms", -1), cm.i64("slow_ms", 0)})
	}
	if mr := c.i64("max_running", 0); mr > 0 {
		query.MAX_RUNNING_QUERIES = uint64(mr)
	}
	if ts := c.i64("timeout_secs", 0); ts > 0 {
		config.SetQueryTimeoutSecs(int(ts))
	}
	index := c.str("index")
	if index == "" {
		index = "*"
	}
	org := c.i64("org", 0)
	// let background start-up goroutines settle, then take the baseline
	time.Sleep(50 * time.Millisecond)
	baseG := runtime.NumGoroutine()
	baseSigs := goroutineSigs()
	base := nextQid + 1
	nextQid += uint64(len(plans)) + 1
	hk.mu.Lock()
	hk.delays = nil
	for i, p := range plans {
		if p.SlowMs > 0 {
			hk.delays = append(hk.delays, delayRule{"x.start", "qid", fmt.Sprint(base + uint64(i)), time.Duration(p.SlowMs) * time.Millisecond})
		}
	}
	hk.mu.Unlock()
	type outT struct {
		Qid     uint64 `json:"qid"`
		Outcome string `json:"outcome"` // ok | cancelled-or-empty | err:<...> | stuck | panic
		Hits    int    `json:"hits"`
		Ms      int64  `json:"ms"`
	}
	outs := make([]outT, len(plans))
	var wg sync.WaitGroup
	t0 := time.Now()
	for i := range plans {
		wg.Add(1)
		go func(i int) {
			defer wg.Done()
			p := plans[i]
			qid := base + uint64(i)
			outs[i].Qid = qid
			time.Sleep(time.Until(t0.Add(time.Duration(p.StartMs) * time.Millisecond)))
			for _, cm := range []int64{p.CancelMs, p.Cancel2} {
				if cm >= 0 {
					go func(cm int64) {
						time.Sleep(time.Duration(cm) * time.Millisecond)
						hookFn("t.cancel.call", "qid", qid)
						query.CancelQuery(qid)
						hookFn("t.cancel.ret", "qid", qid)
					}(cm)
				}
			}
			m := map[string]interface{}{"searchText": p.Text, "indexName": index, "startEpoch": uint64(1),
				"endEpoch": uint64(time.Now().UnixMilli()) + 86400000, "queryLanguage": "Splunk QL"}
			done := make(chan struct{})
			ts := time.Now()
			go func() {
				defer close(done)
				defer func() {
					if r := recover(); r != nil {
						outs[i].Outcome = fmt.Sprintf("panic:%v", r)
					}
				}()
				resp, _, _, err := pipesearch.ParseAndExecutePipeRequest(m, qid, org, time.Now(), "-1", nil)
				switch {
				case err != nil:
					e := err.Error()
					if strings.Contains(e, "timed out") {
						outs[i].Outcome = "timeout"
					} else {
						outs[i].Outcome = "err:" + e
					}
				case resp == nil:
					outs[i].Outcome = "cancelled"
				default:
					outs[i].Outcome = "ok"
					outs[i].Hits = len(resp.Hits.Hits)
				}
			}()
			select {
			case <-done:
			case <-time.After(time.Duration(c.i64("stuck_ms", 30000)) * time.Millisecond):
				outs[i].Outcome = "stuck"
			}
			outs[i].Ms = time.Since(ts).Milliseconds()
		}(i)
	}
	wg.Wait()
	// quiescence: tables empty, goroutines back to the baseline
	var running, waiting, g int
	settle := time.Duration(c.i64("settle_ms", 4000)) * time.Millisecond
	deadline := time.Now().Add(settle)
	for {
		running, waiting, g = query.GetActiveQueryCount(), len(query.GetWaitingQueries()), runtime.NumGoroutine()
		if (running == 0 && waiting == 0 && g <= baseG) || time.Now().After(deadline) {
			break
		}
		time.Sleep(20 * time.Millisecond)
	}
	hk.mu.Lock()
	ev := hk.events
	hk.events = nil
	hk.delays = nil
	hk.mu.Unlock()
	res := map[string]interface{}{"outs": outs, "events": ev, "running_left": running, "waiting_left": waiting,
		"goroutines_base": baseG, "goroutines_left": g, "base_qid": base}
	if g > baseG || running != 0 || waiting != 0 {
		var extra []string
		for sig, n := range goroutineSigs() {
			if n > baseSigs[sig] && (strings.Contains(sig, "siglens/pkg/segment") || strings.Contains(sig, "pipesearch")) {
				extra = append(extra, fmt.Sprintf("%dx %s @ %s", n-baseSigs[sig], sig, goroutineHint(sig)))
			}
		}
		sort.Strings(extra)
		if len(extra) > 12 {
			extra = extra[:12]
		}
		res["extra_goroutines"] = extra
	}
	return res, nil
}

// qsched: force one TLC-generated schedule (spec/Gen_QueryLifecycle.tla) on the real goroutines of one
// query.  steps: enq | deq | run | runskip | cancel | recv:<STATE> | xfin.  Returns which steps could be
// forced, the query outcome and the event log.
func init() { reg("qsched", cmdQSched) }

func cmdQSched(c Cmd) (interface{}, error) {
	var steps []string
	if raw, ok := c["steps"].([]interface{}); ok {
		for _, s := range raw {
			steps = append(steps, fmt.Sprint(s))
		}
	}
	query.MAX_RUNNING_QUERIES = 1
	nextQid++
	qid := nextQid
	qs := fmt.Sprint(qid)
	hk.mu.Lock()
	hk.logging = true
	hk.events = nil
	hk.mu.Unlock()
	// the puller is parked first so that nothing moves until the schedule says so
	gateInstall("qid", []string{"q.pull.check|*", "q.pull.got|" + qs, "h.recv|" + qs, "x.start|" + qs})
	const W = 3 * time.Second
	pullTicket := gateArrive("q.pull.check|*", W) // puller parked before canRunQuery
	if pullTicket == nil {
		gateReleaseAll()
		return nil, fmt.Errorf("puller never reached q.pull.check")
	}
	var gotTicket, hTicket, xTicket *ticket
	type outT struct {
		Outcome string
		Hits    int
	}
	done := make(chan outT, 1)
	text := c.str("text")
	if text == "" {
		text = "*"
	}
	forced := 0
	infeasible := ""
	cancelSeq, xdoneAtCancel, hretAtCancel := 0, false, false
	for _, st := range steps {
		ok := true
		switch {
		case st == "enq":
			after := curSeq()
			go func() {
				m := map[string]interface{}{"searchText": text, "indexName": "*", "startEpoch": uint64(1),
					"endEpoch": uint64(time.Now().UnixMilli()) + 86400000, "queryLanguage": "Splunk QL"}
				resp, _, _, err := pipesearch.ParseAndExecutePipeRequest(m, qid, 0, time.Now(), "-1", nil)
				switch {
				case err != nil && strings.Contains(err.Error(), "timed out"):
					done <- outT{"timeout", 0}
				case err != nil:
					done <- outT{"err:" + err.Error(), 0}
				case resp == nil:
					done <- outT{"cancelled", 0}
				default:
					done <- outT{"ok", len(resp.Hits.Hits)}
				}
			}()
			_, ok = waitEvent("q.enqueue", "qid", qid, after, W)
		case st == "deq":
			// let the puller pass canRunQuery + getNextWaitStateData; it parks again at q.pull.got
			pullTicket.letGo()
			pullTicket = nil
			gotTicket = gateArrive("q.pull.got|"+qs, W)
			ok = gotTicket != nil
			if !ok {
				// the queue was empty: the puller is back at the top of its loop
				pullTicket = gateArrive("q.pull.check|*", W)
			}
		case st == "run" || st == "runskip":
			after := curSeq()
			if gotTicket == nil {
				ok = false
				break
			}
			gotTicket.letGo()
			gotTicket = nil
			if st == "run" {
				_, ok = waitEvent("q.run.sent", "qid", qid, after, W)
			} else {
				_, ok = waitEvent("q.run.skip", "qid", qid, after, W)
			}
		case st == "cancel":
			_, xd := waitEvent("x.done", "qid", qid, 0, 0)
			_, hr := waitEvent("h.done", "qid", qid, 0, 0)
			xdoneAtCancel, hretAtCancel = xd, hr
			hookFn("t.cancel.call", "qid", qid)
			cancelSeq = curSeq()
			cd := make(chan struct{})
			go func() { query.CancelQuery(qid); close(cd) }()
			select {
			case <-cd:
			case <-time.After(W):
				ok = false
				infeasible = "CancelQuery blocked"
			}
			hookFn("t.cancel.ret", "qid", qid)
		case strings.HasPrefix(st, "recv:"):
			want := strings.TrimPrefix(st, "recv:")
			if hTicket != nil {
				hTicket.letGo() // finish processing of the previous message
				hTicket = nil
			}
			hTicket = gateArrive("h.recv|"+qs, W)
			if hTicket == nil {
				ok = false
				break
			}
			got := fmt.Sprint(hTicket.kv["state"])
			if got != want && !((want == "COMPLETE" || want == "ERROR") && (got == "COMPLETE" || got == "ERROR")) {
				ok = false
				infeasible = "handler received " + got + ", schedule wants " + want
			}
		case st == "xfin":
			after := curSeq()
			if hTicket != nil { // the executor is started by the handler when it processes READY
				hTicket.letGo()
				hTicket = nil
			}
			xTicket = gateArrive("x.start|"+qs, W)
			if xTicket == nil {
				ok = false
				break
			}
			xTicket.letGo()
			_, ok = waitEvent("x.done", "qid", qid, after, 10*time.Second)
		}
		if !ok {
			if infeasible == "" {
				infeasible = "step " + st + " could not be forced"
			}
			break
		}
		forced++
	}
	gateReleaseAll()
	var out outT
	select {
	case out = <-done:
	case <-time.After(15 * time.Second):
		out = outT{"stuck", 0}
		if forced == 0 || steps[0] != "enq" {
			out = outT{"notstarted", 0}
		}
	}
	time.Sleep(30 * time.Millisecond)
	hk.mu.Lock()
	ev := hk.events
	hk.events = nil
	hk.mu.Unlock()
	return map[string]interface{}{"qid": qid, "forced": forced, "of": len(steps), "infeasible": infeasible, "outcome": out.Outcome,
		"events": ev, "cancel_seq": cancelSeq, "xdone_at_cancel": xdoneAtCancel, "hret_at_cancel": hretAtCancel,
		"running_left": query.GetActiveQueryCount(), "waiting_left": len(query.GetWaitingQueries())}, nil
}
