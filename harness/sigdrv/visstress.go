package main

// vis_stress: free-running concurrent ingest (several indexes), millisecond flush timers, forced
// rotations and queries.  Events of an index carry consecutive ids, flushes publish prefixes, so for
// every answer there is a sound lower bound (ids whose flush became visible before the query started)
// and upper bound (ids handed to an ingest call before the query ended).  Bounds are tracked from the
// flush.begin / flush.unrotated.visible hook events.

import (
	"encoding/json"
	"fmt"
	segutils "github.com/siglens/siglens/pkg/segment/utils"
	sigutils "github.com/siglens/siglens/pkg/utils"
	vtable "github.com/siglens/siglens/pkg/virtualtable"
	"math/rand"
	"os"
	"runtime"
	"strconv"
	"strings"
	"sync"
	"sync/atomic"
	"time"

	"github.com/siglens/siglens/pkg/ast/pipesearch"
	eswriter "github.com/siglens/siglens/pkg/es/writer"
	"github.com/siglens/siglens/pkg/segment/writer"
	"github.com/siglens/siglens/pkg/verifhook"
)

func init() { reg("vis_stress", cmdVisStress) }

type idxState struct {
	name     string
	issued   atomic.Int64 // ids handed to a bulk call that has started
	done     atomic.Int64 // ids whose bulk call has returned
	atBegin  atomic.Int64 // value of done when the flush in progress began
	visible  atomic.Int64 // ids 1..visible are searchable
	flushes  atomic.Int64
	rotation atomic.Int64
}

func cmdVisStress(c Cmd) (interface{}, error) {
	nIdx := int(c.i64("indexes", 2))
	durMs := c.i64("ms", 2000)
	seed := c.i64("seed", 1)
	nQueriers := int(c.i64("queriers", 3))
	idx := make([]*idxState, nIdx)
	for i := range idx {
		idx[i] = &idxState{name: fmt.Sprintf("st%d", i)}
	}
	find := func(segkey string) *idxState {
		for _, s := range idx {
			if strings.Contains(segkey, "/"+s.name+"/") {
				return s
			}
		}
		return nil
	}
	// ring buffer of recent hook events, dumped with a failing query (diagnostics only)
	var ringMu sync.Mutex
	var ring []string
	var ringSeq int64
	ringSince := func(from int64) []string {
		ringMu.Lock()
		defer ringMu.Unlock()
		var out []string
		for _, e := range ring {
			var sq int64
			fmt.Sscanf(e, "%d ", &sq)
			if sq > from {
				out = append(out, e)
			}
		}
		return out
	}
	diag := c.str("diag")
	newCols := c.boolean("new_cols")
	newColsN := int(c.i64("new_cols_n", 1)) // >1: every event brings that many column names nobody has seen before
	verifhook.Set(func(point string, kv ...any) {
		if point == "q.pull.check" {
			return
		}
		m := kvMap(kv)
		ringMu.Lock()
		ringSeq++
		sk := fmt.Sprint(m["segkey"])
		if i := strings.LastIndex(sk, "/final/"); i >= 0 {
			sk = sk[i+7:]
		}
		ring = append(ring, fmt.Sprintf("%d %s qid=%v seg=%s n=%v blk=%v", ringSeq, point, m["qid"], sk, m["n"], m["blk"]))
		_ = diag
		if len(ring) > 3000 {
			ring = ring[1000:]
		}
		ringMu.Unlock()
		if point != "flush.begin" && point != "flush.unrotated.visible" && point != "rot.end" {
			return
		}
		s := find(fmt.Sprint(m["segkey"]))
		if s == nil {
			return
		}
		switch point {
		case "flush.begin":
			s.atBegin.Store(s.done.Load())
		case "flush.unrotated.visible":
			if v := s.atBegin.Load(); v > s.visible.Load() {
				s.visible.Store(v)
			}
			s.flushes.Add(1)
		case "rot.end":
			s.rotation.Add(1)
		}
	})
	defer verifhook.Set(nil)
	stop := make(chan struct{})
	var wg sync.WaitGroup
	var lastProgress atomic.Int64
	lastProgress.Store(time.Now().UnixNano())
	type failT struct {
		Kind  string `json:"kind"`
		Query string `json:"query"`
		What  string `json:"what"`
	}
	var fmu sync.Mutex
	fails := []failT{}
	addFail := func(kind, q, what string) {
		fmu.Lock()
		if len(fails) < 30 {
			fails = append(fails, failT{kind, q, what})
		}
		fmu.Unlock()
	}
	// ingesters: one per index (ids must stay consecutive per index)
	for i := range idx {
		wg.Add(1)
		go func(s *idxState, r *rand.Rand) {
			defer wg.Done()
			for {
				select {
				case <-stop:
					return
				default:
				}
				n := 1 + r.Intn(8)
				first := s.issued.Load() + 1
				s.issued.Add(int64(n))
				var sb strings.Builder
				for k := 0; k < n; k++ {
					id := first + int64(k)
					if newCols {
						// a new column name every few events: flushes keep adding names to the open segment's column table
						if newColsN > 1 {
							fmt.Fprintf(&sb, "{\"index\":{\"_index\":%q}}\n{\"id\":%d,\"g\":%d,\"v\":%d", s.name, id, id%3, id)
							for j := 0; j < newColsN; j++ {
								fmt.Fprintf(&sb, ",\"c%d_%d\":%d", id, j, id)
							}
							fmt.Fprintf(&sb, ",\"timestamp\":%d}\n", 1700000000000+id*10)
							continue
						}
						fmt.Fprintf(&sb, "{\"index\":{\"_index\":%q}}\n{\"id\":%d,\"g\":%d,\"v\":%d,\"c%d\":%d,\"timestamp\":%d}\n", s.name, id, id%3, id, id/7, id, 1700000000000+id*10)
					} else {
						fmt.Fprintf(&sb, "{\"index\":{\"_index\":%q}}\n{\"id\":%d,\"g\":%d,\"v\":%d,\"timestamp\":%d}\n", s.name, id, id%3, id, 1700000000000+id*10)
					}
				}
				_, _, err := eswriter.HandleBulkBody([]byte(sb.String()), nil, 0, 0, false)
				if err != nil {
					addFail("ingest-error", "", err.Error())
				}
				s.done.Add(int64(n))
				lastProgress.Store(time.Now().UnixNano())
				time.Sleep(time.Duration(r.Intn(1500)) * time.Microsecond)
			}
		}(idx[i], rand.New(rand.NewSource(seed*31+int64(i))))
	}
	// flush timers at millisecond scale + rotator
	wg.Add(2)
	go func() {
		defer wg.Done()
		r := rand.New(rand.NewSource(seed * 17))
		for {
			select {
			case <-stop:
				return
			default:
			}
			d := time.Duration(r.Intn(3)) * time.Millisecond
			if r.Intn(2) == 0 {
				writer.FlushWipBufferToFile(&d, nil)
			} else {
				writer.FlushWipBufferToFile(nil, &d)
			}
			time.Sleep(time.Duration(500+r.Intn(3000)) * time.Microsecond)
		}
	}()
	go func() {
		defer wg.Done()
		r := rand.New(rand.NewSource(seed * 19))
		for {
			select {
			case <-stop:
				return
			case <-time.After(time.Duration(15+r.Intn(60)) * time.Millisecond):
				if !c.boolean("no_rotate") {
					writer.ForceRotateSegmentsForTest()
				}
			}
		}
	}()
	forms := []string{"*", "* | stats count", "* | stats count by g", "* | stats sum(v) by g", "g=1", "* | head 7"}
	if raw, ok := c["forms"].([]interface{}); ok && len(raw) > 0 {
		forms = nil
		for _, f := range raw {
			forms = append(forms, fmt.Sprint(f))
		}
	}
	var nQueries atomic.Int64
	for qi := 0; qi < nQueriers; qi++ {
		wg.Add(1)
		go func(r *rand.Rand) {
			defer wg.Done()
			for {
				select {
				case <-stop:
					return
				default:
				}
				s := idx[r.Intn(len(idx))]
				form := forms[r.Intn(len(forms))]
				lo := s.visible.Load()
				ringMu.Lock()
				seq0 := ringSeq
				ringMu.Unlock()
				nextQidMu.Lock()
				nextQid++
				qid := nextQid
				nextQidMu.Unlock()
				m := map[string]interface{}{"searchText": form, "indexName": s.name, "startEpoch": uint64(1),
					"endEpoch": uint64(1900000000000), "queryLanguage": "Splunk QL", "size": json.Number("100000")}
				resp, _, _, err := pipesearch.ParseAndExecutePipeRequest(m, qid, 0, time.Now(), "-1", nil)
				hi := s.issued.Load()
				nQueries.Add(1)
				lastProgress.Store(time.Now().UnixNano())
				if err != nil {
					addFail("query-error", form, err.Error())
					continue
				}
				if resp == nil {
					addFail("query-nil", form, "nil response")
					continue
				}
				checkStressAnswer(form, resp.Hits.Hits, resp.MeasureResults, lo, hi, func(k, w string) {
					// diagnostic: the same query again, right away (bounds can only have grown)
					again := ""
					nextQidMu.Lock()
					nextQid++
					qid2 := nextQid
					nextQidMu.Unlock()
					resp2, _, _, err2 := pipesearch.ParseAndExecutePipeRequest(m, qid2, 0, time.Now(), "-1", nil)
					if err2 == nil && resp2 != nil {
						again = "immediately repeated query: ok"
						checkStressAnswer(form, resp2.Hits.Hits, resp2.MeasureResults, lo, s.issued.Load(), func(k2, w2 string) {
							again = "immediately repeated query: " + k2 + " " + w2
						})
					}
					evs := ringSince(seq0 - 6)
					if diag != "" {
						hb, _ := json.Marshal(resp.Hits.Hits)
						_ = os.WriteFile(fmt.Sprintf("%s/fail-%d.txt", diag, qid), []byte(fmt.Sprintf("%s %s lo=%d hi=%d qid=%d %s\n%s\n\nHITS %s\n", k, form, lo, hi, qid, w, strings.Join(evs, "\n"), hb)), 0644)
					}
					if len(evs) > 80 {
						evs = evs[:80]
					}
					addFail(k, form, fmt.Sprintf("index %s lo=%d hi=%d flushes=%d rotations=%d qid=%d: %s [%s] events during the query: %v", s.name, lo, hi, s.flushes.Load(), s.rotation.Load(), qid, w, again, evs))
				})
			}
		}(rand.New(rand.NewSource(seed*23 + int64(qi))))
	}
	// watchdog
	deadlock := ""
	t0 := time.Now()
	for time.Since(t0) < time.Duration(durMs)*time.Millisecond {
		time.Sleep(50 * time.Millisecond)
		if time.Since(time.Unix(0, lastProgress.Load())) > 25*time.Second {
			deadlock = goroutineDump()
			if len(deadlock) > 6000 {
				deadlock = deadlock[:6000]
			}
			break
		}
	}
	close(stop)
	fin := make(chan struct{})
	go func() { wg.Wait(); close(fin) }()
	select {
	case <-fin:
	case <-time.After(30 * time.Second):
		if deadlock == "" {
			deadlock = goroutineDump()
			if len(deadlock) > 6000 {
				deadlock = deadlock[:6000]
			}
		}
	}
	out := map[string]interface{}{"queries": nQueries.Load(), "fails": fails, "gomaxprocs": runtime.GOMAXPROCS(0)}
	if deadlock != "" {
		out["deadlock"] = deadlock
		return out, nil
	}
	// quiescence: everything flushed; contents must equal the sequential result
	var zero time.Duration
	writer.FlushWipBufferToFile(&zero, nil)
	per := map[string]interface{}{}
	for _, s := range idx {
		n := s.issued.Load()
		nextQid++
		m := map[string]interface{}{"searchText": "*", "indexName": s.name, "startEpoch": uint64(1),
			"endEpoch": uint64(1900000000000), "queryLanguage": "Splunk QL", "size": json.Number("1000000")}
		resp, _, _, err := pipesearch.ParseAndExecutePipeRequest(m, nextQid, 0, time.Now(), "-1", nil)
		if err != nil || resp == nil {
			addFail("final-query-error", "*", fmt.Sprint(err))
			continue
		}
		seen := map[int64]int{}
		badContent := 0
		firstBad := ""
		for _, h := range resp.Hits.Hits {
			id := toI64(h["id"])
			seen[id]++
			if toI64(h["g"]) != id%3 || toI64(h["v"]) != id || toI64(h["timestamp"]) != 1700000000000+id*10 {
				badContent++
				if firstBad == "" {
					firstBad = fmt.Sprintf("id=%v g=%v v=%v timestamp=%v", h["id"], h["g"], h["v"], h["timestamp"])
				}
			}
		}
		if badContent > 0 {
			addFail("final-content", "*", fmt.Sprintf("index %s: %d stored events differ from what was ingested, e.g. %s", s.name, badContent, firstBad))
		}
		missing, dup := 0, 0
		for id := int64(1); id <= n; id++ {
			if seen[id] == 0 {
				missing++
			} else if seen[id] > 1 {
				dup++
			}
		}
		if missing > 0 || dup > 0 || int64(len(seen)) != n {
			addFail("final-contents", "*", fmt.Sprintf("index %s: %d ingested, %d distinct returned, %d missing, %d duplicated", s.name, n, len(seen), missing, dup))
		}
		per[s.name] = map[string]int64{"ingested": n, "flushes": s.flushes.Load(), "rotations": s.rotation.Load()}
	}
	out["fails"] = fails
	out["indexes"] = per
	return out, nil
}

var nextQidMu sync.Mutex

func toI64(v interface{}) int64 {
	switch t := v.(type) {
	case float64:
		return int64(t)
	case int64:
		return t
	case int:
		return int64(t)
	case uint64:
		return int64(t)
	case json.Number:
		n, _ := t.Int64()
		return n
	case string:
		n, _ := strconv.ParseInt(t, 10, 64)
		return n
	}
	return -1
}

func measureF(v interface{}) (float64, bool) {
	switch t := v.(type) {
	case float64:
		return t, true
	case int64:
		return float64(t), true
	case uint64:
		return float64(t), true
	case int:
		return float64(t), true
	case string:
		f, err := strconv.ParseFloat(strings.ReplaceAll(t, ",", ""), 64)
		return f, err == nil
	case json.Number:
		f, err := t.Float64()
		return f, err == nil
	}
	return 0, false
}

type bucketLike interface{}

func checkStressAnswer(form string, hits []map[string]interface{}, measures interface{}, lo, hi int64, fail func(kind, what string)) {
	cntMod := func(n int64, g int64) int64 { // #ids in 1..n with id%3==g
		if n <= 0 {
			return 0
		}
		c := n / 3
		for r := int64(1); r <= n%3; r++ {
			if r%3 == g {
				c++
			}
		}
		return c
	}
	sumMod := func(n int64, g int64) int64 {
		var s int64
		for id := int64(1); id <= n; id++ {
			if id%3 == g {
				s += id
			}
		}
		return s
	}
	switch form {
	case "*", "g=1", "* | head 7":
		seen := map[int64]bool{}
		for _, h := range hits {
			id := toI64(h["id"])
			if seen[id] {
				fail("dup", fmt.Sprintf("id %d returned twice", id))
				return
			}
			seen[id] = true
			if id < 1 || id > hi {
				fail("invent", fmt.Sprintf("id %d was never ingested", id))
				return
			}
			if form == "g=1" && id%3 != 1 {
				fail("wrong-match", fmt.Sprintf("id %d does not satisfy g=1", id))
				return
			}
		}
		if form == "* | head 7" {
			if len(hits) > 7 || (lo >= 7 && len(hits) != 7) {
				fail("limit", fmt.Sprintf("head 7 returned %d records with %d searchable", len(hits), lo))
			}
			return
		}
		var missing []int64
		for id := int64(1); id <= lo; id++ {
			if form == "g=1" && id%3 != 1 {
				continue
			}
			if !seen[id] {
				missing = append(missing, id)
			}
		}
		if len(missing) > 0 {
			fail("loss", fmt.Sprintf("%d events flushed before the search began are missing, ids %d..%d (%d returned)", len(missing), missing[0], missing[len(missing)-1], len(hits)))
		}
	default:
		b, _ := json.Marshal(measures)
		var rows []struct {
			GroupByValues []string
			MeasureVal    map[string]interface{}
		}
		_ = json.Unmarshal(b, &rows)
		if form == "* | stats count" {
			if len(rows) != 1 {
				if !(lo == 0 && len(rows) == 0) {
					fail("shape", fmt.Sprintf("stats count returned %d rows", len(rows)))
				}
				return
			}
			c, ok := measureF(rows[0].MeasureVal["count(*)"])
			if !ok || int64(c) < lo {
				fail("loss", fmt.Sprintf("count(*)=%v below the number flushed before the search began", rows[0].MeasureVal["count(*)"]))
			} else if int64(c) > hi {
				fail("dup", fmt.Sprintf("count(*)=%v above the number ever ingested", c))
			}
			return
		}
		key := "count(*)"
		if strings.Contains(form, "sum(v)") {
			key = "sum(v)"
		}
		got := map[string]float64{}
		for _, r := range rows {
			if len(r.GroupByValues) != 1 {
				fail("shape", "group row without key")
				return
			}
			if _, dup := got[r.GroupByValues[0]]; dup {
				fail("dup", "group "+r.GroupByValues[0]+" appears twice")
				return
			}
			v, _ := measureF(r.MeasureVal[key])
			got[r.GroupByValues[0]] = v
		}
		for g := int64(0); g < 3; g++ {
			v := int64(got[fmt.Sprint(g)])
			var l, h int64
			if key == "count(*)" {
				l, h = cntMod(lo, g), cntMod(hi, g)
			} else {
				l, h = sumMod(lo, g), sumMod(hi, g)
			}
			if v < l {
				fail("loss", fmt.Sprintf("group %d %s=%d < %d (flushed before the search began)", g, key, v, l))
				return
			}
			if v > h {
				fail("dup", fmt.Sprintf("group %d %s=%d > %d (ever ingested)", g, key, v, h))
				return
			}
		}
	}
}

// first_ingest: the very first ingest requests for a NEW index arrive concurrently (goroutines released together), round
// after round with a fresh index name each time; after every round the buffer is flushed and a match-all search must return
// every acknowledged event exactly once (racing creations of the index's segment store must not orphan events).
func init() { reg("first_ingest", cmdFirstIngest) }

func cmdFirstIngest(c Cmd) (interface{}, error) {
	g := int(c.i64("goroutines", 8))
	per := int(c.i64("events", 3))
	rounds := int(c.i64("rounds", 1))
	type roundRes struct {
		Index   string   `json:"index"`
		Acked   int      `json:"acked"`
		Found   int      `json:"found"`
		Dup     int      `json:"dup"`
		Errors  []string `json:"errors"`
		QueryEr string   `json:"query_error,omitempty"`
	}
	out := []roundRes{}
	var zero time.Duration
	for r := 0; r < rounds; r++ {
		index := fmt.Sprintf("fi%d", r)
		// the index is known already (as for an index whose segment store was closed for being idle): what races is the
		// creation of the stream's segment store inside AddEntryToInMemBuf, which every ingest handler ends in
		if err := vtable.AddVirtualTable(&index, 0); err != nil {
			return nil, err
		}
		streamid := sigutils.CreateStreamId(index, 0)
		var ready atomic.Int32
		var wg sync.WaitGroup
		errs := make([]string, g)
		for i := 0; i < g; i++ {
			wg.Add(1)
			go func(i int) {
				defer wg.Done()
				tsKey := "timestamp"
				var stackbuf [256]byte
				ples := []*writer.ParsedLogEvent{}
				for k := 0; k < per; k++ {
					id := i*per + k + 1
					raw := []byte(fmt.Sprintf("{\"id\":%d,\"timestamp\":%d}", id, 1700000000000+int64(id)))
					ple, err := writer.GetNewPLE(raw, 1700000000000, index, &tsKey, stackbuf[:])
					if err != nil {
						errs[i] = err.Error()
						return
					}
					ples = append(ples, ple)
				}
				ready.Add(1)
				for spins := 0; int(ready.Load()) < g; spins++ {
					if spins > 2000 {
						runtime.Gosched()
					}
				}
				if err := writer.AddEntryToInMemBuf(streamid, index, false, segutils.SIGNAL_EVENTS, 0, 0, map[uint64]string{}, stackbuf[:], ples); err != nil {
					errs[i] = err.Error()
				}
			}(i)
		}
		wg.Wait()
		rr := roundRes{Index: index, Errors: []string{}}
		for _, e := range errs {
			if e != "" {
				rr.Errors = append(rr.Errors, e)
			} else {
				rr.Acked += per
			}
		}
		writer.FlushWipBufferToFile(&zero, nil)
		nextQidMu.Lock()
		nextQid++
		qid := nextQid
		nextQidMu.Unlock()
		m := map[string]interface{}{"searchText": "*", "indexName": index, "startEpoch": uint64(1),
			"endEpoch": uint64(1900000000000), "queryLanguage": "Splunk QL", "size": json.Number("10000")}
		resp, _, _, err := pipesearch.ParseAndExecutePipeRequest(m, qid, 0, time.Now(), "-1", nil)
		if err != nil || resp == nil {
			rr.QueryEr = fmt.Sprint(err)
		} else {
			seen := map[int64]bool{}
			for _, h := range resp.Hits.Hits {
				id := toI64(h["id"])
				if seen[id] {
					rr.Dup++
				}
				seen[id] = true
			}
			rr.Found = len(seen)
		}
		out = append(out, rr)
	}
	return map[string]interface{}{"rounds": out}, nil
}
