package main

// Protocol ops (C16): every ingest protocol's processing function is called with a synthetic
// fasthttp.RequestCtx, exactly as the router would after authentication (which only supplies the org id).
//
//   proto_http{handler, org, body | body_b64, content_type, headers{}, uservalues{}, uri}
//       JSON / text protocols: es_bulk, es_doc, splunk_hec, loki, otsdb
//   proto_pb{handler, org, json, [gzip]}
//       protobuf protocols described as protojson of the request message: otlp_logs, otlp_traces,
//       otlp_metrics (binary protobuf body), loki (snappy + protobuf PushRequest)
//   proto_promrw{org, json}
//       Prometheus remote write: JSON image of prompb.WriteRequest -> protobuf -> snappy

import (
	"bytes"
	"compress/gzip"
	"encoding/base64"
	"encoding/json"
	"fmt"

	"github.com/golang/snappy"
	"github.com/prometheus/prometheus/prompb"
	"github.com/valyala/fasthttp"
	collogpb "go.opentelemetry.io/proto/otlp/collector/logs/v1"
	colmetricspb "go.opentelemetry.io/proto/otlp/collector/metrics/v1"
	coltracepb "go.opentelemetry.io/proto/otlp/collector/trace/v1"
	"google.golang.org/protobuf/encoding/protojson"
	"google.golang.org/protobuf/proto"

	eswriter "github.com/siglens/siglens/pkg/es/writer"
	"github.com/siglens/siglens/pkg/integrations/loki"
	lokilog "github.com/siglens/siglens/pkg/integrations/loki/log"
	otsdbwriter "github.com/siglens/siglens/pkg/integrations/otsdb/writer"
	promingest "github.com/siglens/siglens/pkg/integrations/prometheus/ingest"
	"github.com/siglens/siglens/pkg/integrations/splunk"
	"github.com/siglens/siglens/pkg/otlp"
)

func init() {
	reg("proto_http", cmdProtoHTTP)
	reg("proto_pb", cmdProtoPB)
	reg("proto_promrw", cmdProtoPromRW)
}

var protoHandlers = map[string]func(ctx *fasthttp.RequestCtx, org int64){
	"es_bulk":      func(ctx *fasthttp.RequestCtx, org int64) { eswriter.ProcessBulkRequest(ctx, org, false) },
	"es_doc":       func(ctx *fasthttp.RequestCtx, org int64) { eswriter.ProcessPutPostSingleDocRequest(ctx, false, org) },
	"splunk_hec":   splunk.ProcessSplunkHecIngestRequest,
	"loki":         loki.ProcessLokiLogsIngestRequest,
	"otlp_logs":    otlp.ProcessLogIngest,
	"otlp_traces":  otlp.ProcessTraceIngest,
	"otlp_metrics": otlp.ProcessMetricsIngest,
	"otsdb":        otsdbwriter.PutMetrics,
	"prom_rw":      promingest.PutMetrics,
}

func protoCall(handler string, org int64, ctx *fasthttp.RequestCtx) (interface{}, error) {
	h, ok := protoHandlers[handler]
	if !ok {
		return nil, fmt.Errorf("unknown handler %q", handler)
	}
	h(ctx, org)
	b := ctx.Response.Body()
	r := map[string]interface{}{"status": ctx.Response.StatusCode(), "len": len(b)}
	var v interface{}
	if len(b) > 0 && json.Unmarshal(b, &v) == nil {
		r["body"] = v
	} else if len(b) > 0 {
		r["body_b64"] = base64.StdEncoding.EncodeToString(b)
	}
	return r, nil
}

func cmdProtoHTTP(c Cmd) (interface{}, error) {
	ctx := &fasthttp.RequestCtx{}
	ctx.Request.Header.SetMethod("POST")
	uri := c.str("uri")
	if uri == "" {
		uri = "/"
	}
	ctx.Request.SetRequestURI(uri)
	if b64 := c.str("body_b64"); b64 != "" {
		raw, err := base64.StdEncoding.DecodeString(b64)
		if err != nil {
			return nil, err
		}
		ctx.Request.SetBody(raw)
	} else {
		ctx.Request.SetBody([]byte(c.str("body")))
	}
	if ct := c.str("content_type"); ct != "" {
		ctx.Request.Header.SetContentType(ct)
	}
	if hs, ok := c["headers"].(map[string]interface{}); ok {
		for k, v := range hs {
			ctx.Request.Header.Set(k, fmt.Sprint(v))
		}
	}
	if uv, ok := c["uservalues"].(map[string]interface{}); ok {
		for k, v := range uv {
			ctx.SetUserValue(k, fmt.Sprint(v))
		}
	}
	return protoCall(c.str("handler"), c.i64("org", 0), ctx)
}

func cmdProtoPB(c Cmd) (interface{}, error) {
	handler := c.str("handler")
	var msg proto.Message
	switch handler {
	case "otlp_logs":
		msg = &collogpb.ExportLogsServiceRequest{}
	case "otlp_traces":
		msg = &coltracepb.ExportTraceServiceRequest{}
	case "otlp_metrics":
		msg = &colmetricspb.ExportMetricsServiceRequest{}
	case "loki":
		msg = &lokilog.PushRequest{}
	default:
		return nil, fmt.Errorf("proto_pb: unknown handler %q", handler)
	}
	if err := protojson.Unmarshal([]byte(c.str("json")), msg); err != nil {
		return nil, fmt.Errorf("proto_pb: protojson: %v", err)
	}
	raw, err := proto.Marshal(msg)
	if err != nil {
		return nil, err
	}
	ctx := &fasthttp.RequestCtx{}
	ctx.Request.Header.SetMethod("POST")
	ctx.Request.SetRequestURI("/")
	ctx.Request.Header.SetContentType("application/x-protobuf")
	if handler == "loki" {
		raw = snappy.Encode(nil, raw)
	} else if c.boolean("gzip") {
		var buf bytes.Buffer
		zw := gzip.NewWriter(&buf)
		_, _ = zw.Write(raw)
		_ = zw.Close()
		raw = buf.Bytes()
		ctx.Request.Header.Set("Content-Encoding", "gzip")
	}
	ctx.Request.SetBody(raw)
	return protoCall(handler, c.i64("org", 0), ctx)
}

func cmdProtoPromRW(c Cmd) (interface{}, error) {
	var req prompb.WriteRequest
	if err := json.Unmarshal([]byte(c.str("json")), &req); err != nil {
		return nil, fmt.Errorf("proto_promrw: %v", err)
	}
	raw, err := req.Marshal()
	if err != nil {
		return nil, err
	}
	ctx := &fasthttp.RequestCtx{}
	ctx.Request.Header.SetMethod("POST")
	ctx.Request.SetRequestURI("/promql/api/v1/write")
	ctx.Request.Header.SetContentType("application/x-protobuf")
	ctx.Request.Header.Set("Content-Encoding", "snappy")
	ctx.Request.Header.Set("X-Prometheus-Remote-Write-Version", "0.1.0")
	ctx.Request.SetBody(snappy.Encode(nil, raw))
	return protoCall("prom_rw", c.i64("org", 0), ctx)
}
