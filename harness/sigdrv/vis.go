package main

// vis_sched: force one TLC-generated interleaving (spec/Gen_Visibility.tla) of a writer
// (ingest / flush steps / rotation steps) and one query on the real goroutines.
//
//   writer steps   ingest:<n>         bulk-ingest n more events (ids continue), returns when buffered
//                  flush.vis          start the flush; it parks right after the block became query-visible
//                  flush.end          let the parked flush finish
//                  rot.tree           start the rotation; it parks right after the agile-tree meta file has been created
//                                     (EncodeStarTree), or - no tree is being built - like rot.meta
//                  rot.segmeta        start the rotation (or let the one parked at rot.tree go on); it parks after the
//                                     segmeta.json line was written, right before AddSegMetaToMetadata
//                  rot.meta           let it go on; it parks after AddSegMetaToMetadata (rotated metadata visible)
//                  rot.remove         let it go on; it parks after removeSegKeyFromUnrotatedInfo
//                  rot.end            let the rotation finish
//   query steps    q.snapU            start the query; it parks after the unrotated snapshot
//                  q.snapR            let it take the rotated snapshot; it parks after it
//                  q.tree             let it go on: group-by queries now look for agile trees of the listed segments; it parks
//                                     where q.check describes (there is nothing between the two in the code)
//                  q.check            let it go on until it has decided, for a segment it listed as unrotated, that the segment
//                                     is (still) unrotated and is about to read the unrotated info (GetSSRsFromQSR); if the
//                                     query never gets there (nothing listed as unrotated any more) the step is a no-op
//                  q.plan             let it build the search request of that segment (from the unrotated info, or - if the
//                                     segment left it meanwhile - from the rotated metadata); parks after it
//                  q.open             let it go on until the column readers of that segment have decided (again) that the
//                                     segment is unrotated and are about to fetch its block table from the unrotated info
//                  q.fetch            let it open the readers and search; record queries park again when the readers that
//                                     fetch the matched records' columns have decided that the segment is unrotated
//                  q.search           let it finish
// q.check / q.open / q.fetch are no-ops when the query never gets to that point (segment found rotated, no record fetch).
// A step that cannot be forced (the goroutine needs a lock the parked one holds) makes the schedule infeasible.

import (
	"encoding/json"
	"fmt"
	"strconv"
	"strings"
	"time"

	"github.com/siglens/siglens/pkg/ast/pipesearch"
	eswriter "github.com/siglens/siglens/pkg/es/writer"
	"github.com/siglens/siglens/pkg/segment/writer"
)

func init() { reg("vis_sched", cmdVisSched) }

func cmdVisSched(c Cmd) (interface{}, error) {
	var steps []string
	if raw, ok := c["steps"].([]interface{}); ok {
		for _, s := range raw {
			steps = append(steps, fmt.Sprint(s))
		}
	}
	text := c.str("text")
	if text == "" {
		text = "*"
	}
	index := c.str("index")
	if index == "" {
		index = "vis"
	}
	hk.mu.Lock()
	hk.logging = true
	hk.events = nil
	hk.mu.Unlock()
	nextQid++
	qid := nextQid
	qs := fmt.Sprint(qid)
	// record / group-by queries list segments in getAllSegmentsInQuery (snap.*), segment-stats queries in
	// getAllSegmentsInAggs (snapagg.*): whichever the query reaches
	pU := []string{"snap.unrotated|" + qs, "snapagg.unrotated|" + qs}
	pR := []string{"snap.rotated|" + qs, "snapagg.rotated|" + qs}
	gateInstall("qid", append(append([]string{}, pU...), append(pR, "search.unrotated|"+qs, "search.planned|"+qs, "read.unrotated.checked|"+qs,
		"fetch.unrotated.checked|"+qs, "flush.unrotated.visible|*", "rot.tree.created|*", "rot.metadata.begin|*", "rot.metadata.visible|*", "rot.unrotated.removed|*")...))
	curSeg, want := "", "" // segment the writer is filling / the one the query listed last
	// gate keys for writer points carry no qid: hookFn builds "point|<nil>" -> falls back to "point|*"
	const W = 4 * time.Second
	nextID := int(c.i64("first_id", 1))
	type qres struct {
		resp json.RawMessage
		err  string
	}
	qdone := make(chan qres, 1)
	wdone := make(chan struct{}, 4)
	var wTicket, qTicket *ticket
	visibleBeforeQuery := -1
	flushedVisible := 0 // events whose flush became query-visible
	ingested := 0
	pendingInWip := 0
	forced := 0
	infeasible := ""
	atMeta, rotStarted, treesParked := false, false, 0
	var q qres
	gotQ := false
	waitW := func() bool {
		select {
		case <-wdone:
			return true
		case <-time.After(W):
			return false
		}
	}
	sawTree := false
	for _, st := range steps {
		if st == "q.tree" {
			sawTree = true
		}
	}
	// prime: make the persistent-query machinery track the group-by columns, so that segments get an agile tree
	if c.boolean("prime") {
		var zero time.Duration
		body := fmt.Sprintf("{\"index\":{\"_index\":%q}}\n{\"id\":%d,\"g\":%d,\"v\":%d,\"timestamp\":%d}\n", index, nextID, nextID%3, nextID, 1700000000000+int64(nextID)*1000)
		if _, _, err := eswriter.HandleBulkBody([]byte(body), nil, 0, 0, false); err != nil {
			return nil, err
		}
		nextID++
		ingested++
		flushedVisible++
		hk.mu.Lock()
		gatesOff := hk.gates
		hk.gates = nil
		hk.mu.Unlock()
		writer.FlushWipBufferToFile(&zero, nil)
		for _, pt := range []string{"* | stats count by g", "* | stats sum(v) by g", "* | stats count by g"} {
			nextQid++
			m := map[string]interface{}{"searchText": pt, "indexName": index, "startEpoch": uint64(1),
				"endEpoch": uint64(1900000000000), "queryLanguage": "Splunk QL", "size": json.Number("100")}
			_, _, _, _ = pipesearch.ParseAndExecutePipeRequest(m, nextQid, 0, time.Now(), "-1", nil)
		}
		writer.ForceRotateSegmentsForTest()
		hk.mu.Lock()
		hk.gates = gatesOff
		hk.mu.Unlock()
	}
	for _, st := range steps {
		ok := true
		switch {
		case strings.HasPrefix(st, "ingest:"):
			n, _ := strconv.Atoi(strings.TrimPrefix(st, "ingest:"))
			var sb strings.Builder
			for i := 0; i < n; i++ {
				fmt.Fprintf(&sb, "{\"index\":{\"_index\":%q}}\n{\"id\":%d,\"g\":%d,\"v\":%d,\"timestamp\":%d}\n", index, nextID, nextID%3, nextID, 1700000000000+int64(nextID)*1000)
				nextID++
			}
			_, _, err := eswriter.HandleBulkBody([]byte(sb.String()), nil, 0, 0, false)
			ok = err == nil
			ingested += n
			pendingInWip += n
		case st == "flush.vis":
			go func() {
				var zero time.Duration
				writer.FlushWipBufferToFile(&zero, nil)
				wdone <- struct{}{}
			}()
			wTicket = gateArrive("flush.unrotated.visible|*", W)
			ok = wTicket != nil
			if ok {
				curSeg = fmt.Sprint(wTicket.kv["segkey"])
				flushedVisible += pendingInWip
				pendingInWip = 0
			}
		case st == "flush.end":
			wTicket.letGo()
			wTicket = nil
			ok = waitW()
		case st == "rot.meta":
			// the rotation is parked at rot.metadata.begin (rot.segmeta)
			wTicket.letGo()
			wTicket = gateArrive("rot.metadata.visible|*", W)
			ok = wTicket != nil
		case st == "rot.tree" || st == "rot.segmeta":
			if st == "rot.segmeta" && atMeta {
				atMeta = false // the rotation started by rot.tree built no tree and is already parked here
				break
			}
			if st == "rot.segmeta" && rotStarted {
				wTicket.letGo()
				wTicket = gateArrive("rot.metadata.begin|*", W)
				ok = wTicket != nil
				rotStarted = false
				break
			}
			go func() {
				writer.ForceRotateSegmentsForTest()
				wdone <- struct{}{}
			}()
			if pendingInWip > 0 {
				// rotation flushes the open buffer first: pass its visibility point
				t := gateArrive("flush.unrotated.visible|*", W)
				if t == nil {
					ok = false
					break
				}
				flushedVisible += pendingInWip
				pendingInWip = 0
				curSeg = fmt.Sprint(t.kv["segkey"])
				t.letGo()
			}
			if st == "rot.tree" {
				wTicket = gateArriveAny([]string{"rot.tree.created|*", "rot.metadata.begin|*"}, W)
				ok = wTicket != nil
				if ok && wTicket.point == "rot.metadata.begin" {
					atMeta = true
				} else {
					rotStarted = true
					treesParked++
				}
				break
			}
			gateClose("rot.tree.created|*")
			wTicket = gateArrive("rot.metadata.begin|*", W)
			ok = wTicket != nil
		case st == "rot.remove":
			wTicket.letGo()
			wTicket = gateArrive("rot.unrotated.removed|*", W)
			ok = wTicket != nil
		case st == "rot.end":
			wTicket.letGo()
			wTicket = nil
			ok = waitW()
		case st == "q.snapU":
			visibleBeforeQuery = flushedVisible
			want = curSeg
			go func() {
				defer func() {
					if r := recover(); r != nil {
						qdone <- qres{nil, fmt.Sprintf("PANIC: %v", r)}
					}
				}()
				m := map[string]interface{}{"searchText": text, "indexName": index, "startEpoch": uint64(1),
					"endEpoch": uint64(1900000000000), "queryLanguage": "Splunk QL", "size": json.Number("5000")}
				resp, _, _, err := pipesearch.ParseAndExecutePipeRequest(m, qid, 0, time.Now(), "-1", nil)
				if err != nil {
					qdone <- qres{nil, err.Error()}
					return
				}
				b, _ := json.Marshal(resp)
				qdone <- qres{b, ""}
			}()
			qTicket = gateArriveAny(pU, W)
			ok = qTicket != nil
		case st == "q.snapR":
			qTicket.letGo()
			qTicket = gateArriveAny(pR, W)
			ok = qTicket != nil
		case st == "q.tree":
			qTicket.letGo()
			qTicket = gateArriveSeg("search.unrotated|"+qs, want, 300*time.Millisecond) // nil: the query took the rotated path / is done
		case st == "q.check":
			// parked there already (q.tree); schedules generated without q.tree release the listing ticket here
			if !sawTree {
				qTicket.letGo()
				qTicket = gateArriveSeg("search.unrotated|"+qs, want, 300*time.Millisecond)
			}
		case st == "q.plan":
			gateClose("search.unrotated|" + qs)
			qTicket = gateArriveSeg("search.planned|"+qs, want, 300*time.Millisecond)
		case st == "q.open":
			gateClose("search.planned|" + qs)
			qTicket = gateArriveSeg("read.unrotated.checked|"+qs, want, 300*time.Millisecond)
		case st == "q.fetch":
			gateClose("read.unrotated.checked|" + qs)
			qTicket = gateArriveSeg("fetch.unrotated.checked|"+qs, want, 300*time.Millisecond)
		case st == "q.search":
			gateClose("fetch.unrotated.checked|" + qs)
			if qTicket != nil {
				qTicket.letGo()
			}
			qTicket = nil
			// the model's last query step ends the query: wait for the answer before the next writer step
			select {
			case q = <-qdone:
				gotQ = true
			case <-time.After(W):
			}
		}
		if !ok {
			infeasible = "step " + st + " could not be forced"
			break
		}
		forced++
	}
	gateReleaseAll()
	if !gotQ {
		select {
		case q = <-qdone:
			gotQ = true
		case <-time.After(20 * time.Second):
		}
	}
	// let writer goroutines finish
	for i := 0; i < 2; i++ {
		select {
		case <-wdone:
		case <-time.After(300 * time.Millisecond):
		}
	}
	hk.mu.Lock()
	ev := hk.events
	hk.events = nil
	hk.mu.Unlock()
	out := map[string]interface{}{"forced": forced, "of": len(steps), "infeasible": infeasible, "answered": gotQ,
		"trees_parked": treesParked, "visible_before_query": visibleBeforeQuery, "ingested": ingested, "flushed_visible": flushedVisible, "events": ev, "next_id": nextID}
	if gotQ {
		if q.err != "" {
			out["qerr"] = q.err
		} else {
			out["resp"] = q.resp
		}
	}
	return out, nil
}

// unrot_snapshot: model assumption "what a query takes from the unrotated info is a snapshot".  Flush one block, take the
// block table the way the column readers do (writer.GetBlockSearchInfoForKey) and the way the request planner does
// (UnrotatedSegmentInfo.GetUnrotatedBlockInfoForQuery), then flush a second block that introduces new column names and
// report whether the tables taken before have changed (they are then the writer's live maps: a query reading them while a
// flush adds a column is an unsynchronised map read/write).
func init() { reg("unrot_snapshot", cmdUnrotSnapshot) }

func cmdUnrotSnapshot(c Cmd) (interface{}, error) {
	index := c.str("index")
	if index == "" {
		index = "snapidx"
	}
	ing := func(id int, extra string) error {
		body := fmt.Sprintf("{\"index\":{\"_index\":%q}}\n{\"id\":%d,\"g\":%d%s,\"timestamp\":%d}\n", index, id, id%3, extra, 1700000000000+int64(id)*1000)
		_, _, err := eswriter.HandleBulkBody([]byte(body), nil, 0, 0, false)
		return err
	}
	var zero time.Duration
	if err := ing(1, ""); err != nil {
		return nil, err
	}
	writer.FlushWipBufferToFile(&zero, nil)
	var key string
	writer.UnrotatedInfoLock.RLock()
	for k, usi := range writer.AllUnrotatedSegmentInfo {
		if usi.TableName == index {
			key = k
		}
	}
	writer.UnrotatedInfoLock.RUnlock()
	if key == "" {
		return nil, fmt.Errorf("no unrotated segment for %s", index)
	}
	bmi, err := writer.GetBlockSearchInfoForKey(key)
	if err != nil {
		return nil, err
	}
	writer.UnrotatedInfoLock.RLock()
	_, bmi2, cols2 := writer.AllUnrotatedSegmentInfo[key].GetUnrotatedBlockInfoForQuery()
	writer.UnrotatedInfoLock.RUnlock()
	before := []int{len(bmi.CnameDict), len(bmi.AllBmh), len(bmi2.CnameDict), len(bmi2.AllBmh), len(cols2)}
	for i := 0; i < int(c.i64("new_cols", 3)); i++ {
		if err := ing(2+i, fmt.Sprintf(",\"late%d\":%d", i, i)); err != nil {
			return nil, err
		}
	}
	writer.FlushWipBufferToFile(&zero, nil)
	after := []int{len(bmi.CnameDict), len(bmi.AllBmh), len(bmi2.CnameDict), len(bmi2.AllBmh), len(cols2)}
	return map[string]interface{}{"names": []string{"reader.CnameDict", "reader.AllBmh", "planner.CnameDict", "planner.AllBmh", "planner.columns"},
		"before": before, "after": after}, nil
}
